// NOTES, NOT FRAMEWORK CODE (same status as defect_replays.rs).
//
// Driver linked against the real, unmodified kyrodb-engine crate (Cargo.toml = /verif/replay/Cargo.toml.in with another
// package name) written while building the C12 restore units (archive_header, archive_checksum, clear_guard,
// restore_order, restore_pitr).  Each scenario is a concrete input for a behaviour the contracts list as residue.
// Output observed on /repo at e4c0c1b (2026-09-26), `live` data dir = {MANIFEST: "live-manifest", wal_9.wal: "live-wal"}:
//
//   S1 name-bit-flip: restore -> Ok(()); data dir = [("MANIFESU", "m1"), ("wal_1.wal", "w1")]
//        one flipped bit inside a member NAME of the archive: verify_backup_archive accepts it (the checksum is the wrapping sum of
//        the payload CRCs only, lemma_checksum_ignores_first_name), the live directory is cleared, MANIFEST is restored as MANIFESU
//   S5 name 'MANIFES/': restore -> Err("Failed to create restore target <data>/MANIFES/"); data dir = []
//        one altered name byte ('T' -> '/'): Path::components() normalises the trailing separator, validate_backup_member_name
//        accepts, the checksum still matches, the live directory is CLEARED and then the extraction fails: live data lost
//   S2 metadata backup_type altered: restore -> Ok(()); data dir = [("MANIFEST", "m2"), ("wal_2.wal", "w2")]
//        "Incremental" -> "Full" in backup_<id>.json of an incremental: restored alone, the parent's files are missing
//        (the metadata record has no integrity protection)
//   S3 PITR(350) with F1@100, F2@200, I(F1)@300: restore -> Ok(()); data dir = [("state", "v2")]
//        point-in-time restore picks the newest FULL <= target and only its own incrementals; the newest backup <= 350 is I (v3)
//   S6 restore(id=f) where backup_f.json holds record g: -> Ok(()); data dir = [("state", "B")]
//        the id inside the JSON is not compared with the id in the file name; archive g is verified and restored for request f
//   S4 restore(self-parent incremental): finished after 3 s = false
//        an Incremental whose parent_id is itself: the parent walk never terminates and grows `chain`
//
use kyrodb_engine::backup::{compute_backup_checksum, BackupMetadata, BackupType, ClearDirectoryOptions, RestoreManager};
use std::fs;
use std::path::Path;
use uuid::Uuid;

fn write_archive(path: &Path, entries: &[(&str, &[u8])]) {
    let mut out = Vec::new();
    out.extend_from_slice(&(entries.len() as u32).to_le_bytes());
    for (name, data) in entries {
        out.extend_from_slice(&(name.len() as u32).to_le_bytes());
        out.extend_from_slice(name.as_bytes());
        out.extend_from_slice(&(data.len() as u64).to_le_bytes());
        out.extend_from_slice(data);
    }
    fs::write(path, out).unwrap();
}
fn mk_backup(dir: &Path, ty: BackupType, parent: Option<Uuid>, ts: u64, entries: &[(&str, &[u8])]) -> BackupMetadata {
    let id = Uuid::new_v4();
    let tar = dir.join(format!("backup_{}.tar", id));
    write_archive(&tar, entries);
    let m = BackupMetadata { id, timestamp: ts, backup_type: ty, size_bytes: 0, vector_count: 0,
        checksum: compute_backup_checksum(&tar).unwrap(), parent_id: parent, description: String::new(),
        max_wal_file_id: None, snapshot_file: None };
    fs::write(dir.join(format!("backup_{}.json", id)), serde_json::to_string(&m).unwrap()).unwrap();
    m
}
fn ls(dir: &Path) -> Vec<(String, String)> {
    let mut v: Vec<_> = fs::read_dir(dir).unwrap().map(|e| { let e = e.unwrap(); (e.file_name().to_string_lossy().to_string(),
        if e.path().is_file() { String::from_utf8_lossy(&fs::read(e.path()).unwrap()).to_string() } else { "<dir>".into() }) }).collect();
    v.sort(); v
}
fn fresh() -> (tempfile::TempDir, tempfile::TempDir) {
    let b = tempfile::tempdir().unwrap(); let d = tempfile::tempdir().unwrap();
    fs::write(d.path().join("MANIFEST"), b"live-manifest").unwrap();
    fs::write(d.path().join("wal_9.wal"), b"live-wal").unwrap();
    (b, d)
}
fn allow() -> ClearDirectoryOptions { ClearDirectoryOptions::new().with_allow_clear(true) }

fn main() {
    // S1: one flipped bit in a member NAME of the archive
    {
        let (b, d) = fresh();
        let m = mk_backup(b.path(), BackupType::Full, None, 100, &[("MANIFEST", b"m1"), ("wal_1.wal", b"w1")]);
        let tar = b.path().join(format!("backup_{}.tar", m.id));
        let mut bytes = fs::read(&tar).unwrap();
        let pos = 4 + 4 + 7; // last byte of "MANIFEST"
        assert_eq!(bytes[pos], b'T');
        bytes[pos] ^= 0x01; // 'T' -> 'U'
        fs::write(&tar, bytes).unwrap();
        let r = RestoreManager::new(b.path(), d.path()).unwrap().restore_from_backup_with_options(m.id, &allow());
        println!("S1 name-bit-flip: restore -> {:?}; data dir = {:?}", r.map_err(|e| e.to_string()), ls(d.path()));
    }
    // S5: one flipped byte turns the last name byte into '/'
    {
        let (b, d) = fresh();
        let m = mk_backup(b.path(), BackupType::Full, None, 100, &[("MANIFEST", b"m1"), ("wal_1.wal", b"w1")]);
        let tar = b.path().join(format!("backup_{}.tar", m.id));
        let mut bytes = fs::read(&tar).unwrap();
        bytes[4 + 4 + 7] = b'/';
        fs::write(&tar, bytes).unwrap();
        let r = RestoreManager::new(b.path(), d.path()).unwrap().restore_from_backup_with_options(m.id, &allow());
        println!("S5 name 'MANIFES/': restore -> {:?}; data dir = {:?}", r.map_err(|e| e.to_string()), ls(d.path()));
    }
    // S2: metadata altered: an incremental relabelled as Full
    {
        let (b, d) = fresh();
        let f = mk_backup(b.path(), BackupType::Full, None, 100, &[("MANIFEST", b"m1"), ("wal_1.wal", b"w1")]);
        let i = mk_backup(b.path(), BackupType::Incremental, Some(f.id), 200, &[("MANIFEST", b"m2"), ("wal_2.wal", b"w2")]);
        let jp = b.path().join(format!("backup_{}.json", i.id));
        let js = fs::read_to_string(&jp).unwrap().replace("\"Incremental\"", "\"Full\"");
        fs::write(&jp, js).unwrap();
        let r = RestoreManager::new(b.path(), d.path()).unwrap().restore_from_backup_with_options(i.id, &allow());
        println!("S2 metadata backup_type altered: restore -> {:?}; data dir = {:?}", r.map_err(|e| e.to_string()), ls(d.path()));
    }
    // S3: PITR ignores a newer incremental that hangs off an older Full
    {
        let (b, d) = fresh();
        let f1 = mk_backup(b.path(), BackupType::Full, None, 100, &[("state", b"v1")]);
        let _f2 = mk_backup(b.path(), BackupType::Full, None, 200, &[("state", b"v2")]);
        let _i = mk_backup(b.path(), BackupType::Incremental, Some(f1.id), 300, &[("state", b"v3")]);
        let r = RestoreManager::new(b.path(), d.path()).unwrap().restore_point_in_time_with_options(350, &allow());
        println!("S3 PITR(350) with F1@100, F2@200, I(F1)@300: restore -> {:?}; data dir = {:?}", r.map_err(|e| e.to_string()), ls(d.path()));
    }
    // S6: metadata id differs from the file name id
    {
        let (b, d) = fresh();
        let f = mk_backup(b.path(), BackupType::Full, None, 100, &[("state", b"A")]);
        let g = mk_backup(b.path(), BackupType::Full, None, 100, &[("state", b"B")]);
        // backup_<f>.json now carries g's record
        fs::copy(b.path().join(format!("backup_{}.json", g.id)), b.path().join(format!("backup_{}.json", f.id))).unwrap();
        let r = RestoreManager::new(b.path(), d.path()).unwrap().restore_from_backup_with_options(f.id, &allow());
        println!("S6 restore(id=f) where backup_f.json holds record g: -> {:?}; data dir = {:?}", r.map_err(|e| e.to_string()), ls(d.path()));
    }
    // S4: an Incremental record whose parent_id is its own id: the parent walk of restore_from_backup_with_options never ends
    //     (and `chain` grows by one clone per iteration)
    {
        let (b, d) = fresh();
        let f = mk_backup(b.path(), BackupType::Full, None, 100, &[("state", b"v1")]);
        let mut j = mk_backup(b.path(), BackupType::Incremental, Some(f.id), 300, &[("state", b"v3")]);
        j.parent_id = Some(j.id);
        fs::write(b.path().join(format!("backup_{}.json", j.id)), serde_json::to_string(&j).unwrap()).unwrap();
        let (bd, dd) = (b.path().to_path_buf(), d.path().to_path_buf());
        let jid = j.id;
        let h = std::thread::spawn(move || { let _ = RestoreManager::new(&bd, &dd).unwrap().restore_from_backup_with_options(jid, &allow()); });
        std::thread::sleep(std::time::Duration::from_secs(3));
        println!("S4 restore(self-parent incremental): finished after 3 s = {}", h.is_finished());
        std::process::exit(0);
    }
}
