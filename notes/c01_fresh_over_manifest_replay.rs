// Replay of candidate finding F-C01-b (units persistence_init / server_recovery_decision): a fresh start over an EXISTING MANIFEST
// (kyrodb_server with persistence.enable_recovery=false, or any TieredEngine::new / HnswBackend::with_persistence on a used directory).
// Build like replay/ (Cargo.toml.in of /verif/replay, this file as src/main.rs).  Observed on /repo @ 8be8401:
//   run3 recovered len=5 ids=[1, 2, 3, 4, 5]   VERDICT fresh_over_manifest DEFECT (acknowledged writes 100/101 of run 2 lost; run-1 documents back)
use kyrodb_engine::config::DistanceMetric;
use kyrodb_engine::hnsw_backend::HnswBackend;
use kyrodb_engine::metrics::MetricsCollector;
use kyrodb_engine::persistence::{FsyncPolicy, Manifest};
use std::collections::HashMap;

fn main() {
    let dir = tempfile::tempdir().unwrap();
    // run 1: normal life
    let b = HnswBackend::with_persistence(2, DistanceMetric::Euclidean, vec![], vec![], 100, dir.path(), FsyncPolicy::Always, 0, 0).unwrap();
    for i in 1..=4u64 { b.insert(i, vec![i as f32, 1.0], HashMap::new()).unwrap(); }
    b.create_snapshot().unwrap();
    b.insert(5, vec![5.0, 1.0], HashMap::new()).unwrap();
    drop(b);
    let m1 = Manifest::load(dir.path().join("MANIFEST")).unwrap();
    println!("run1 manifest: snapshot={:?} seq={:?} segments={:?}", m1.latest_snapshot, m1.latest_snapshot_wal_seq, m1.wal_segments);
    // run 2: what kyrodb_server does with persistence.enable_recovery=false: TieredEngine::new -> with_persistence over the SAME directory
    let b = HnswBackend::with_persistence(2, DistanceMetric::Euclidean, vec![], vec![], 100, dir.path(), FsyncPolicy::Always, 0, 0).unwrap();
    println!("run2 (fresh start over existing MANIFEST): len={}", b.len());
    let r100 = b.insert(100, vec![100.0, 1.0], HashMap::new());
    let r101 = b.insert(101, vec![101.0, 1.0], HashMap::new());
    println!("run2 insert 100 -> {:?}, insert 101 -> {:?} (acknowledged)", r100.is_ok(), r101.is_ok());
    let snap = b.create_snapshot();
    println!("run2 create_snapshot -> {:?}", snap.is_ok());
    drop(b);
    let m2 = Manifest::load(dir.path().join("MANIFEST")).unwrap();
    println!("run2 manifest: snapshot={:?} seq={:?} segments={:?}", m2.latest_snapshot, m2.latest_snapshot_wal_seq, m2.wal_segments);
    // run 3: recovery enabled again
    match HnswBackend::recover(2, DistanceMetric::Euclidean, dir.path(), 100, FsyncPolicy::Always, 0, 0, MetricsCollector::new()) {
        Ok(r) => {
            let mut ids: Vec<u64> = (0..200u64).filter(|i| r.fetch_document(*i).is_some()).collect();
            ids.sort();
            println!("run3 recovered len={} ids={:?}", r.len(), ids);
            let lost = !ids.contains(&100) || !ids.contains(&101);
            println!("VERDICT fresh_over_manifest {}", if lost { "DEFECT (acknowledged writes 100/101 of run 2 lost; run-1 documents back)" } else { "OK" });
        }
        Err(e) => println!("run3 RECOVERY FAILED: {e:#}\nVERDICT fresh_over_manifest DEFECT"),
    }
}
