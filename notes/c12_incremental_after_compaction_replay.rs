// Replay of the finding reported by unit backup_incremental (lemma_incremental_never_ships_snapshot), against the REAL crate.
// Build like /verif/replay (Cargo.toml.in, package renamed) and run; output on /repo HEAD 8be8401:
//   FULL: max_wal_file_id=Some(W1) snapshot_file=Some("snapshot_A.snap") manifest=["wal_W1.wal"]
//   after snapshot: latest_snapshot=Some("snapshot_B.snap") wal_segments=["wal_W2.wal"]   (wal_W1.wal compacted away)
//   INC: max_wal_file_id=Some(W2) snapshot_file=None
//   live collection at incremental time: [0, 1, 2, 10, 11, 12, 20, 21, 22, 30, 40]
//   restored dir: ["MANIFEST", "snapshot_A.snap", "wal_W1.wal", "wal_W2.wal"]
//   restored MANIFEST: latest_snapshot=Some("snapshot_B.snap") (exists: false) wal_segments=["wal_W2.wal"]
//   recovery of the restored directory REFUSED: strict recovery mode: snapshot covers WAL seq 0 but MANIFEST committed snapshot seq 7
//     and 6 WAL entries in between are no longer available; refusing to recover from the older snapshot
//   VERDICT inc_after_compaction DEFECT (restored chain does not start)
// History: full backup -> writes 20..22 into the archived segment -> restart (new active segment) -> write 30 -> create_snapshot
// (snapshot_B, old segment compacted) -> write 40 -> incremental(parent = full) -> restore(incremental) into an empty directory.
// The incremental archive holds MANIFEST + wal_W2.wal only; its MANIFEST points at snapshot_B.snap, which is in no archive of the
// chain; documents 20..22 and 30 exist only in snapshot_B and in the compacted wal_W1.wal tail (the full backup has W1 as of ITS time).
// scratch replay: incremental backup taken after (restart/rotation + snapshot + compaction) since its parent
use kyrodb_engine::backup::{BackupManager, RestoreManager};
use kyrodb_engine::config::DistanceMetric;
use kyrodb_engine::hnsw_backend::HnswBackend;
use kyrodb_engine::metrics::MetricsCollector;
use kyrodb_engine::persistence::{FsyncPolicy, Manifest};
use std::collections::HashMap;
use std::path::Path;

const DIM: usize = 4;
fn v(id: u64) -> Vec<f32> { vec![id as f32 + 1.0, 0.5, (id % 7) as f32, 2.0] }
fn recover(dir: &Path) -> anyhow::Result<HnswBackend> {
    HnswBackend::recover(DIM, DistanceMetric::Euclidean, dir, 1000, FsyncPolicy::Always, 1_000_000, 100 * 1024 * 1024, MetricsCollector::new())
}
fn ids(b: &HnswBackend) -> Vec<u64> { let mut x: Vec<u64> = (0..60u64).filter(|i| b.fetch_document(*i).is_some()).collect(); x.sort(); x }
fn ls(d: &Path) -> Vec<String> { let mut x: Vec<String> = std::fs::read_dir(d).unwrap().map(|e| e.unwrap().file_name().to_string_lossy().to_string()).collect(); x.sort(); x }

fn main() {
    let data = tempfile::tempdir().unwrap();
    let bdir = tempfile::tempdir().unwrap();
    let rdir = tempfile::tempdir().unwrap();
    let b = HnswBackend::with_persistence(DIM, DistanceMetric::Euclidean, (0..3u64).map(v).collect(), (0..3u64).map(|_| HashMap::new()).collect(),
        1000, data.path(), FsyncPolicy::Always, 1_000_000, 100 * 1024 * 1024).unwrap();
    for id in 10..13u64 { b.insert(id, v(id), HashMap::new()).unwrap(); }
    b.sync_wal().unwrap();
    let mgr = BackupManager::new(bdir.path(), data.path()).unwrap();
    let full = mgr.create_full_backup("full".into()).unwrap();
    println!("FULL: max_wal_file_id={:?} snapshot_file={:?} manifest={:?}", full.max_wal_file_id, full.snapshot_file, Manifest::load(data.path().join("MANIFEST")).unwrap().wal_segments);
    // after the full backup: more writes into the segment the full backup archived
    for id in 20..23u64 { b.insert(id, v(id), HashMap::new()).unwrap(); }
    b.sync_wal().unwrap();
    drop(b);
    std::thread::sleep(std::time::Duration::from_millis(1100));
    // restart: a new active segment; the old one becomes inactive
    let b = recover(data.path()).unwrap();
    b.insert(30, v(30), HashMap::new()).unwrap();
    b.sync_wal().unwrap();
    // snapshot: covers 0..2, 10..12, 20..22, 30; the inactive segment is compacted away
    b.create_snapshot().unwrap();
    let m = Manifest::load(data.path().join("MANIFEST")).unwrap();
    println!("after snapshot: latest_snapshot={:?} wal_segments={:?} dir={:?}", m.latest_snapshot, m.wal_segments, ls(data.path()));
    b.insert(40, v(40), HashMap::new()).unwrap();
    b.sync_wal().unwrap();
    let inc = mgr.create_incremental_backup(full.id, "inc".into()).unwrap();
    println!("INC: max_wal_file_id={:?} snapshot_file={:?}", inc.max_wal_file_id, inc.snapshot_file);
    let expected = ids(&b);
    println!("live collection at incremental time: {:?}", expected);
    drop(b);
    let r = RestoreManager::new(bdir.path(), rdir.path()).unwrap();
    r.restore_from_backup(inc.id).unwrap();
    println!("restored dir: {:?}", ls(rdir.path()));
    let rm = Manifest::load(rdir.path().join("MANIFEST")).unwrap();
    println!("restored MANIFEST: latest_snapshot={:?} (exists: {}) wal_segments={:?}", rm.latest_snapshot,
        rm.latest_snapshot.as_ref().map(|s| rdir.path().join(s).exists()).unwrap_or(false), rm.wal_segments);
    match recover(rdir.path()) {
        Ok(rb) => { let got = ids(&rb); println!("recovered from restored dir: {:?}", got); println!("VERDICT inc_after_compaction {}", if got == expected { "OK" } else { "DEFECT (collection differs)" }); }
        Err(e) => { println!("recovery of the restored directory REFUSED: {e:#}"); println!("VERDICT inc_after_compaction DEFECT (restored chain does not start)"); }
    }
}
