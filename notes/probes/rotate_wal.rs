use vstd::prelude::*;

macro_rules! info { ($($t:tt)*) => {} }
macro_rules! format { ($($t:tt)*) => { crate::FmtString::mk() } }

verus! {

pub mod anyhow {
    use vstd::prelude::*;
    #[derive(Debug)] pub struct Error { pub x: bool }
    pub type Result<T> = core::result::Result<T, Error>;
    #[verifier::external_body]
    pub fn mk_err() -> Error { unimplemented!() }
}
use anyhow::Result;
macro_rules! anyhow_bail { ($($t:tt)*) => { return Err(crate::anyhow::mk_err()) } }

// ---- path / string stubs (values opaque; only identity matters)
#[verifier::external_body]
pub struct FmtString { _p: core::marker::PhantomData<()> }
impl FmtString { #[verifier::external_body] pub fn mk() -> FmtString { unimplemented!() } }

#[verifier::external_body]
pub struct PathBuf { _p: core::marker::PhantomData<()> }
#[verifier::external_body]
pub struct OsName { _p: core::marker::PhantomData<()> }
#[verifier::external_body]
pub struct Lossy { _p: core::marker::PhantomData<()> }
pub uninterp spec fn seg_name_of(p: &PathBuf) -> Seq<char>;
impl PathBuf {
    #[verifier::external_body] pub fn join<T>(&self, s: T) -> PathBuf { unimplemented!() }
    #[verifier::external_body] pub fn to_path_buf(&self) -> (r: PathBuf) ensures seg_name_of(&r) == seg_name_of(self) { unimplemented!() }
    #[verifier::external_body] pub fn file_name(&self) -> (r: Option<OsName>) { unimplemented!() }
    #[verifier::external_body] pub fn exists(&self) -> bool { unimplemented!() }
    #[verifier::external_body] pub fn display(&self) -> u8 { unimplemented!() }
}
impl Default for OsName { #[verifier::external_body] fn default() -> OsName { unimplemented!() } }
impl OsName { #[verifier::external_body] pub fn to_string_lossy(&self) -> Lossy { unimplemented!() } }
impl Lossy { #[verifier::external_body] pub fn to_string(&self) -> String { unimplemented!() } }

pub struct Manifest { pub wal_segments: Vec<String>, pub latest_snapshot_wal_seq: Option<u64> }
// capability: this exact segment list has been durably published
pub uninterp spec fn published_segments(segs: Seq<String>) -> bool;
impl Manifest {
    #[verifier::external_body]
    pub fn load(p: &PathBuf) -> Result<Manifest> { unimplemented!() }
    #[verifier::external_body]
    pub fn save(&self, p: &PathBuf) -> (r: Result<()>)
        ensures r.is_ok() ==> published_segments(self.wal_segments@)
    { unimplemented!() }
}

#[verifier::external_body]
pub struct MutexUnit { _p: core::marker::PhantomData<()> }
impl MutexUnit { #[verifier::external_body] pub fn lock(&self) -> u8 { unimplemented!() } }

#[derive(Clone, Copy)]
pub enum FsyncPolicy { Always, Periodic(u64), Never }
#[verifier::external_body]
pub struct ArcHandler { _p: core::marker::PhantomData<()> }
pub struct Arc;
impl Arc { #[verifier::external_body] pub fn clone(h: &ArcHandler) -> ArcHandler { unimplemented!() } }

#[verifier::external_body]
pub struct WalWriter { _p: core::marker::PhantomData<()> }
impl WalWriter {
    pub uninterp spec fn seg_name(&self) -> Seq<char>;
    pub uninterp spec fn spec_bytes(&self) -> u64;
    #[verifier::external_body] pub fn bytes_written(&self) -> (r: u64) ensures r == self.spec_bytes() { unimplemented!() }
    #[verifier::external_body] pub fn path(&self) -> &PathBuf { unimplemented!() }
    #[verifier::external_body]
    pub fn create_with_error_handler(p: &PathBuf, pol: FsyncPolicy, h: Option<ArcHandler>) -> (r: Result<WalWriter>)
        ensures r.is_ok() ==> r.unwrap().spec_bytes() == 4
    { unimplemented!() }
}
pub struct HnswBackend;
impl HnswBackend { #[verifier::external_body] pub fn file_id() -> u64 { unimplemented!() } }

struct PersistenceState {
    data_dir: PathBuf,
    wal_error_handler: ArcHandler,
    manifest_lock: MutexUnit,
    fsync_policy: FsyncPolicy,
    max_wal_size_bytes: u64,
}

impl PersistenceState {
    fn rotate_wal_if_needed(&self, wal_guard: &mut WalWriter) -> (r: Result<bool>)
        ensures
            r matches Ok(false) ==> *final(wal_guard) == *old(wal_guard),
            r.is_err() ==> *final(wal_guard) == *old(wal_guard),
    {
        if self.max_wal_size_bytes == 0 || wal_guard.bytes_written() < self.max_wal_size_bytes {
            return Ok(false);
        }

        let old_path = wal_guard.path().to_path_buf();

        let new_wal_path = self
            .data_dir
            .join(format!("wal_{}.wal", HnswBackend::file_id()));
        let new_wal_name = new_wal_path
            .file_name()
            .unwrap_or_default()
            .to_string_lossy()
            .to_string();

        // Create the file first, but do not start writing to it until the MANIFEST references it.
        let new_writer = WalWriter::create_with_error_handler(
            &new_wal_path,
            self.fsync_policy,
            Some(Arc::clone(&self.wal_error_handler)),
        )?;

        let _manifest_guard = self.manifest_lock.lock();
        let manifest_path = self.data_dir.join("MANIFEST");
        if !manifest_path.exists() {
            anyhow_bail!(
                "MANIFEST missing at {}; refusing to rotate WAL to avoid data loss",
                manifest_path.display()
            );
        }
        let mut manifest = Manifest::load(&manifest_path)?;
        manifest.wal_segments.push(new_wal_name);
        manifest.save(&manifest_path)?;

        *wal_guard = new_writer;
        info!(
            old = %old_path.display(),
            "rotated WAL segment"
        );
        Ok(true)
    }
}

}
fn main() {}
