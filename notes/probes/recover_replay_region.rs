#![feature(allocator_api)]
use vstd::prelude::*;
use std::collections::HashMap;
use std::hash::Hash;
use std::hash::BuildHasher;
use std::borrow::Borrow;
use std::alloc::Allocator;
use vstd::std_specs::hash::*;

macro_rules! warn { ($($t:tt)*) => {} }
macro_rules! trace { ($($t:tt)*) => {} }

verus! {

pub assume_specification<'a, K, V, S, A, Q>
    [HashMap::<K, V, S, A>::get_mut::<Q>](m: &'a mut HashMap<K, V, S, A>, k: &Q) -> (r: Option<&'a mut V>)
    where
        A: Allocator,
        K: Eq + Hash + Borrow<Q>,
        Q: Hash + Eq + ?Sized,
        S: BuildHasher,
    ensures
        obeys_key_model::<K>() && builds_valid_hashers::<S>() ==> (match r {
            Some(v) => contains_borrowed_key(old(m)@, k) && maps_borrowed_key_to_value(old(m)@, k, *v)
                && final(m)@.dom() == old(m)@.dom()
                && maps_borrowed_key_to_value(final(m)@, k, *final(v))
                && (forall|kk: K| #[trigger] old(m)@.contains_key(kk) && contains_borrowed_key(old(m)@.remove(kk), k) ==> final(m)@[kk] == old(m)@[kk]),
            None => !contains_borrowed_key(old(m)@, k) && final(m)@ == old(m)@,
        });

pub mod anyhow {
    use vstd::prelude::*;
    #[derive(Debug)] pub struct Error { pub x: bool }
    pub type Result<T> = core::result::Result<T, Error>;
    #[verifier::external_body]
    pub fn mk_err() -> Error { unimplemented!() }
}

#[derive(Debug, Clone, Copy, PartialEq, Eq, Structural)]
pub enum WalOp { Insert = 1, Delete = 2, UpdateMetadata = 3 }

pub struct WalEntry {
    pub op: WalOp,
    pub doc_id: u64,
    pub embedding: Vec<f32>,
    pub metadata: HashMap<String, String>,
    pub seq_no: u64,
    pub timestamp: u64,
}

pub type Doc = (Vec<f32>, HashMap<String, String>);

pub open spec fn skip(e: WalEntry, snap_seq: u64, snap_ts: u64) -> bool {
    (snap_seq > 0 && e.seq_no > 0 && e.seq_no <= snap_seq)
    || (e.seq_no == 0 && snap_ts > 0 && e.timestamp > 0 && e.timestamp <= snap_ts)
}

pub open spec fn apply1(m: Map<u64, Doc>, e: WalEntry) -> Map<u64, Doc> {
    match e.op {
        WalOp::Insert => m.insert(e.doc_id, (e.embedding, e.metadata)),
        WalOp::Delete => m.remove(e.doc_id),
        WalOp::UpdateMetadata => if m.contains_key(e.doc_id) { m.insert(e.doc_id, (m[e.doc_id].0, e.metadata)) } else { m },
    }
}

pub open spec fn replay_spec(m: Map<u64, Doc>, es: Seq<WalEntry>, n: int, snap_seq: u64, snap_ts: u64, dim: usize) -> Map<u64, Doc>
    decreases n
{
    if n <= 0 { m } else {
        let p = replay_spec(m, es, n - 1, snap_seq, snap_ts, dim);
        let e = es[n - 1];
        if skip(e, snap_seq, snap_ts) { p } else { apply1(p, e) }
    }
}

#[verifier::exec_allows_no_decreases_clause]
fn replay_region(
    documents: &mut HashMap<u64, (Vec<f32>, HashMap<String, String>)>,
    entries: Vec<WalEntry>,
    max_wal_seq_in: u64,
    snapshot_last_wal_seq: u64,
    snapshot_timestamp: u64,
    dimension: usize,
) -> (r: anyhow::Result<u64>)
    ensures
        r.is_ok() ==> final(documents)@ == replay_spec(old(documents)@, entries@, entries@.len() as int, snapshot_last_wal_seq, snapshot_timestamp, dimension),
        r.is_ok() ==> r.unwrap() >= max_wal_seq_in && forall|i: int| 0 <= i < entries@.len() ==> r.unwrap() >= entries@[i].seq_no,
{
    broadcast use vstd::std_specs::hash::group_hash_axioms;
    let mut max_wal_seq = max_wal_seq_in;
            for entry in it: entries
                invariant
                    it.seq() == entries@,
                    documents@ == replay_spec(old(documents)@, entries@, it.index@ as int, snapshot_last_wal_seq, snapshot_timestamp, dimension),
                    max_wal_seq >= max_wal_seq_in,
                    forall|i: int| 0 <= i < it.index@ ==> max_wal_seq >= entries@[i].seq_no,
            {
              let ghost docs0 = documents@;
              let ghost e0 = entry;
              loop
                invariant_except_break documents@ == docs0, entry == e0, max_wal_seq >= max_wal_seq_in,
                    forall|i: int| 0 <= i < it.index@ ==> max_wal_seq >= entries@[i].seq_no,
                ensures
                    documents@ == (if skip(e0, snapshot_last_wal_seq, snapshot_timestamp) { docs0 } else { apply1(docs0, e0) }),
                    max_wal_seq >= max_wal_seq_in, max_wal_seq >= e0.seq_no,
                    forall|i: int| 0 <= i < it.index@ ==> max_wal_seq >= entries@[i].seq_no,
              {
                if entry.seq_no > max_wal_seq {
                    max_wal_seq = entry.seq_no;
                }

                // Skip entries already captured in snapshot (sequence-based)
                if snapshot_last_wal_seq > 0
                    && entry.seq_no > 0
                    && entry.seq_no <= snapshot_last_wal_seq
                {
                    trace!(
                        doc_id = entry.doc_id,
                        "skipping entry captured by snapshot"
                    );
                    break;
                }
                // Legacy WAL entries (seq_no == 0) are skipped based on snapshot timestamp.
                if entry.seq_no == 0
                    && snapshot_timestamp > 0
                    && entry.timestamp > 0
                    && entry.timestamp <= snapshot_timestamp
                {
                    break;
                }

                match entry.op {
                    WalOp::Insert => {
                        if entry.embedding.len() != dimension {
                            return Err(anyhow::mk_err());
                        }
                        documents.insert(entry.doc_id, (entry.embedding, entry.metadata));
                    }
                    WalOp::Delete => {
                        documents.remove(&entry.doc_id);
                    }
                    WalOp::UpdateMetadata => {
                        if let Some((_, meta)) = documents.get_mut(&entry.doc_id) {
                            *meta = entry.metadata;
                        } else {
                            warn!(
                                doc_id = entry.doc_id,
                                "WAL metadata update for missing document"
                            );
                        }
                    }
                }
                break;
              }
            }
    Ok(max_wal_seq)
}

} // verus!
fn main() {}
