use vstd::prelude::*;
verus! {
#[verifier::external_body]
pub struct CounterGuard { _p: core::marker::PhantomData<()> }
impl CounterGuard { pub uninterp spec fn view(&self) -> usize; }
impl core::ops::Deref for CounterGuard {
    type Target = usize;
    #[verifier::external_body]
    fn deref(&self) -> (r: &usize) ensures *r == self@ { unimplemented!() }
}
impl core::ops::DerefMut for CounterGuard {
    #[verifier::external_body]
    fn deref_mut(&mut self) -> (r: &mut usize) ensures *r == old(self)@, *final(r) == final(self)@ { unimplemented!() }
}
fn bump(mut g: CounterGuard) -> (r: bool)
    requires g@ < 100
{
    *g += 1;
    *g >= 5
}
}
fn main() {}
