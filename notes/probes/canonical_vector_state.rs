use vstd::prelude::*;

macro_rules! warn { ($($t:tt)*) => {} }
macro_rules! debug { ($($t:tt)*) => {} }

verus! {

#[derive(Debug, Clone, Copy, PartialEq, Eq, Hash, Default, Structural)]
pub struct VectorIntegrityDigest {
    pub hi: u64,
    pub lo: u64,
}
#[derive(Debug, Clone, Copy, PartialEq, Eq, Hash, Structural)]
pub struct VectorCoherenceToken {
    pub version: u64,
    pub digest: VectorIntegrityDigest,
}

#[derive(Debug, Clone, Copy, PartialEq, Eq, Structural)]
enum CanonicalVectorState {
    Match,
    TokenMismatch,
    LocalCorruption,
    Missing,
}

pub uninterp spec fn spec_digest(e: Seq<f32>) -> VectorIntegrityDigest;

#[verifier::external_body]
pub fn embedding_matches_token(embedding: &[f32], token: VectorCoherenceToken) -> (r: bool)
    ensures r == (spec_digest(embedding@) == token.digest)
{ unimplemented!() }

#[verifier::external_body]
pub struct HnswBackend { _p: core::marker::PhantomData<()> }
impl HnswBackend {
    pub uninterp spec fn token_of(&self, doc_id: u64) -> Option<VectorCoherenceToken>;
    #[verifier::external_body]
    pub fn current_coherence_token(&self, doc_id: u64) -> (r: Option<VectorCoherenceToken>)
        ensures r == self.token_of(doc_id)
    { unimplemented!() }
}

pub struct TieredEngine { cold_tier: HnswBackend }

impl TieredEngine {
    fn canonical_vector_state(
        &self,
        doc_id: u64,
        mirrored_embedding: &[f32],
        mirrored_coherence: VectorCoherenceToken,
        source: &'static str,
    ) -> (r: CanonicalVectorState)
        ensures
            (r == CanonicalVectorState::Match) <==> (self.cold_tier.token_of(doc_id) == Some(mirrored_coherence)
                && spec_digest(mirrored_embedding@) == mirrored_coherence.digest),
            (r == CanonicalVectorState::Missing) <==> self.cold_tier.token_of(doc_id).is_none(),
    {
        match self.cold_tier.current_coherence_token(doc_id) {
            Some(canonical_coherence) if canonical_coherence != mirrored_coherence => {
                warn!(
                    doc_id,
                    source,
                    mirrored_version = mirrored_coherence.version,
                    "rejecting non-canonical vector coherence token"
                );
                CanonicalVectorState::TokenMismatch
            }
            Some(_) if !embedding_matches_token(mirrored_embedding, mirrored_coherence) => {
                warn!(
                    doc_id,
                    source,
                    "rejecting mirrored vector payload that does not match its coherence token"
                );
                CanonicalVectorState::LocalCorruption
            }
            Some(_) => CanonicalVectorState::Match,
            None => {
                warn!(
                    doc_id,
                    source,
                    "rejecting vector without canonical cold-tier record"
                );
                CanonicalVectorState::Missing
            }
        }
    }
}

} // verus!
fn main() {}
