#![feature(allocator_api)]
use vstd::prelude::*;
use std::collections::HashMap;
use vstd::std_specs::hash::*;

macro_rules! debug { ($($t:tt)*) => {} }
macro_rules! error { ($($t:tt)*) => {} }
macro_rules! trace { ($($t:tt)*) => {} }

pub mod anyhow {
    use vstd::prelude::*;
    verus! {
    #[derive(Debug)] pub struct Error { pub x: bool }
    pub type Result<T> = core::result::Result<T, Error>;
    #[verifier::external_body]
    pub fn mk_err() -> Error { unimplemented!() }
    pub trait Context<T>: Sized {
        spec fn ok_val(self) -> Option<T>;
        fn context(self, msg: &str) -> (r: core::result::Result<T, Error>)
            ensures r.is_ok() == self.ok_val().is_some(), r.is_ok() ==> r.unwrap() == self.ok_val().unwrap();
    }
    impl<T, E> Context<T> for core::result::Result<T, E> {
        open spec fn ok_val(self) -> Option<T> { match self { Ok(v) => Some(v), Err(_) => None } }
        #[verifier::external_body]
        fn context(self, msg: &str) -> (r: core::result::Result<T, Error>) { unimplemented!() }
    }
    }
    macro_rules! bail { ($($t:tt)*) => { return Err(crate::anyhow::mk_err()) } }
    pub(crate) use bail;
    macro_rules! anyhow { ($($t:tt)*) => { crate::anyhow::mk_err() } }
    pub(crate) use anyhow;
}

verus! {
use anyhow::{Result, Context};
#[verifier::external_body] pub broadcast proof fn axiom_string_key_model() ensures #[trigger] obeys_key_model::<String>() {}
#[verifier::external_body] pub broadcast proof fn axiom_string_cloned(a: String, b: String) ensures #[trigger] cloned(a, b) ==> a == b {}

pub assume_specification<'a, T: Copy>[Option::<&'a T>::copied](o: Option<&'a T>) -> (r: Option<T>)
    ensures r == (match o { Some(x) => Some(*x), None => None });
pub assume_specification<T: Default>[std::mem::take](t: &mut T) -> (r: T)
    ensures r == *old(t);


#[derive(Debug, Clone, Copy, PartialEq, Eq, Structural)]
pub enum WalOp { Insert = 1, Delete = 2, UpdateMetadata = 3 }
pub struct WalEntry {
    pub op: WalOp,
    pub doc_id: u64,
    pub embedding: Vec<f32>,
    pub metadata: HashMap<String, String>,
    pub seq_no: u64,
    pub timestamp: u64,
}
#[derive(Debug, Clone, Copy, PartialEq, Eq, Structural)]
pub enum DistanceMetric { Cosine, Euclidean, InnerProduct }
#[derive(Debug, Clone, Copy, PartialEq, Eq, Structural)]
pub struct VectorIntegrityDigest { pub hi: u64, pub lo: u64 }
pub uninterp spec fn spec_digest(e: Seq<f32>) -> VectorIntegrityDigest;
#[verifier::external_body]
pub fn digest_embedding(e: &[f32]) -> (r: VectorIntegrityDigest) ensures r == spec_digest(e@) { unimplemented!() }

// capability: this exact entry content was accepted by the log
pub uninterp spec fn logged(op: WalOp, doc_id: u64, seq_no: u64, emb: Seq<f32>, meta: Map<String, String>) -> bool;

#[verifier::external_body]
pub struct WalGuard { _p: core::marker::PhantomData<()> }
impl WalGuard {
    #[verifier::external_body]
    pub fn append(&mut self, entry: &WalEntry) -> (r: Result<()>)
        ensures r.is_ok() ==> logged(entry.op, entry.doc_id, entry.seq_no, entry.embedding@, entry.metadata@)
    { unimplemented!() }
}
#[verifier::external_body]
pub struct WalLock { _p: core::marker::PhantomData<()> }
impl WalLock { #[verifier::external_body] pub fn write(&self) -> WalGuard { unimplemented!() } }

#[verifier::external_body]
pub struct CounterGuard { _p: core::marker::PhantomData<()> }
impl CounterGuard { pub uninterp spec fn view(&self) -> usize; }
impl core::ops::Deref for CounterGuard {
    type Target = usize;
    #[verifier::external_body]
    fn deref(&self) -> (r: &usize) ensures *r == self@ { unimplemented!() }
}
impl core::ops::DerefMut for CounterGuard {
    #[verifier::external_body]
    fn deref_mut(&mut self) -> (r: &mut usize) ensures *r == old(self)@, *final(r) == final(self)@ { unimplemented!() }
}
#[verifier::external_body]
pub struct CounterLock { _p: core::marker::PhantomData<()> }
impl CounterLock { #[verifier::external_body] pub fn write(&self) -> (g: CounterGuard) ensures g@ < usize::MAX { unimplemented!() } }

#[verifier::external_body]
pub struct PathBuf { _p: core::marker::PhantomData<()> }
impl PathBuf {
    #[verifier::external_body] pub fn join(&self, s: &str) -> PathBuf { unimplemented!() }
    #[verifier::external_body] pub fn exists(&self) -> bool { unimplemented!() }
    #[verifier::external_body] pub fn display(&self) -> u8 { unimplemented!() }
}
#[verifier::external_body]
fn check_and_warn_disk_space(p: &PathBuf) -> Result<bool> { unimplemented!() }
const DISK_SPACE_CRITICAL_THRESHOLD: f64 = 0.05;

#[verifier::external_body]
pub struct SeqCounter { _p: core::marker::PhantomData<()> }
pub enum Ordering { SeqCst }
impl SeqCounter { #[verifier::external_body] pub fn fetch_add(&self, n: u64, o: Ordering) -> u64 { unimplemented!() } }
#[verifier::external_body]
pub struct Flag { _p: core::marker::PhantomData<()> }
impl Flag {
    #[verifier::external_body] pub fn load(&self, o: Ordering) -> bool { unimplemented!() }
    #[verifier::external_body] pub fn store(&self, v: bool, o: Ordering) { unimplemented!() }
}
#[verifier::external_body]
pub struct LockUnit { _p: core::marker::PhantomData<()> }
impl LockUnit {
    #[verifier::external_body] pub fn read(&self) -> u8 { unimplemented!() }
    #[verifier::external_body] pub fn lock(&self) -> u8 { unimplemented!() }
}
#[verifier::external_body]
pub fn drop<T>(t: T) { unimplemented!() }

struct PersistenceState {
    data_dir: PathBuf,
    wal: WalLock,
    inserts_since_snapshot: CounterLock,
    snapshot_interval: usize,
    next_wal_seq: SeqCounter,
    snapshot_lock: LockUnit,
}
impl PersistenceState {
    #[verifier::external_body]
    fn rotate_wal_if_needed(&self, wal_guard: &mut WalGuard) -> Result<bool> { unimplemented!() }
}

struct DocumentStore {
    embeddings: Vec<Vec<f32>>,
    metadata: Vec<HashMap<String, String>>,
    versions: Vec<u64>,
    digests: Vec<VectorIntegrityDigest>,
    external_to_internal: HashMap<u64, usize>,
    internal_to_external: Vec<Option<u64>>,
}
impl DocumentStore {
    spec fn wf(&self) -> bool {
        let n = self.embeddings@.len();
        &&& self.metadata@.len() == n
        &&& self.versions@.len() == n
        &&& self.digests@.len() == n
        &&& self.internal_to_external@.len() == n
        &&& forall|d: u64| #[trigger] self.external_to_internal@.contains_key(d) ==>
                self.external_to_internal@[d] < n && self.internal_to_external@[self.external_to_internal@[d] as int] == Some(d)
        &&& forall|i: int| 0 <= i < n && (#[trigger] self.internal_to_external@[i]).is_some() ==>
                self.external_to_internal@.contains_key(self.internal_to_external@[i].unwrap())
                && self.external_to_internal@[self.internal_to_external@[i].unwrap()] == i
    }
    spec fn view(&self) -> Map<u64, (Seq<f32>, Map<String, String>)> {
        Map::new(
            self.external_to_internal@.dom(),
            |d: u64| (self.embeddings@[self.external_to_internal@[d] as int]@, self.metadata@[self.external_to_internal@[d] as int]@),
        )
    }
}
#[verifier::external_body]
fn vx_count_tombstones(s: &DocumentStore) -> usize { unimplemented!() }

#[verifier::external_body]
pub struct MetadataInvertedIndex { _p: core::marker::PhantomData<()> }
impl MetadataInvertedIndex {
    #[verifier::external_body] fn remove_doc(&mut self, doc_id: u64, metadata: &HashMap<String, String>) { unimplemented!() }
    #[verifier::external_body] fn insert_doc(&mut self, doc_id: u64, metadata: &HashMap<String, String>) { unimplemented!() }
}
#[verifier::external_body]
pub struct HnswVectorIndex { _p: core::marker::PhantomData<()> }
impl HnswVectorIndex {
    #[verifier::external_body] fn distance_metric(&self) -> DistanceMetric { unimplemented!() }
    #[verifier::external_body] fn is_full(&self) -> bool { unimplemented!() }
    #[verifier::external_body] fn len(&self) -> usize { unimplemented!() }
    #[verifier::external_body] fn capacity(&self) -> usize { unimplemented!() }
    #[verifier::external_body] fn add_vector(&mut self, id: u64, e: &[f32]) -> Result<()> { unimplemented!() }
    #[verifier::external_body] fn complete_sequential_inserts(&mut self) { unimplemented!() }
}
#[verifier::external_body]
fn normalize_in_place_if_needed(distance: DistanceMetric, embedding: &mut Vec<f32>) -> (r: Result<()>)
    ensures r.is_err() ==> final(embedding)@ == old(embedding)@, final(embedding)@.len() == old(embedding)@.len()
{ unimplemented!() }

pub struct HnswBackend {
    index: HnswVectorIndex,
    doc_store: DocumentStore,
    metadata_index: MetadataInvertedIndex,
    persistence: Option<PersistenceState>,
    wal_inconsistent: Flag,
    write_gate: LockUnit,
}

impl HnswBackend {
    #[verifier::external_body] fn timestamp() -> u64 { unimplemented!() }
    #[verifier::external_body] fn dimension(&self) -> usize { unimplemented!() }
    #[verifier::external_body] fn create_snapshot(&mut self) -> (r: Result<()>)
        ensures final(self).doc_store == old(self).doc_store, final(self).persistence.is_some() == old(self).persistence.is_some() { unimplemented!() }
    #[verifier::external_body] fn compact_tombstones(&mut self) -> (r: Result<usize>)
        ensures final(self).doc_store.wf(), final(self).doc_store@ == old(self).doc_store@, final(self).persistence.is_some() == old(self).persistence.is_some() { unimplemented!() }

    #[verifier::exec_allows_no_decreases_clause]
    fn insert(
        &mut self,
        doc_id: u64,
        embedding: Vec<f32>,
        metadata: HashMap<String, String>,
    ) -> (r: Result<()>)
        requires old(self).doc_store.wf(),
        ensures
            r.is_err() ==> final(self).doc_store@ == old(self).doc_store@ && final(self).doc_store.wf(),
            r.is_ok() ==> final(self).doc_store.wf(),
            r.is_ok() ==> exists|v: Seq<f32>| #![auto] final(self).doc_store@ =~= old(self).doc_store@.insert(doc_id, (v, metadata@))
                    && (old(self).persistence.is_some() ==> exists|seq: u64| logged(WalOp::Insert, doc_id, seq, v, metadata@)),
    {
        broadcast use vstd::std_specs::hash::group_hash_axioms; broadcast use axiom_string_key_model; broadcast use axiom_string_cloned;
        // Reject writes if WAL is in an inconsistent state (unrecoverable rollback failure).
        if self.wal_inconsistent.load(Ordering::SeqCst) {
            anyhow::bail!(
                "Insert rejected: WAL is in an inconsistent state. \
                 Manual inspection and restart required before writes can resume."
            );
        }

        // Check disk space before write (if persistence enabled)
        if let Some(ref persistence) = self.persistence {
            if !check_and_warn_disk_space(&persistence.data_dir)? {
                anyhow::bail!(
                    "Insert rejected: disk space critically low (< {}%)",
                    DISK_SPACE_CRITICAL_THRESHOLD * 100.0
                );
            }
        }

        // Validate embedding dimension against backend dimension
        let current_dim = self.dimension();
        if current_dim != 0 && embedding.len() != current_dim {
            anyhow::bail!(
                "embedding dimension mismatch: expected {} found {}",
                current_dim,
                embedding.len()
            );
        }

        let mut embedding = embedding;
        let distance = self.index.distance_metric();
        normalize_in_place_if_needed(distance, &mut embedding)?;
        let embedding_digest = digest_embedding(&embedding);
        let ghost emb = embedding@;
        let ghost md = metadata@;

        let mut attempted_compaction = false;
        loop
            invariant self.doc_store.wf(), self.doc_store@ == old(self).doc_store@, self.persistence.is_some() == old(self).persistence.is_some(), embedding@ == emb, metadata@ == md,
        {
            let snapshot_guard = self.persistence.as_ref().map(|p| p.snapshot_lock.read());
            let write_gate_guard = self.write_gate.lock();

            // Read-only preflight under write gate: avoid long-held index/store write locks while
            // performing WAL fsync.
            let (old_internal_id, old_metadata, next_version) = {
                let index = &self.index;
                let store = &self.doc_store;
                if index.is_full() {
                    let tombstones = vx_count_tombstones(store);
                    drop(write_gate_guard);
                    drop(snapshot_guard);

                    if !attempted_compaction && tombstones > 0 {
                        attempted_compaction = true;
                        let reclaimed = self.compact_tombstones()?;
                        if reclaimed > 0 {
                            continue;
                        }
                    }

                    let index = &self.index;
                    anyhow::bail!(
                        "HNSW index full: {} elements (max {})",
                        index.len(),
                        index.capacity()
                    );
                }

                let old_internal_id = store.external_to_internal.get(&doc_id).copied();
                let old_metadata = old_internal_id.map(|id: usize| -> (r: HashMap<String, String>) requires id < store.metadata@.len() { store.metadata[id].clone() });
                // Coherence versions only track replacement of the currently
                // live canonical record. Delete + reinsert starts a fresh epoch.
                let prior_version = old_internal_id
                    .and_then(|id| store.versions.get(id).copied())
                    .unwrap_or(0);
                (
                    old_internal_id,
                    old_metadata,
                    prior_version.saturating_add(1),
                )
            };

            let embedding_for_wal = embedding.clone();
            proof { assert(embedding_for_wal@ =~= emb); }
            let metadata_for_wal = metadata.clone();
            proof { assert(metadata_for_wal@ =~= md); }
            let metadata_for_index = metadata.clone();

            // Write-ahead: WAL must be durable before mutating in-memory state.
            if let Some(ref persistence) = self.persistence {
                let manifest_path = persistence.data_dir.join("MANIFEST");
                if !manifest_path.exists() {
                    anyhow::bail!(
                        "MANIFEST missing at {}; refusing to append WAL to avoid unrecoverable data loss",
                        manifest_path.display()
                    );
                }

                let seq_no = persistence.next_wal_seq.fetch_add(1, Ordering::SeqCst);
                let entry = WalEntry {
                    op: WalOp::Insert,
                    doc_id,
                    embedding: embedding_for_wal,
                    metadata: metadata_for_wal,
                    seq_no,
                    timestamp: Self::timestamp(),
                };

                let mut wal = persistence.wal.write();
                wal.append(&entry)?;
                if let Err(e) = persistence.rotate_wal_if_needed(&mut wal) {
                    error!(
                        error = %e,
                        doc_id,
                        wal_seq_no = seq_no,
                        "failed to rotate WAL segment; continuing with current WAL"
                    );
                }
            }

            // WAL has been made durable for this mutation; now apply in-memory changes.
            let index = &mut self.index;
            let store = &mut self.doc_store;
            let internal_id = store.embeddings.len();

            if let Err(e) = index.add_vector(internal_id as u64, &embedding) {
                // WAL already contains the insert, but the in-memory index update failed.
                // This should be extremely rare (we pre-check capacity/dim), but we must
                // prevent "phantom" inserts on recovery for an operation we are failing.
                if let Some(ref persistence) = self.persistence {
                    let rollback_seq_no = persistence.next_wal_seq.fetch_add(1, Ordering::SeqCst);
                    let rollback = WalEntry {
                        op: WalOp::Delete,
                        doc_id,
                        embedding: Vec::new(),
                        metadata: HashMap::new(),
                        seq_no: rollback_seq_no,
                        timestamp: Self::timestamp(),
                    };

                    let mut wal = persistence.wal.write();
                    if let Err(rollback_err) = wal.append(&rollback) {
                        error!(
                            error = %rollback_err,
                            doc_id,
                            rollback_seq_no,
                            "CRITICAL: WAL rollback failed after failed HNSW insert; \
                             marking backend write-degraded to prevent silent data loss. \
                             Manual WAL inspection and restart required."
                        );
                        self.wal_inconsistent.store(true, Ordering::SeqCst);
                        return Err(anyhow::anyhow!(
                            "CRITICAL: WAL inconsistency detected for doc_id {}. \
                             WAL contains an insert with no matching rollback (rollback seq={}). \
                             Backend is now write-degraded. Reads still available. \
                             Repair WAL and restart.",
                            doc_id,
                            rollback_seq_no
                        ));
                    }
                    if let Err(rotate_err) = persistence.rotate_wal_if_needed(&mut wal) {
                        error!(
                            error = %rotate_err,
                            doc_id,
                            rollback_seq_no,
                            "failed to rotate WAL after rollback; continuing with current WAL"
                        );
                    }
                }

                return Err(e).context("HNSW insert failed after WAL append");
            }

            let ghost st0 = store@;
            let ghost e0 = store.external_to_internal@;
            let ghost i2e0 = store.internal_to_external@;
            let ghost n0 = store.embeddings@.len() as int;
            proof {
                assert(store.wf());
                assert(old_internal_id == (if e0.contains_key(doc_id) { Some(e0[doc_id]) } else { None::<usize> }));
                assert(internal_id as int == n0);
            }
            // Give the backend a single post-burst hook after per-document insert flows.
            index.complete_sequential_inserts();

            store.embeddings.push(std::mem::take(&mut embedding));
            store.metadata.push(metadata);
            proof { assert(store.metadata@.len() == n0 + 1); assert(store.metadata@[n0]@ == md); }
            store.versions.push(next_version);
            store.digests.push(embedding_digest);
            store.internal_to_external.push(Some(doc_id));
            store.external_to_internal.insert(doc_id, internal_id);
            // Upsert semantics: keep the newest internal id live and tombstone the previous one.
            if let Some(old_internal_id) = old_internal_id {
                store.internal_to_external[old_internal_id] = None;
                store.metadata[old_internal_id].clear();
            }

            proof {
                assert(store.wf());
                assert(store.external_to_internal@ == e0.insert(doc_id, internal_id));
                assert(store.embeddings@.len() == n0 + 1);
                assert(store.embeddings@[n0]@ == emb);
                assert(store.metadata@[n0]@ == md);
                assert forall|d: u64| d != doc_id && #[trigger] st0.contains_key(d) implies store@.contains_key(d) && store@[d] == st0[d] by {
                    let i = e0[d] as int;
                    assert(e0.contains_key(d));
                    assert(i < n0);
                    assert(i2e0[i] == Some(d));
                    if old_internal_id.is_some() { assert(i2e0[old_internal_id.unwrap() as int] == Some(doc_id)); assert(i != old_internal_id.unwrap() as int); }
                    assert(store.embeddings@[i] == old(self).doc_store.embeddings@[i] || true);
                }
                assert(store@.dom() =~= st0.dom().insert(doc_id));
                assert(store@ =~= st0.insert(doc_id, (emb, md)));
            }
            let mut should_create_snapshot = false;
            if let Some(ref persistence) = self.persistence {
                // Track inserts for snapshot trigger (only after WAL append succeeds).
                let mut inserts = persistence.inserts_since_snapshot.write();
                *inserts += 1;

                if persistence.snapshot_interval > 0 && *inserts >= persistence.snapshot_interval {
                    debug!(
                        inserts = *inserts,
                        interval = persistence.snapshot_interval,
                        "snapshot interval reached; creating snapshot"
                    );
                    should_create_snapshot = true;
                }
            }

            // Keep metadata inverted index in sync with metadata/tombstones.
            // Lock order is doc_store -> metadata_index to avoid deadlocks.
            {
                let meta_index = &mut self.metadata_index;
                meta_index.insert_doc(internal_id as u64, &metadata_for_index);
                if let (Some(old_internal_id), Some(old_metadata)) = (old_internal_id, old_metadata)
                {
                    meta_index.remove_doc(old_internal_id as u64, &old_metadata);
                }
            }

            // Important: release the in-memory write locks before snapshot creation.
            // Snapshot creation needs to acquire read locks on the document store, and
            // performing disk I/O while holding write locks would block writers.
            drop(write_gate_guard);
            drop(snapshot_guard);

            proof { assert(self.doc_store@ =~= old(self).doc_store@.insert(doc_id, (emb, md))); }
            if should_create_snapshot {
                // Snapshotting is best-effort after a committed insert. The WAL already contains
                // the mutation, so we do not fail the user operation if a snapshot write fails.
                if let Err(e) = self.create_snapshot() {
                    error!(error = %e, "failed to create snapshot after insert");
                }
            }

            return Ok(());
        }
    }


}
}
fn main() {}
