use vstd::prelude::*;
use std::collections::{HashMap, HashSet};
macro_rules! warn { ($($t:tt)*) => {} }
macro_rules! vec { ($e:expr; $n:expr) => { crate::vec_from_elem($e, $n) } }
macro_rules! bail { ($($t:tt)*) => { return Err(crate::anyhow::mk_err()) } }
pub mod io { use vstd::prelude::*; verus! { #[derive(Debug)] pub struct Error { pub k: u8 } } }
pub mod anyhow {
    use vstd::prelude::*;
    verus! {
    #[derive(Debug)] pub struct Error { pub x: bool }
    pub type Result<T> = core::result::Result<T, Error>;
    #[verifier::external_body] pub fn mk_err() -> Error { unimplemented!() }
    impl core::convert::From<super::io::Error> for Error { #[verifier::external_body] fn from(e: super::io::Error) -> (r: Error) { unimplemented!() } }
    impl vstd::std_specs::convert::FromSpecImpl<super::io::Error> for Error {
        open spec fn obeys_from_spec() -> bool { false }
        open spec fn from_spec(v: super::io::Error) -> Self { Error { x: true } }
    }
    pub trait Context<T>: Sized {
        spec fn ok_val(self) -> Option<T>;
        fn context(self, msg: &str) -> (r: core::result::Result<T, Error>)
            ensures r.is_ok() == self.ok_val().is_some(), r.is_ok() ==> r.unwrap() == self.ok_val().unwrap();
    }
    impl<T, E> Context<T> for core::result::Result<T, E> {
        open spec fn ok_val(self) -> Option<T> { match self { Ok(v) => Some(v), Err(_) => None } }
        #[verifier::external_body] fn context(self, msg: &str) -> (r: core::result::Result<T, Error>) { unimplemented!() }
    }
    }
}
pub mod bincode { use vstd::prelude::*; verus! {
    #[derive(Debug)] pub struct Error;
    #[verifier::external_body] pub fn deserialize(b: &[u8]) -> (r: core::result::Result<crate::Snapshot, Error>)
        ensures r.is_ok() ==> crate::de_snap(b@) == Some(r.unwrap()) { unimplemented!() }
} }
pub mod crc32fast { use vstd::prelude::*; verus! { #[verifier::external_body] pub fn hash(b: &[u8]) -> (r: u32) ensures r == crate::crc(b@) { unimplemented!() } } }
verus! {
global size_of usize == 8;
use anyhow::{Result, Context};
pub uninterp spec fn crc(b: Seq<u8>) -> u32;
pub uninterp spec fn le32(b: Seq<u8>) -> u32;
pub uninterp spec fn le64(b: Seq<u8>) -> u64;
pub uninterp spec fn de_snap(b: Seq<u8>) -> Option<Snapshot>;
pub uninterp spec fn de_version(b: Seq<u8>) -> Option<u32>;
#[verifier::external_body] pub fn vec_from_elem(e: u8, n: usize) -> (r: Vec<u8>) ensures r@.len() == n { unimplemented!() }
#[verifier::external_body] pub fn vx_u32_from_le_bytes(b: [u8; 4]) -> (r: u32) ensures r == le32(b@) { unimplemented!() }
#[verifier::external_body] pub fn vx_u64_from_le_bytes(b: [u8; 8]) -> (r: u64) ensures r == le64(b@) { unimplemented!() }
#[verifier::external_body] pub fn vx_bincode_version(b: &Vec<u8>) -> (r: core::result::Result<u32, bincode::Error>) ensures r.is_ok() ==> de_version(b@) == Some(r.unwrap()) { unimplemented!() }
const SNAPSHOT_MAGIC: u32 = 0x534E4150;
const SNAPSHOT_VERSION: u32 = 4;
#[verifier::external_body] pub struct Path { _p: core::marker::PhantomData<()> }
pub uninterp spec fn file_bytes(p: &Path) -> Seq<u8>;
#[verifier::external_body] pub struct File { _p: core::marker::PhantomData<()> }
impl File { pub uninterp spec fn bytes(&self) -> Seq<u8>;
    #[verifier::external_body] pub fn open(p: &Path) -> (r: core::result::Result<File, io::Error>) ensures r.is_ok() ==> r.unwrap().bytes() == file_bytes(p) { unimplemented!() } }
pub struct RdState { pub bytes: Seq<u8>, pub pos: int }
#[verifier::external_body] pub struct BufReader { _p: core::marker::PhantomData<()> }
impl BufReader {
    pub uninterp spec fn view(&self) -> RdState;
    #[verifier::external_body] pub fn new(f: File) -> (r: BufReader) ensures r@.bytes == f.bytes(), r@.pos == 0 { unimplemented!() }
    #[verifier::external_body]
    pub fn read_exact(&mut self, buf: &mut [u8]) -> (r: core::result::Result<(), io::Error>)
        ensures final(self)@.bytes == old(self)@.bytes, final(buf)@.len() == old(buf)@.len(),
            r.is_ok() ==> old(self)@.pos + old(buf)@.len() <= old(self)@.bytes.len()
                && final(self)@.pos == old(self)@.pos + old(buf)@.len()
                && final(buf)@ == old(self)@.bytes.subrange(old(self)@.pos, old(self)@.pos + old(buf)@.len()),
    { unimplemented!() }
}
#[derive(Debug, Clone, Copy, PartialEq, Eq, Structural)] pub enum DistanceMetric { Cosine, Euclidean, InnerProduct }
pub struct Snapshot {
    pub version: u32,
    pub timestamp: u64,
    pub doc_count: usize,
    pub dimension: usize,
    pub documents: Vec<(u64, Vec<f32>)>,
    pub metadata: Vec<(u64, HashMap<String, String>)>,
    pub distance: DistanceMetric,
    pub last_wal_seq: u64,
}
impl Snapshot {
    fn load(path: &Path) -> (r: Result<Self>)
        ensures r.is_ok() ==> ({
            let b = file_bytes(path);
            let size = le64(b.subrange(4, 12)) as int;
            &&& b.len() >= 16 + size
            &&& le32(b.subrange(0, 4)) == SNAPSHOT_MAGIC
            &&& crc(b.subrange(12, 12 + size)) == le32(b.subrange(12 + size, 16 + size))
            &&& de_version(b.subrange(12, 12 + size)) == Some(SNAPSHOT_VERSION)
            &&& de_snap(b.subrange(12, 12 + size)).is_some()
        }),
    {

        let file = File::open(path).context("Failed to open snapshot file")?;
        let mut reader = BufReader::new(file);

        // Validate magic
        let mut magic = [0u8; 4];
        reader.read_exact(&mut magic)?;

        let magic_val = vx_u32_from_le_bytes(magic);
        if magic_val != SNAPSHOT_MAGIC {
            bail!(
                "Invalid snapshot magic: expected {:#x}, got {:#x}",
                SNAPSHOT_MAGIC,
                magic_val
            );
        }

        // Read size
        let mut size_bytes = [0u8; 8];
        reader.read_exact(&mut size_bytes)?;
        let size = vx_u64_from_le_bytes(size_bytes) as usize;

        // Read data
        let mut snapshot_bytes = vec![0u8; size];
        reader.read_exact(&mut snapshot_bytes)?;

        // Read checksum
        let mut checksum_bytes = [0u8; 4];
        reader.read_exact(&mut checksum_bytes)?;

        let stored_checksum = vx_u32_from_le_bytes(checksum_bytes);
        let computed_checksum = crc32fast::hash(&snapshot_bytes);

        if stored_checksum != computed_checksum {
            bail!(
                "Snapshot checksum mismatch: stored={:#x}, computed={:#x}",
                stored_checksum,
                computed_checksum
            );
        }

        // Decode version first so legacy snapshot layouts fail with a clear migration/version
        // error instead of an opaque bincode struct-deserialization error.
        let snapshot_version: u32 = vx_bincode_version(&snapshot_bytes)
            .context("Failed to read snapshot version header")?;
        if snapshot_version != SNAPSHOT_VERSION {
            bail!(
                "Unsupported snapshot version {} (expected {}). Remove stale snapshots and restart.",
                snapshot_version,
                SNAPSHOT_VERSION
            );
        }

        // Deserialize full payload only after version guard.
        let mut snapshot: Snapshot =
            bincode::deserialize(&snapshot_bytes).context("Failed to deserialize snapshot")?;

        snapshot.validate_and_normalize()?;
        Ok(snapshot)
    }

    fn validate_and_normalize(&mut self) -> Result<()> {
        if self.doc_count != self.documents.len() {
            warn!(
                expected = self.doc_count,
                actual = self.documents.len(),
                "Snapshot doc_count mismatch; normalizing to actual document count"
            );
            self.doc_count = self.documents.len();
        }

        if self.dimension != 0 {
            for (doc_id, embedding) in &self.documents {
                if embedding.len() != self.dimension {
                    bail!(
                        "Snapshot embedding dimension mismatch for doc_id {}: expected {}, found {}",
                        doc_id,
                        self.dimension,
                        embedding.len()
                    );
                }
            }
        }

        Self::validate_alignment(&self.documents, &self.metadata)?;

        Ok(())
    }

    fn validate_alignment(
        documents: &[(u64, Vec<f32>)],
        metadata: &[(u64, HashMap<String, String>)],
    ) -> Result<()> {
        if documents.len() != metadata.len() {
            bail!(
                "Snapshot metadata length ({}) does not match documents length ({})",
                metadata.len(),
                documents.len()
            );
        }

        let mut remaining: HashSet<u64> = HashSet::with_capacity(documents.len());
        for (doc_id, _) in documents {
            if !remaining.insert(*doc_id) {
                bail!("Duplicate doc_id {} found in snapshot documents", doc_id);
            }
        }

        for (meta_id, _) in metadata {
            if !remaining.remove(meta_id) {
                bail!(
                    "Metadata entry for doc_id {} missing corresponding document",
                    meta_id
                );
            }
        }

        if !remaining.is_empty() {
            bail!("Missing metadata entries for doc_ids: {:?}", remaining);
        }

        Ok(())
    }

}
}
fn main() {}
