#![feature(allocator_api)]
use vstd::prelude::*;
use std::collections::HashMap;
use vstd::std_specs::hash::*;
macro_rules! format { ($($t:tt)*) => { String::new() } }
verus! {
#[verifier::external_body] pub broadcast proof fn axiom_string_key_model() ensures #[trigger] obeys_key_model::<String>() {}
#[verifier::external_body] pub struct Status { _p: core::marker::PhantomData<()> }
impl Status {
    #[verifier::external_body] pub fn internal(m: &str) -> Status { unimplemented!() }
    #[verifier::external_body] pub fn resource_exhausted(m: String) -> Status { unimplemented!() }
}
pub struct TenantContext { pub tenant_id: String, pub tenant_index: u32, pub max_qps: u32, pub max_vectors: usize }
#[verifier::external_body] pub struct TieredEngine { _p: core::marker::PhantomData<()> }
impl TieredEngine {
    pub uninterp spec fn has(&self, d: u64) -> bool;
    #[verifier::external_body] pub fn exists(&self, d: u64) -> (r: bool) ensures r == self.has(d) { unimplemented!() }
}
// mode-B lock stub: guard derefs to the map; a fresh guard holds an arbitrary map (rely/guarantee)
#[verifier::external_body] pub struct CountsGuard { _p: core::marker::PhantomData<()> }
impl CountsGuard { pub uninterp spec fn view(&self) -> Map<String, usize>; }
impl CountsGuard {
    // Entry API replaced by a stub with the same effect: key present afterwards (inserted as 0 if absent), &mut to its slot
    #[verifier::external_body]
    pub fn entry_or_insert0(&mut self, k: String) -> (r: &mut usize)
        ensures *r == (if old(self)@.contains_key(k) { old(self)@[k] } else { 0usize }),
            final(self)@ == old(self)@.insert(k, *final(r)),
    { unimplemented!() }
    #[verifier::external_body]
    pub fn get_mut(&mut self, k: &String) -> (r: Option<&mut usize>)
        ensures match r { Some(v) => old(self)@.contains_key(*k) && *v == old(self)@[*k] && final(self)@ == old(self)@.insert(*k, *final(v)),
                          None => !old(self)@.contains_key(*k) && final(self)@ == old(self)@ },
    { unimplemented!() }
}
#[verifier::external_body] pub struct CountsLock { _p: core::marker::PhantomData<()> }
impl CountsLock { #[verifier::external_body] pub fn write(&self) -> CountsGuard { unimplemented!() } }
pub struct ServerState { pub tenant_vector_counts: Option<CountsLock> }
pub struct KyroDBServiceImpl { pub state: ServerState }
impl KyroDBServiceImpl {
    fn enforce_vector_quota(
        &self,
        tenant: Option<&TenantContext>,
        engine: &TieredEngine,
        global_doc_id: u64,
    ) -> Result<bool, Status> {
        let Some(tenant) = tenant else {
            return Ok(false);
        };

        let already_exists = engine.exists(global_doc_id);
        if already_exists {
            return Ok(true);
        }

        let counts = self
            .state
            .tenant_vector_counts
            .as_ref()
            .ok_or_else(|| Status::internal("tenant vector quota state not initialized"))?;
        let mut guard = counts.write();
        let entry = guard.entry_or_insert0(tenant.tenant_id.clone());
        if *entry >= tenant.max_vectors {
            return Err(Status::resource_exhausted(format!(
                "max_vectors quota exceeded: tenant={} limit={}",
                tenant.tenant_id, tenant.max_vectors
            )));
        }
        *entry = entry.saturating_add(1);

        Ok(false)
    }

    /// Reserve vector quota slots atomically before a bulk insert.
    fn reserve_tenant_vectors(
        &self,
        tenant: Option<&TenantContext>,
        count: usize,
    ) -> Result<(), Status> {
        if count == 0 {
            return Ok(());
        }
        let Some(tenant) = tenant else {
            return Ok(());
        };

        let counts = self
            .state
            .tenant_vector_counts
            .as_ref()
            .ok_or_else(|| Status::internal("tenant vector quota state not initialized"))?;
        let mut guard = counts.write();
        let entry = guard.entry_or_insert0(tenant.tenant_id.clone());
        if entry.saturating_add(count) > tenant.max_vectors {
            return Err(Status::resource_exhausted(format!(
                "max_vectors quota exceeded: tenant={} limit={}",
                tenant.tenant_id, tenant.max_vectors
            )));
        }
        *entry = entry.saturating_add(count);
        Ok(())
    }

    /// Release reserved quota slots that were not consumed by a bulk insert.
    fn release_reserved_tenant_vectors(&self, tenant: Option<&TenantContext>, count: usize) {
        if count == 0 {
            return;
        }
        let Some(tenant) = tenant else {
            return;
        };
        if let Some(counts) = &self.state.tenant_vector_counts {
            let mut guard = counts.write();
            if let Some(entry) = guard.get_mut(&tenant.tenant_id) {
                *entry = entry.saturating_sub(count);
            }
        }
    }

    fn decrement_tenant_vectors(&self, tenant: Option<&TenantContext>, count: usize) {
        if count == 0 {
            return;
        }
        let Some(tenant) = tenant else {
            return;
        };
        if let Some(counts) = &self.state.tenant_vector_counts {
            let mut guard = counts.write();
            if let Some(entry) = guard.get_mut(&tenant.tenant_id) {
                *entry = entry.saturating_sub(count);
            }
        }
    }


}
}
fn main() {}
