use vstd::prelude::*;
use std::collections::HashMap;
macro_rules! info { ($($t:tt)*) => {} }
macro_rules! warn { ($($t:tt)*) => {} }
macro_rules! format { ($($t:tt)*) => { () } }
pub mod anyhow {
    use vstd::prelude::*;
    verus! {
    #[derive(Debug)] pub struct Error { pub x: bool }
    pub type Result<T> = core::result::Result<T, Error>;
    #[verifier::external_body] pub fn mk_err() -> Error { unimplemented!() }
    pub trait Context<T>: Sized {
        spec fn ok_val(self) -> Option<T>;
        fn with_context<C, F: FnOnce() -> C>(self, f: F) -> (r: core::result::Result<T, Error>)
            ensures r.is_ok() == self.ok_val().is_some(), r.is_ok() ==> r.unwrap() == self.ok_val().unwrap();
    }
    impl<T, E> Context<T> for core::result::Result<T, E> {
        open spec fn ok_val(self) -> Option<T> { match self { Ok(v) => Some(v), Err(_) => None } }
        #[verifier::external_body] fn with_context<C, F: FnOnce() -> C>(self, f: F) -> (r: core::result::Result<T, Error>) { unimplemented!() }
    }
    }
    macro_rules! bail { ($($t:tt)*) => { return Err(crate::anyhow::mk_err()) } }
    pub(crate) use bail;
}
verus! {
use anyhow::{Result, Context};
#[derive(Debug, Clone, Copy, PartialEq, Eq, Structural)] pub enum RecoveryMode { Strict, BestEffort }
pub struct WalEntry { pub seq_no: u64 }
pub struct Manifest { pub wal_segments: Vec<String> }
// capabilities
pub uninterp spec fn seg_present(name: String) -> bool;       // the file existed when recovery looked
pub uninterp spec fn seg_read_strict(name: String) -> bool;   // read_all_strict returned Ok for it
#[verifier::external_body] pub struct Path { _p: core::marker::PhantomData<()> }
#[verifier::external_body] pub struct PathBuf { _p: core::marker::PhantomData<()> }
impl Path { #[verifier::external_body] pub fn join(&self, s: &String) -> (r: PathBuf) ensures r.name() == *s { unimplemented!() } }
impl PathBuf { pub uninterp spec fn name(&self) -> String;
    #[verifier::external_body] pub fn exists(&self) -> (r: bool) ensures r ==> seg_present(self.name()) { unimplemented!() } }
#[verifier::external_body] pub struct WalReader { _p: core::marker::PhantomData<()> }
impl WalReader {
    pub uninterp spec fn seg(&self) -> String;
    #[verifier::external_body] pub fn open(p: &PathBuf) -> (r: Result<WalReader>) ensures r.is_ok() ==> r.unwrap().seg() == p.name() { unimplemented!() }
    #[verifier::external_body] pub fn read_all(&mut self) -> (r: Result<Vec<WalEntry>>) ensures final(self).seg() == old(self).seg() { unimplemented!() }
    #[verifier::external_body] pub fn read_all_strict(&mut self) -> (r: Result<Vec<WalEntry>>) ensures final(self).seg() == old(self).seg(), r.is_ok() ==> seg_read_strict(old(self).seg()) { unimplemented!() }
    #[verifier::external_body] pub fn valid_entries(&self) -> usize { unimplemented!() }
    #[verifier::external_body] pub fn corrupted_entries(&self) -> usize { unimplemented!() }
}
#[verifier::external_body]
fn replay_region(documents: &mut HashMap<u64, u64>, entries: Vec<WalEntry>, max_wal_seq: &mut u64, s: u64, t: u64, dim: usize) -> Result<()> { unimplemented!() }

#[verifier::exec_allows_no_decreases_clause]
fn segments_region(manifest: &Manifest, data_dir: &Path, recovery_mode: RecoveryMode, mut documents: HashMap<u64, u64>, mut max_wal_seq: u64,
    snapshot_last_wal_seq: u64, snapshot_timestamp: u64, dimension: usize) -> (r: Result<()>)
    ensures r.is_ok() && recovery_mode == RecoveryMode::Strict ==>
        forall|i: int| 0 <= i < manifest.wal_segments@.len() ==> seg_present(#[trigger] manifest.wal_segments@[i]) && seg_read_strict(manifest.wal_segments@[i]),
{
        for wal_name in it: &manifest.wal_segments
            invariant it.seq().len() == manifest.wal_segments@.len(), forall|k: int| 0 <= k < it.seq().len() ==> *(#[trigger] it.seq()[k]) == manifest.wal_segments@[k],
                recovery_mode == RecoveryMode::Strict ==> forall|i: int| 0 <= i < it.index@ ==> seg_present(#[trigger] manifest.wal_segments@[i]) && seg_read_strict(manifest.wal_segments@[i]),
        {
            loop
                invariant_except_break true,
                ensures recovery_mode == RecoveryMode::Strict ==> seg_present(*wal_name) && seg_read_strict(*wal_name),
            {
            let wal_path = data_dir.join(wal_name);
            if !wal_path.exists() {
                match recovery_mode {
                    RecoveryMode::Strict => {
                        anyhow::bail!(
                            "strict recovery mode: required WAL segment missing: {}",
                            wal_name
                        );
                    }
                    RecoveryMode::BestEffort => {
                        warn!(
                            wal_segment = wal_name,
                            "best_effort recovery: WAL segment missing; skipping"
                        );
                        break;
                    }
                }
            }
            info!(wal_segment = wal_name, "replaying WAL");
            let mut reader = WalReader::open(&wal_path)?;
            let entries = match recovery_mode {
                RecoveryMode::Strict => reader.read_all_strict().with_context(|| {
                    format!(
                        "strict recovery mode: WAL segment {} contains corrupted frames",
                        wal_name
                    )
                })?,
                RecoveryMode::BestEffort => reader.read_all()?,
            };

            replay_region(&mut documents, entries, &mut max_wal_seq, snapshot_last_wal_seq, snapshot_timestamp, dimension)?;

            info!(
                valid = reader.valid_entries(),
                corrupted = reader.corrupted_entries(),
                wal_segment = wal_name,
                "wal replay complete"
            );
        
            break;
            }
        }
    Ok(())
}
}
fn main() {}
