use vstd::prelude::*;
use std::collections::HashMap;
use vstd::std_specs::hash::*;
verus! {

#[verifier::external_body]
pub struct LruIndexU64 { _p: core::marker::PhantomData<()> }
impl LruIndexU64 {
    pub uninterp spec fn keys(&self) -> Set<u64>;
    #[verifier::external_body] pub fn touch(&mut self, k: u64) -> (r: bool) ensures final(self).keys() == old(self).keys(), r == old(self).keys().contains(k) { unimplemented!() }
    #[verifier::external_body] pub fn pop_lru(&mut self) -> (r: Option<u64>)
        ensures
            old(self).keys().len() > 0 ==> r.is_some(),
            r.is_some() ==> old(self).keys().contains(r.unwrap()) && final(self).keys() == old(self).keys().remove(r.unwrap()),
            r.is_none() ==> final(self).keys() == old(self).keys() && old(self).keys() == Set::<u64>::empty(),
    { unimplemented!() }
    #[verifier::external_body] pub fn insert_new(&mut self, k: u64) ensures final(self).keys() == old(self).keys().insert(k) { unimplemented!() }
}

pub struct CachedVector { pub doc_id: u64, pub embedding: Vec<f32> }

struct CacheState {
    cache: HashMap<u64, CachedVector>,
    lru: LruIndexU64,
}
struct CacheStats { hits: u64, misses: u64, evictions: u64 }

pub struct VectorCache {
    state: CacheState,
    capacity: usize,
    stats: CacheStats,
}

impl VectorCache {
    spec fn wf(&self) -> bool {
        self.state.cache@.dom() == self.state.lru.keys()
    }
    fn insert(&mut self, cached_vector: CachedVector) -> (r: Option<u64>)
        requires old(self).wf(), old(self).capacity >= 1, old(self).state.cache@.len() <= old(self).capacity,
            old(self).stats.evictions < u64::MAX,
        ensures final(self).wf(), final(self).state.cache@.len() <= final(self).capacity, final(self).capacity == old(self).capacity,
            final(self).state.cache@.contains_key(cached_vector.doc_id),
    {
        broadcast use vstd::std_specs::hash::group_hash_axioms;
        let doc_id = cached_vector.doc_id;
        let state = &mut self.state;

        // Update existing entry and promote to MRU.
        if let std::collections::hash_map::Entry::Occupied(mut entry) = state.cache.entry(doc_id) {
            entry.insert(cached_vector);
            let _ = state.lru.touch(doc_id);
            proof { assert(state.cache@.dom() =~= old(self).state.cache@.dom()); }
            return None;
        }

        // Evict if at capacity
        let evicted_doc_id = if state.cache.len() >= self.capacity {
            if let Some(evict_id) = state.lru.pop_lru() {
                state.cache.remove(&evict_id);
                self.stats.evictions += 1;
                Some(evict_id)
            } else {
                None
            }
        } else {
            None
        };

        let ghost m1 = state.cache@;
        // Insert new entry
        state.cache.insert(doc_id, cached_vector);
        state.lru.insert_new(doc_id);
        proof {
            assert(!old(self).state.cache@.contains_key(doc_id));
            assert(m1.dom().len() < self.capacity || m1.dom().len() + 1 <= self.capacity) by {
                if old(self).state.cache@.len() >= self.capacity {
                    assert(old(self).state.cache@.dom().len() > 0);
                    assert(evicted_doc_id.is_some());
                    assert(m1.dom() =~= old(self).state.cache@.dom().remove(evicted_doc_id.unwrap()));
                } else {
                    assert(m1 == old(self).state.cache@);
                }
            }
            assert(!m1.contains_key(doc_id));
            assert(state.cache@.dom() =~= m1.dom().insert(doc_id));
            assert(state.cache@.dom() =~= state.lru.keys());
            assert(state.cache@.dom().len() <= self.capacity);
        }

        evicted_doc_id
    }
}
}
fn main() {}
