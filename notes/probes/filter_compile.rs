use vstd::prelude::*;
verus! {

#[verifier::external_body]
pub struct RoaringTreemap { _p: core::marker::PhantomData<()> }

impl RoaringTreemap {
    pub uninterp spec fn view(&self) -> Set<u64>;
    #[verifier::external_body]
    pub fn new() -> (r: Self) ensures r@ == Set::<u64>::empty() { unimplemented!() }
}
impl Clone for RoaringTreemap {
    #[verifier::external_body]
    fn clone(&self) -> (r: Self) ensures r@ == self@ { unimplemented!() }
}
impl core::ops::BitOrAssign<RoaringTreemap> for RoaringTreemap {
    #[verifier::external_body]
    fn bitor_assign(&mut self, rhs: RoaringTreemap) ensures final(self)@ == old(self)@.union(rhs@) { unimplemented!() }
}
impl vstd::std_specs::ops::BitOrAssignSpecImpl<RoaringTreemap> for RoaringTreemap {
    open spec fn obeys_bitor_assign_spec() -> bool { false }
    open spec fn bitor_assign_req(&self, rhs: RoaringTreemap) -> bool { true }
    open spec fn bitor_assign_spec(&self, rhs: RoaringTreemap) -> &Self { self }
}
impl core::ops::BitAndAssign<RoaringTreemap> for RoaringTreemap {
    #[verifier::external_body]
    fn bitand_assign(&mut self, rhs: RoaringTreemap) ensures final(self)@ == old(self)@.intersect(rhs@) { unimplemented!() }
}
impl vstd::std_specs::ops::BitAndAssignSpecImpl<RoaringTreemap> for RoaringTreemap {
    open spec fn obeys_bitand_assign_spec() -> bool { false }
    open spec fn bitand_assign_req(&self, rhs: RoaringTreemap) -> bool { true }
    open spec fn bitand_assign_spec(&self, rhs: RoaringTreemap) -> &Self { self }
}
impl<'a> core::ops::SubAssign<&'a RoaringTreemap> for RoaringTreemap {
    #[verifier::external_body]
    fn sub_assign(&mut self, rhs: &'a RoaringTreemap) ensures final(self)@ == old(self)@.difference(rhs@) { unimplemented!() }
}
impl<'a> vstd::std_specs::ops::SubAssignSpecImpl<&'a RoaringTreemap> for RoaringTreemap {
    open spec fn obeys_sub_assign_spec() -> bool { false }
    open spec fn sub_assign_req(&self, rhs: &'a RoaringTreemap) -> bool { true }
    open spec fn sub_assign_spec(&self, rhs: &'a RoaringTreemap) -> &Self { self }
}


pub mod proto {
    pub struct ExactMatch { pub key: String, pub value: String }
    pub struct InMatch { pub key: String, pub values: Vec<String> }
    pub struct AndFilter { pub filters: Vec<MetadataFilter> }
    pub struct OrFilter { pub filters: Vec<MetadataFilter> }
    pub struct NotFilter { pub filter: Option<Box<MetadataFilter>> }
    pub struct RangeMatch { pub key: String, pub bound: Option<range_match::Bound> }
    pub mod range_match { pub enum Bound { Gte(String), Lte(String), Gt(String), Lt(String) } }
    pub mod metadata_filter {
        pub enum FilterType {
            Exact(super::ExactMatch),
            Range(super::RangeMatch),
            InMatch(super::InMatch),
            AndFilter(super::AndFilter),
            OrFilter(super::OrFilter),
            NotFilter(Box<super::NotFilter>),
        }
    }
    pub struct MetadataFilter { pub filter_type: Option<metadata_filter::FilterType> }
}
use crate::proto::MetadataFilter;
use crate::proto::metadata_filter::FilterType as FT;
use crate::proto::range_match::Bound as RB;

pub type Meta = Map<Seq<char>, Seq<char>>;
pub uninterp spec fn spec_parse_f64(s: Seq<char>) -> Option<f64>;
pub uninterp spec fn str_le(a: Seq<char>, b: Seq<char>) -> bool;   // lexicographic <=, as String's Ord
pub uninterp spec fn f_le(a: f64, b: f64) -> bool;                 // IEEE <=  (false with NaN)
pub uninterp spec fn f_lt(a: f64, b: f64) -> bool;
pub open spec fn bound_str(b: RB) -> Seq<char> { match b { RB::Gte(v) => v@, RB::Lte(v) => v@, RB::Gt(v) => v@, RB::Lt(v) => v@ } }
pub open spec fn num_cmp(b: RB, val: f64, bn: f64) -> bool { match b { RB::Gte(_) => f_le(bn, val), RB::Lte(_) => f_le(val, bn), RB::Gt(_) => f_lt(bn, val), RB::Lt(_) => f_lt(val, bn) } }
pub open spec fn lex_cmp(b: RB, val: Seq<char>, bs: Seq<char>) -> bool { match b { RB::Gte(_) => str_le(bs, val), RB::Lte(_) => str_le(val, bs), RB::Gt(_) => !str_le(val, bs), RB::Lt(_) => !str_le(bs, val) } }
// reference semantics of one range predicate on one metadata map (from the property statement / metadata_filter::matches_range)
pub open spec fn range_spec(key: Seq<char>, bound: Option<RB>, m: Meta) -> bool {
    m.contains_key(key) && match bound {
        None => true,
        Some(b) => {
            let v = m[key];
            if spec_parse_f64(v).is_some() && spec_parse_f64(bound_str(b)).is_some() { num_cmp(b, spec_parse_f64(v).unwrap(), spec_parse_f64(bound_str(b)).unwrap()) }
            else { lex_cmp(b, v, bound_str(b)) }
        }
    }
}


pub open spec fn matches_spec(f: &MetadataFilter, m: Meta) -> bool
    decreases f
{
    match f.filter_type {
        None => true,
        Some(FT::Exact(e)) => m.contains_key(e.key@) && m[e.key@] == e.value@,
        Some(FT::InMatch(i)) => m.contains_key(i.key@) && exists|k: int| 0 <= k < i.values@.len() && m[i.key@] == (#[trigger] i.values@[k])@,
        Some(FT::Range(r)) => range_spec(r.key@, r.bound, m),
        Some(FT::AndFilter(a)) => forall|k: int| 0 <= k < a.filters@.len() ==> matches_spec(&(#[trigger] a.filters@[k]), m),
        Some(FT::OrFilter(o)) => exists|k: int| 0 <= k < o.filters@.len() && matches_spec(&(#[trigger] o.filters@[k]), m),
        Some(FT::NotFilter(n)) => match n.filter { Some(sub) => !matches_spec(&*sub, m), None => false },
    }
}
pub struct MetadataInvertedIndex { pub alive: RoaringTreemap, pub numeric_docs_by_key: NumDocs }
#[verifier::external_body] pub struct NumDocs { _p: core::marker::PhantomData<()> }
impl MetadataInvertedIndex {
    pub open spec fn coherent(&self) -> bool {
        (forall|d: u64| #![trigger self.alive@.contains(d)] idx_alive(&self.numeric_docs_by_key, d) == self.alive@.contains(d))
        && (forall|d: u64| #![trigger self.meta(d)] idx_meta(&self.numeric_docs_by_key, d) == self.meta(d))
    }
    // ghost content of the index: metadata of every alive internal id
    pub uninterp spec fn meta(&self, d: u64) -> Meta;
    #[verifier::external_body]
    fn bitmap_for_exact(&self, key: &str, value: &str) -> (r: RoaringTreemap)
        ensures forall|d: u64| self.alive@.contains(d) ==> (r@.contains(d) <==> (self.meta(d).contains_key(key@) && self.meta(d)[key@] == value@)) { unimplemented!() }
    #[verifier::external_body]
    fn bitmap_for_key_presence(&self, key: &str) -> (r: RoaringTreemap)
        ensures forall|d: u64| self.alive@.contains(d) ==> (r@.contains(d) <==> self.meta(d).contains_key(key@)) { unimplemented!() }
    #[verifier::external_body]
    fn bitmap_for_range_lex(&self, key: &str, bound: &RB) -> (r: RoaringTreemap)
        ensures forall|d: u64| self.alive@.contains(d) ==> (r@.contains(d) <==> (self.meta(d).contains_key(key@) && lex_cmp(*bound, self.meta(d)[key@], bound_str(*bound)))) { unimplemented!() }
    #[verifier::external_body]
    fn bitmap_for_range_numeric(&self, key: &str, bound: &RB, bound_num: f64) -> (r: RoaringTreemap)
        ensures forall|d: u64| self.alive@.contains(d) ==> (r@.contains(d) <==> (self.meta(d).contains_key(key@)
            && spec_parse_f64(self.meta(d)[key@]).is_some() && num_cmp(*bound, spec_parse_f64(self.meta(d)[key@]).unwrap(), bound_num))) { unimplemented!() }
}
pub uninterp spec fn idx_alive(n: &NumDocs, d: u64) -> bool;
pub uninterp spec fn idx_meta(n: &NumDocs, d: u64) -> Meta;
impl NumDocs {
    #[verifier::external_body]
    fn get(&self, key: &String) -> (r: Option<&RoaringTreemap>)
        ensures
            r.is_some() ==> forall|d: u64| idx_alive(self, d) ==> (r.unwrap()@.contains(d) <==> (idx_meta(self, d).contains_key(key@) && spec_parse_f64(idx_meta(self, d)[key@]).is_some())),
            r.is_none() ==> forall|d: u64| idx_alive(self, d) ==> !(idx_meta(self, d).contains_key(key@) && spec_parse_f64(idx_meta(self, d)[key@]).is_some()),
    { unimplemented!() }
}
#[verifier::external_body]
fn parse_indexable_numeric(value: &str) -> (r: Option<f64>) ensures r == spec_parse_f64(value@) { unimplemented!() }
fn range_bound_value(bound: &crate::proto::range_match::Bound) -> (r: &str)
    ensures r@ == bound_str(*bound),
{
    match bound {
        crate::proto::range_match::Bound::Gte(v)
        | crate::proto::range_match::Bound::Lte(v)
        | crate::proto::range_match::Bound::Gt(v)
        | crate::proto::range_match::Bound::Lt(v) => v.as_str(),
    }
}

fn compile_range_filter_to_bitmap(
    range: &crate::proto::RangeMatch,
    index: &MetadataInvertedIndex,
) -> (r: Option<RoaringTreemap>)
    requires index.coherent(),
    ensures r.is_some(),
        forall|d: u64| index.alive@.contains(d) ==> (r.unwrap()@.contains(d) <==> range_spec(range.key@, range.bound, index.meta(d))),
{
    let Some(bound) = range.bound.as_ref() else {
        return Some(index.bitmap_for_key_presence(&range.key));
    };

    // String-ordered evaluation branch (also covers non-numeric values when bound is numeric).
    let mut out = index.bitmap_for_range_lex(&range.key, bound);

    // Numeric branch for parseable numeric bound; excludes numerically indexed docs from
    // the lexicographic branch to preserve `metadata_filter::matches_range` semantics.
    if let Some(bound_num) = parse_indexable_numeric(range_bound_value(bound)) {
        if let Some(numeric_docs) = index.numeric_docs_by_key.get(&range.key) {
            out -= numeric_docs;
        }
        out |= index.bitmap_for_range_numeric(&range.key, bound, bound_num);
    }

    Some(out)
}


#[verifier::exec_allows_no_decreases_clause]
#[verifier::exec_allows_no_decreases_clause]
fn __dummy() {}
pub open spec fn sound(S: Set<u64>, f: &MetadataFilter, index: &MetadataInvertedIndex) -> bool {
    forall|d: u64| #![trigger S.contains(d)] index.alive@.contains(d) ==> (S.contains(d) <==> matches_spec(f, index.meta(d)))
}
#[verifier::exec_allows_no_decreases_clause]
fn compile_filter_to_bitmap(
    filter: &MetadataFilter,
    index: &MetadataInvertedIndex,
) -> (r: Option<RoaringTreemap>)
    requires index.coherent(),
    ensures r.is_some() ==> sound(r.unwrap()@, filter, index),
{
    use crate::proto::metadata_filter::FilterType;

    match &filter.filter_type {
        None => Some(index.alive.clone()),
        Some(FilterType::Exact(exact)) => Some(index.bitmap_for_exact(&exact.key, &exact.value)),
        Some(FilterType::InMatch(in_match)) => {
            let mut out = RoaringTreemap::new();
            for v in it: &in_match.values
                invariant it.seq().len() == in_match.values@.len(), forall|k: int| 0 <= k < it.seq().len() ==> *(#[trigger] it.seq()[k]) == in_match.values@[k],
                    forall|d: u64| #![trigger out@.contains(d)] index.alive@.contains(d) ==> (out@.contains(d) <==>
                        (index.meta(d).contains_key(in_match.key@) && exists|k: int| 0 <= k < it.index@ && index.meta(d)[in_match.key@] == (#[trigger] in_match.values@[k])@)),
            {
                out |= index.bitmap_for_exact(&in_match.key, v);
            }
            Some(out)
        }
        Some(FilterType::AndFilter(and_filter)) => {
            if and_filter.filters.is_empty() {
                return Some(index.alive.clone());
            }
            let mut it = and_filter.filters.iter();
            let first = it.next()?;
            let mut acc = compile_filter_to_bitmap(first, index)?;
            for sub in it2: it
                invariant index.coherent(), it2.seq().len() == and_filter.filters@.len() - 1,
                    forall|k: int| 0 <= k < it2.seq().len() ==> *(#[trigger] it2.seq()[k]) == and_filter.filters@[k + 1],
                    forall|d: u64| #![trigger acc@.contains(d)] index.alive@.contains(d) ==> (acc@.contains(d) <==>
                        forall|k: int| 0 <= k < 1 + it2.index@ ==> matches_spec(&(#[trigger] and_filter.filters@[k]), index.meta(d))),
            {
                let b = compile_filter_to_bitmap(sub, index)?;
                acc &= b;
            }
            Some(acc)
        }
        Some(FilterType::OrFilter(or_filter)) => {
            if or_filter.filters.is_empty() {
                return Some(RoaringTreemap::new());
            }
            let mut acc = RoaringTreemap::new();
            for sub in it: &or_filter.filters
                invariant index.coherent(), it.seq().len() == or_filter.filters@.len(), forall|k: int| 0 <= k < it.seq().len() ==> *(#[trigger] it.seq()[k]) == or_filter.filters@[k],
                    forall|d: u64| #![trigger acc@.contains(d)] index.alive@.contains(d) ==> (acc@.contains(d) <==>
                        exists|k: int| 0 <= k < it.index@ && matches_spec(&(#[trigger] or_filter.filters@[k]), index.meta(d))),
            {
                let b = compile_filter_to_bitmap(sub, index)?;
                acc |= b;
            }
            Some(acc)
        }
        Some(FilterType::NotFilter(not_filter)) => {
            let sub = not_filter.filter.as_ref()?;
            let sub_b = compile_filter_to_bitmap(sub, index)?;
            let mut out = index.alive.clone();
            out -= &sub_b;
            Some(out)
        }
        Some(FilterType::Range(range)) => compile_range_filter_to_bitmap(range, index),
    }
}


}
fn main() {}
