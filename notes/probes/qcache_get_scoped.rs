use vstd::prelude::*;
use std::collections::HashMap;
use vstd::std_specs::hash::*;
verus! {
pub assume_specification<T: Clone>[<[T]>::to_vec](s: &[T]) -> (r: Vec<T>)
    ensures r@.len() == s@.len();
#[verifier::external_body]
pub fn vx_try_write<T>(t: &mut T) -> (r: Option<&mut T>)
    ensures match r { Some(x) => *x == *old(t) && *final(x) == *final(t), None => *final(t) == *old(t) }
{ unimplemented!() }
#[derive(Debug, Clone, PartialEq)]
pub struct SearchResult { pub doc_id: u64, pub distance: f32 }
#[verifier::external_body] pub struct Instant { _p: core::marker::PhantomData<()> }
pub struct CachedQueryResult { pub results: Vec<SearchResult>, pub requested_k: usize, pub query_hash: u64, pub scope: u64, pub cached_at: Instant }
#[derive(Clone, Copy, Debug, Hash, PartialEq, Eq, Structural)]
struct QueryCacheKey { scope: u64, query_hash: u64 }
#[verifier::external_body] pub struct Lru { _p: core::marker::PhantomData<()> }
impl Lru { #[verifier::external_body] fn touch(&mut self, k: QueryCacheKey) -> bool { unimplemented!() } }
struct QueryCacheState { cache: HashMap<QueryCacheKey, CachedQueryResult>, lru: Lru }
pub struct Ctr2 { pub exact_hits: Ctr, pub misses: Ctr }
#[verifier::external_body] pub struct Ctr { _p: core::marker::PhantomData<()> }
impl core::ops::AddAssign<u64> for Ctr { #[verifier::external_body] fn add_assign(&mut self, rhs: u64) { unimplemented!() } }
impl vstd::std_specs::ops::AddAssignSpecImpl<u64> for Ctr {
    open spec fn obeys_add_assign_spec() -> bool { false }
    open spec fn add_assign_req(&self, rhs: u64) -> bool { true }
    open spec fn add_assign_spec(&self, rhs: u64) -> &Self { self }
}
pub uninterp spec fn spec_hash(e: Seq<f32>) -> u64;
enum ExactLookup {
    Hit(Vec<SearchResult>),
    InsufficientK,
    Miss,
}
pub struct QueryHashCache { state: QueryCacheState, stats: Ctr2 }
impl QueryHashCache {
    #[verifier::external_body] fn hash_embedding(e: &[f32]) -> (r: u64) ensures r == spec_hash(e@) { unimplemented!() }
    #[verifier::external_body] fn find_similar_query(&mut self, scope: u64, q: &[f32], key: QueryCacheKey, k: usize) -> Option<Vec<SearchResult>> { unimplemented!() }
    /// Scoped variant of `get` for tenant/namespace/filter-isolated query caches.
    fn get_scoped(
        &mut self,
        scope: u64,
        query_embedding: &[f32],
        k: usize,
    ) -> (r: Option<Vec<SearchResult>>)
        requires vstd::std_specs::hash::obeys_key_model::<QueryCacheKey>(),
        ensures
            // exact-path clause: if an entry exists under (scope, hash(query)) the answer never exceeds k
            // and is only given when that entry was computed for at least k results
            old(self).state.cache@.contains_key(QueryCacheKey { scope, query_hash: spec_hash(query_embedding@) }) ==> (
                r.is_some() ==> old(self).state.cache@[QueryCacheKey { scope, query_hash: spec_hash(query_embedding@) }].requested_k >= k
                    && r.unwrap()@.len() <= k),
    {
        broadcast use vstd::std_specs::hash::group_hash_axioms;
        let query_hash = Self::hash_embedding(query_embedding);
        let query_key = QueryCacheKey { scope, query_hash };

        // Exact lookup on shared read lock to avoid serializing misses.

        let exact_lookup = {
            let state = &self.state;
            match state.cache.get(&query_key) {
                Some(cached) if cached.requested_k >= k => {
                    let take = k.min(cached.results.len());
                    ExactLookup::Hit(cached.results[..take].to_vec())
                }
                Some(_) => ExactLookup::InsufficientK,
                None => ExactLookup::Miss,
            }
        };

        match exact_lookup {
            ExactLookup::Hit(results) => {
                // Best-effort recency refresh: avoid blocking read path when writers are active.
                if let Some(state) = vx_try_write(&mut self.state) {
                    let _ = state.lru.touch(query_key);
                }
                self.stats.exact_hits += 1;
                return Some(results);
            }
            ExactLookup::InsufficientK => {
                self.stats.misses += 1;
                return None;
            }
            ExactLookup::Miss => {}
        }

        // Step 2: Try similarity match (slower path)
        self.find_similar_query(scope, query_embedding, query_key, k)
    }


}
}
fn main() {}
