#![feature(allocator_api)]
use vstd::prelude::*;
use std::collections::HashMap;
use vstd::std_specs::hash::*;

macro_rules! debug { ($($t:tt)*) => {} }
macro_rules! error { ($($t:tt)*) => {} }
macro_rules! vec { () => { Vec::new() } }

pub mod anyhow {
    use vstd::prelude::*;
    verus! {
    #[derive(Debug)] pub struct Error { pub x: bool }
    pub type Result<T> = core::result::Result<T, Error>;
    #[verifier::external_body]
    pub fn mk_err() -> Error { unimplemented!() }
    }
    macro_rules! bail { ($($t:tt)*) => { return Err(crate::anyhow::mk_err()) } }
    pub(crate) use bail;
}

verus! {
use anyhow::Result;

#[derive(Debug, Clone, Copy, PartialEq, Eq, Structural)]
pub enum WalOp { Insert = 1, Delete = 2, UpdateMetadata = 3 }
pub struct WalEntry {
    pub op: WalOp,
    pub doc_id: u64,
    pub embedding: Vec<f32>,
    pub metadata: HashMap<String, String>,
    pub seq_no: u64,
    pub timestamp: u64,
}
// capability: an entry (op, doc, seq) was accepted by WalWriter::append
pub uninterp spec fn logged(op: WalOp, doc_id: u64, seq_no: u64) -> bool;

#[verifier::external_body]
pub struct WalWriter { _p: core::marker::PhantomData<()> }
impl WalWriter {
    #[verifier::external_body]
    pub fn append(&mut self, entry: &WalEntry) -> (r: Result<()>)
        ensures r.is_ok() ==> logged(entry.op, entry.doc_id, entry.seq_no)
    { unimplemented!() }
}

#[verifier::external_body]
pub struct PathBuf { _p: core::marker::PhantomData<()> }
impl PathBuf {
    #[verifier::external_body] pub fn join(&self, s: &str) -> PathBuf { unimplemented!() }
    #[verifier::external_body] pub fn exists(&self) -> bool { unimplemented!() }
    #[verifier::external_body] pub fn display(&self) -> u8 { unimplemented!() }
}
#[verifier::external_body]
fn check_and_warn_disk_space(p: &PathBuf) -> Result<bool> { unimplemented!() }
const DISK_SPACE_CRITICAL_THRESHOLD: f64 = 0.05;

#[verifier::external_body]
pub struct SeqCounter { _p: core::marker::PhantomData<()> }
pub enum Ordering { SeqCst }
impl SeqCounter { #[verifier::external_body] pub fn fetch_add(&self, n: u64, o: Ordering) -> u64 { unimplemented!() } }
#[verifier::external_body]
pub struct Flag { _p: core::marker::PhantomData<()> }
impl Flag { #[verifier::external_body] pub fn load(&self, o: Ordering) -> bool { unimplemented!() } }
#[verifier::external_body]
pub struct LockUnit { _p: core::marker::PhantomData<()> }
impl LockUnit {
    #[verifier::external_body] pub fn read(&self) -> u8 { unimplemented!() }
    #[verifier::external_body] pub fn lock(&self) -> u8 { unimplemented!() }
}

struct PersistenceState {
    data_dir: PathBuf,
    wal: WalWriter,
    inserts_since_snapshot: usize,
    snapshot_interval: usize,
    next_wal_seq: SeqCounter,
    snapshot_lock: LockUnit,
}
impl PersistenceState {
    #[verifier::external_body]
    fn rotate_wal_if_needed(&self, wal_guard: &mut WalWriter) -> Result<bool> { unimplemented!() }
}

struct DocumentStore {
    embeddings: Vec<Vec<f32>>,
    metadata: Vec<HashMap<String, String>>,
    versions: Vec<u64>,
    external_to_internal: HashMap<u64, usize>,
    internal_to_external: Vec<Option<u64>>,
}
impl DocumentStore {
    spec fn wf(&self) -> bool {
        let n = self.embeddings@.len();
        &&& self.metadata@.len() == n
        &&& self.versions@.len() == n
        &&& self.internal_to_external@.len() == n
        &&& forall|d: u64| #[trigger] self.external_to_internal@.contains_key(d) ==>
                self.external_to_internal@[d] < n && self.internal_to_external@[self.external_to_internal@[d] as int] == Some(d)
        &&& forall|i: int| 0 <= i < n && (#[trigger] self.internal_to_external@[i]).is_some() ==>
                self.external_to_internal@.contains_key(self.internal_to_external@[i].unwrap())
                && self.external_to_internal@[self.internal_to_external@[i].unwrap()] == i
    }
    spec fn view(&self) -> Map<u64, (Seq<f32>, Map<String, String>)> {
        Map::new(
            self.external_to_internal@.dom(),
            |d: u64| (self.embeddings@[self.external_to_internal@[d] as int]@, self.metadata@[self.external_to_internal@[d] as int]@),
        )
    }
}
#[verifier::external_body]
pub struct MetadataInvertedIndex { _p: core::marker::PhantomData<()> }
impl MetadataInvertedIndex {
    #[verifier::external_body] fn remove_doc(&mut self, doc_id: u64, metadata: &HashMap<String, String>) { unimplemented!() }
}

pub struct HnswBackend {
    doc_store: DocumentStore,
    metadata_index: MetadataInvertedIndex,
    persistence: Option<PersistenceState>,
    wal_inconsistent: Flag,
    write_gate: LockUnit,
}

impl HnswBackend {
    #[verifier::external_body] fn timestamp() -> u64 { unimplemented!() }
    #[verifier::external_body] fn create_snapshot(&mut self) -> (r: Result<()>) ensures final(self).doc_store == old(self).doc_store, final(self).persistence.is_some() == old(self).persistence.is_some() { unimplemented!() }

    fn delete(&mut self, doc_id: u64) -> (r: Result<bool>)
        requires old(self).doc_store.wf(),
            old(self).persistence.is_some() ==> old(self).persistence.unwrap().inserts_since_snapshot < usize::MAX,
        ensures
            r.is_err() ==> final(self).doc_store == old(self).doc_store,
            r matches Ok(false) ==> final(self).doc_store == old(self).doc_store && !old(self).doc_store@.contains_key(doc_id),
            r matches Ok(true) ==> final(self).doc_store.wf() && final(self).doc_store@ =~= old(self).doc_store@.remove(doc_id)
                && old(self).doc_store@.contains_key(doc_id)
                && (old(self).persistence.is_some() ==> exists|seq: u64| logged(WalOp::Delete, doc_id, seq)),
    {
        broadcast use vstd::std_specs::hash::group_hash_axioms;
        if self.wal_inconsistent.load(Ordering::SeqCst) {
            anyhow::bail!("Delete rejected: WAL is in an inconsistent state.");
        }

        // Check existence first to avoid logging unnecessary WAL entries
        let snapshot_guard = self.persistence.as_ref().map(|p| p.snapshot_lock.read());
        let write_gate_guard = self.write_gate.lock();
        let (internal_id, old_metadata) = {
            let store = &self.doc_store;
            let internal_id = match store.external_to_internal.get(&doc_id) {
                Some(id) => *id,
                None => return Ok(false),
            };

            if store
                .internal_to_external
                .get(internal_id)
                .and_then(|v| *v)
                .is_none()
            {
                return Ok(false);
            }
            (internal_id, store.metadata[internal_id].clone())
        };

        let mut should_snapshot = false;

        // Log to WAL
        if let Some(ref mut persistence) = self.persistence {
            if !check_and_warn_disk_space(&persistence.data_dir)? {
                anyhow::bail!(
                    "Delete rejected: disk space critically low (< {}%)",
                    DISK_SPACE_CRITICAL_THRESHOLD * 100.0
                );
            }

            let manifest_path = persistence.data_dir.join("MANIFEST");
            if !manifest_path.exists() {
                anyhow::bail!(
                    "MANIFEST missing at {}; refusing to append WAL to avoid unrecoverable data loss",
                    manifest_path.display()
                );
            }

            let seq_no = persistence.next_wal_seq.fetch_add(1, Ordering::SeqCst);
            let entry = WalEntry {
                op: WalOp::Delete,
                doc_id,
                embedding: vec![],
                metadata: HashMap::new(),
                seq_no,
                timestamp: Self::timestamp(),
            };
            let wal = &mut persistence.wal;
            wal.append(&entry)?;

            // Count deletes towards snapshot interval to bound WAL growth.
            let inserts = &mut persistence.inserts_since_snapshot;
            *inserts += 1;
            if persistence.snapshot_interval > 0 && *inserts >= persistence.snapshot_interval {
                should_snapshot = true;
                debug!(
                    inserts = *inserts,
                    "snapshot interval reached (delete); creating snapshot"
                );
            }
        }

        // Update in-memory state (Soft Delete)
        let store = &mut self.doc_store;
        store.internal_to_external[internal_id] = None;
        store.external_to_internal.remove(&doc_id);
        store.metadata[internal_id].clear();

        let meta_index = &mut self.metadata_index;
        meta_index.remove_doc(internal_id as u64, &old_metadata);

        if should_snapshot {
            if let Err(e) = self.create_snapshot() {
                error!(error = %e, "failed to create snapshot after delete");
            }
        }

        Ok(true)
    }
}

}
fn main() {}
