// design-phase probe: harness for KyroDbConfig::validate extracted with a cheap anyhow stub (see DESIGN.md C18)
#[cfg(kani)]
mod proofs {
    use super::config::*;
    use std::path::PathBuf;
    fn sym_config(env: &str, host: &str) -> KyroDbConfig {
        let mut c = KyroDbConfig::default();
        c.environment.environment_type = env.to_string();
        c.server.host = host.to_string();
        c.persistence.fsync_policy = match kani::any::<u8>() % 3 { 0 => FsyncPolicy::None, 1 => FsyncPolicy::DataOnly, _ => FsyncPolicy::Full };
        c.persistence.snapshot_interval_mutations = if kani::any() { 0 } else { 100 };
        c.persistence.recovery_mode = if kani::any() { RecoveryMode::Strict } else { RecoveryMode::BestEffort };
        c.persistence.allow_fresh_start_on_recovery_failure = kani::any();
        c.cache.strategy = match kani::any::<u8>() % 3 { 0 => CacheStrategy::Lru, 1 => CacheStrategy::Learned, _ => CacheStrategy::AbTest };
        c.auth.enabled = kani::any();
        c.auth.api_keys_file = if kani::any() { Some(PathBuf::from("k")) } else { None };
        c.rate_limit.enabled = kani::any();
        c.server.observability_auth = match kani::any::<u8>() % 3 { 0 => ObservabilityAuthMode::Disabled, 1 => ObservabilityAuthMode::MetricsAndSlo, _ => ObservabilityAuthMode::All };
        c.server.tls.enabled = kani::any();
        c.server.tls.cert_path = if kani::any() { Some(PathBuf::from("c")) } else { None };
        c.server.tls.key_path = if kani::any() { Some(PathBuf::from("k")) } else { None };
        c
    }
    fn non_benchmark_safe(c: &KyroDbConfig) -> bool {
        c.persistence.fsync_policy != FsyncPolicy::None && c.persistence.snapshot_interval_mutations != 0
            && c.persistence.recovery_mode == RecoveryMode::Strict && matches!(c.cache.strategy, CacheStrategy::Learned)
    }
    #[kani::proof]
    #[kani::unwind(20)]
    fn pilot_padded_nonloopback() {
        let c = sym_config(" Pilot ", "0.0.0.0");
        let ok = c.validate().is_ok();
        if ok {
            assert!(non_benchmark_safe(&c));
            assert!(c.auth.enabled && c.rate_limit.enabled);
            assert!(c.server.observability_auth != ObservabilityAuthMode::Disabled);
            assert!(!c.persistence.allow_fresh_start_on_recovery_failure);
            assert!(c.server.tls.enabled); // non-loopback bind
        }
        kani::cover!(ok);
    }
    #[kani::proof]
    #[kani::unwind(20)]
    fn production_upper_nonloopback() {
        let c = sym_config("PRODUCTION", "10.0.0.5");
        let ok = c.validate().is_ok();
        if ok { assert!(non_benchmark_safe(&c)); assert!(c.auth.enabled); }
        kani::cover!(ok);
    }
}
