use vstd::prelude::*;

macro_rules! debug { ($($t:tt)*) => {} }
macro_rules! warn { ($($t:tt)*) => {} }
macro_rules! format { ($($t:tt)*) => { () } }
macro_rules! vec { ($e:expr; $n:expr) => { crate::vec_from_elem($e, $n) } }

pub mod anyhow {
    use vstd::prelude::*;
    verus! {
    #[derive(Debug)] pub struct Error { pub x: bool }
    pub type Result<T> = core::result::Result<T, Error>;
    #[verifier::external_body]
    pub fn mk_err() -> Error { unimplemented!() }
    impl core::convert::From<super::io::Error> for Error {
        #[verifier::external_body]
        fn from(e: super::io::Error) -> (r: Error) { unimplemented!() }
    }
    impl vstd::std_specs::convert::FromSpecImpl<super::io::Error> for Error {
        open spec fn obeys_from_spec() -> bool { false }
        open spec fn from_spec(v: super::io::Error) -> Self { Error { x: true } }
    }
    pub trait Context<T>: Sized {
        spec fn ok_val(self) -> Option<T>;
        fn context(self, msg: &str) -> (r: core::result::Result<T, Error>)
            ensures r.is_ok() == self.ok_val().is_some(), r.is_ok() ==> r.unwrap() == self.ok_val().unwrap();
    }
    impl<T, E> Context<T> for core::result::Result<T, E> {
        open spec fn ok_val(self) -> Option<T> { match self { Ok(v) => Some(v), Err(_) => None } }
        #[verifier::external_body]
        fn context(self, msg: &str) -> (r: core::result::Result<T, Error>) { unimplemented!() }
    }
    }
    macro_rules! bail { ($($t:tt)*) => { return Err(crate::anyhow::mk_err()) } }
    pub(crate) use bail;
}
pub mod io {
    use vstd::prelude::*;
    verus! {
    #[derive(Debug, PartialEq, Eq, Structural, Clone, Copy)] pub enum ErrorKind { UnexpectedEof, Other }
    #[derive(Debug)] pub struct Error { pub k: ErrorKind }
    impl Error { pub fn kind(&self) -> (r: ErrorKind) ensures r == self.k { self.k } }
    }
}

verus! {
use anyhow::{Result, Context};

#[verifier::external_body]
pub fn vec_from_elem(e: u8, n: usize) -> (r: Vec<u8>) ensures r@.len() == n { unimplemented!() }

const MAX_WAL_ENTRY_BYTES: usize = 100 * 1024 * 1024;

pub struct WalEntry { pub doc_id: u64 }
pub uninterp spec fn de(b: Seq<u8>) -> Option<WalEntry>;
pub uninterp spec fn crc(b: Seq<u8>) -> u32;
pub uninterp spec fn le32(b: Seq<u8>) -> u32;
pub open spec fn max_entry() -> int { 104857600int }
pub open spec fn parse(bytes: Seq<u8>, pos: int) -> (Seq<WalEntry>, nat)
    decreases bytes.len() - pos
{
    if pos < 0 || pos + 4 > bytes.len() { (Seq::empty(), 0nat) } else {
        let size = le32(bytes.subrange(pos, pos + 4)) as int;
        if size == 0 || size > max_entry() { (Seq::empty(), 1nat) }
        else if pos + 4 + size > bytes.len() { (Seq::empty(), 0nat) }
        else if pos + 4 + size + 4 > bytes.len() { (Seq::empty(), 0nat) }
        else {
            let body = bytes.subrange(pos + 4, pos + 4 + size);
            let stored = le32(bytes.subrange(pos + 4 + size, pos + 8 + size));
            let rest = parse(bytes, pos + 8 + size);
            if stored != crc(body) { (rest.0, rest.1 + 1) }
            else { match de(body) { None => (rest.0, rest.1 + 1), Some(e) => (seq![e] + rest.0, rest.1) } }
        }
    }
}

pub mod bincode {
    use vstd::prelude::*;
    verus!{
    #[derive(Debug)] pub struct Error;
    #[verifier::external_body]
    pub fn deserialize(b: &[u8]) -> (r: core::result::Result<super::WalEntry, Error>)
        ensures r.is_ok() == super::de(b@).is_some(), r.is_ok() ==> r.unwrap() == super::de(b@).unwrap()
    { unimplemented!() }
    }
}
pub mod crc32fast {
    use vstd::prelude::*;
    verus!{
    #[verifier::external_body]
    pub fn hash(b: &[u8]) -> (r: u32) ensures r == super::crc(b@) { unimplemented!() }
    }
}
#[verifier::external_body]
pub fn u32_from_le_bytes(b: [u8; 4]) -> (r: u32) ensures r == le32(b@) { unimplemented!() }

// sequential reader over a ghost byte string
pub struct RdState { pub bytes: Seq<u8>, pub pos: int }
#[verifier::external_body]
pub struct BufReader { _p: core::marker::PhantomData<()> }
impl BufReader {
    pub uninterp spec fn view(&self) -> RdState;
    #[verifier::external_body]
    pub fn read_exact(&mut self, buf: &mut [u8]) -> (r: core::result::Result<(), io::Error>)
        ensures
            final(self)@.bytes == old(self)@.bytes,
            final(buf)@.len() == old(buf)@.len(),
            r.is_ok() ==> old(self)@.pos + old(buf)@.len() <= old(self)@.bytes.len()
                && final(self)@.pos == old(self)@.pos + old(buf)@.len()
                && final(buf)@ == old(self)@.bytes.subrange(old(self)@.pos, old(self)@.pos + old(buf)@.len()),
            (r.is_err() && r->Err_0.k == io::ErrorKind::UnexpectedEof) ==> old(self)@.pos + old(buf)@.len() > old(self)@.bytes.len(),
    { unimplemented!() }
}

pub struct WalReader {
    file: BufReader,
    valid_entries: usize,
    corrupted_entries: usize,
}

impl WalReader {
    #[verifier::exec_allows_no_decreases_clause]
    fn read_all(&mut self) -> (r: Result<Vec<WalEntry>>)
        requires old(self).file@.pos >= 0, old(self).file@.pos <= old(self).file@.bytes.len(), old(self).file@.bytes.len() <= usize::MAX,
            old(self).corrupted_entries + old(self).file@.bytes.len() <= usize::MAX,
            old(self).valid_entries + old(self).file@.bytes.len() <= usize::MAX,
        ensures
            r.is_ok() ==> r.unwrap()@ == parse(old(self).file@.bytes, old(self).file@.pos).0
                && final(self).corrupted_entries == old(self).corrupted_entries + parse(old(self).file@.bytes, old(self).file@.pos).1,
    {
        let ghost bytes = self.file@.bytes;
        let ghost pos0 = self.file@.pos;
        let ghost c0 = self.corrupted_entries;
        let ghost v0 = self.valid_entries;
        let mut entries = Vec::new();

        loop
            invariant_except_break
                self.file@.bytes == bytes, 0 <= pos0 <= self.file@.pos,
                entries@ + parse(bytes, self.file@.pos).0 == parse(bytes, pos0).0,
                (self.corrupted_entries - c0) + parse(bytes, self.file@.pos).1 == parse(bytes, pos0).1,
                self.corrupted_entries >= c0, self.valid_entries >= v0,
                (self.corrupted_entries - c0) + (self.valid_entries - v0) <= self.file@.pos - pos0,
                self.file@.pos <= bytes.len(),
                bytes.len() <= usize::MAX, c0 + bytes.len() <= usize::MAX, v0 + bytes.len() <= usize::MAX,
            ensures
                entries@ == parse(bytes, pos0).0,
                self.corrupted_entries - c0 == parse(bytes, pos0).1,
        {
            let ghost p = self.file@.pos;
            // Read entry size
            let mut size_bytes = [0u8; 4];
            match self.file.read_exact(&mut size_bytes) {
                Ok(_) => {}
                Err(e) if e.kind() == io::ErrorKind::UnexpectedEof => break,
                Err(e) => return Err(e.into()),
            }

            let entry_size = u32_from_le_bytes(size_bytes) as usize;
            if entry_size == 0 || entry_size > MAX_WAL_ENTRY_BYTES {
                self.corrupted_entries += 1;
                warn!(
                    entry_size,
                    "invalid WAL entry size; stopping replay at corrupted tail"
                );
                break;
            }

            // Read entry data
            let mut entry_bytes = vec![0u8; entry_size];
            match self.file.read_exact(&mut entry_bytes) {
                Ok(()) => {}
                Err(e) if e.kind() == io::ErrorKind::UnexpectedEof => break,
                Err(e) => return Err(e).context("Failed to read WAL entry data"),
            }

            // Read checksum
            let mut checksum_bytes = [0u8; 4];
            match self.file.read_exact(&mut checksum_bytes) {
                Ok(()) => {}
                Err(e) if e.kind() == io::ErrorKind::UnexpectedEof => break,
                Err(e) => return Err(e).context("Failed to read WAL checksum"),
            }

            let stored_checksum = u32_from_le_bytes(checksum_bytes);
            let computed_checksum = crc32fast::hash(&entry_bytes);

            if stored_checksum != computed_checksum {
                debug!(
                    stored_checksum = format!("{:#x}", stored_checksum),
                    "corrupted WAL entry; checksum mismatch"
                );
                self.corrupted_entries += 1;
                continue;
            }

            // Deserialize entry
            let entry: WalEntry = match bincode::deserialize(&entry_bytes) {
                Ok(entry) => entry,
                Err(e) => {
                    self.corrupted_entries += 1;
                    warn!(error = %e, "failed to deserialize WAL entry; skipping");
                    continue;
                }
            };

            entries.push(entry);
            self.valid_entries += 1;
        }

        Ok(entries)
    }
}
}
fn main() {}
