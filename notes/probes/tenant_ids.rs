use vstd::prelude::*;
verus! {

#[verifier::external_body]
pub struct Status { _p: core::marker::PhantomData<()> }
impl Status {
    #[verifier::external_body]
    pub fn invalid_argument(msg: &str) -> Status { unimplemented!() }
}
struct TenantIdMapper;

pub open spec fn glob(t: u32, l: u64) -> u64 { ((t as u64) << 32) | l }

impl TenantIdMapper {
    #[allow(clippy::result_large_err)]
    fn to_global_doc_id(tenant_index: u32, local_doc_id: u64) -> (r: Result<u64, Status>)
        ensures
            r.is_ok() <==> local_doc_id <= u32::MAX as u64,
            r.is_ok() ==> r->Ok_0 == glob(tenant_index, local_doc_id),
    {
        if local_doc_id > u32::MAX as u64 {
            return Err(Status::invalid_argument(
                "DOC_ID_OUT_OF_RANGE: doc_id exceeds tenant-local max (u32)",
            ));
        }
        Ok(((tenant_index as u64) << 32) | local_doc_id)
    }

    fn is_tenant_doc_id(tenant_index: u32, global_doc_id: u64) -> (r: bool)
        ensures r == ((global_doc_id >> 32) as u32 == tenant_index)
    {
        (global_doc_id >> 32) as u32 == tenant_index
    }

    fn to_local_doc_id(global_doc_id: u64) -> (r: u64)
        ensures r == global_doc_id & 0xFFFF_FFFF
    {
        global_doc_id & 0xFFFF_FFFF
    }
}

proof fn lemma_roundtrip(t: u32, l: u64, t2: u32, l2: u64)
    requires l <= u32::MAX as u64, l2 <= u32::MAX as u64
    ensures
        ((glob(t, l) >> 32) as u32 == t),
        glob(t, l) & 0xFFFF_FFFF == l,
        (glob(t, l) == glob(t2, l2)) ==> (t == t2 && l == l2),
        t != t2 ==> ((glob(t, l) >> 32) as u32 != t2),
{
    assert(((((t as u64) << 32) | l) >> 32) as u32 == t && ((((t as u64) << 32) | l) & 0xFFFF_FFFF == l)) by (bit_vector)
        requires l <= 0xFFFF_FFFFu64;
    assert(((((t2 as u64) << 32) | l2) >> 32) as u32 == t2 && ((((t2 as u64) << 32) | l2) & 0xFFFF_FFFF == l2)) by (bit_vector)
        requires l2 <= 0xFFFF_FFFFu64;
}

}
fn main() {}
