use vstd::prelude::*;
verus! {
pub open spec fn step(p: u64, e: u64) -> u64 { if e > 5 { p } else { p.wrapping_add(e) } }
pub open spec fn fold(s: Seq<u64>, n: int) -> u64 decreases n { if n <= 0 { 0 } else { step(fold(s, n-1), s[n-1]) } }

#[verifier::exec_allows_no_decreases_clause]
fn sum(entries: Vec<u64>) -> (r: u64)
    ensures r == fold(entries@, entries@.len() as int)
{
    let mut acc: u64 = 0;
    for e in it: entries
        invariant acc == fold(it.seq(), it.index@ as int), it.seq() == entries@,
    {
        let ghost acc0 = acc;
        loop
            invariant_except_break acc == acc0,
            ensures acc == step(acc0, e),
        {
            if e > 5 { break; }
            acc = acc.wrapping_add(e);
            break;
        }
    }
    acc
}
}
fn main() {}
