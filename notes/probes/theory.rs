use vstd::prelude::*;
verus! {

pub enum Op { Insert, Delete, UpdateMetadata }
pub struct Entry { pub op: Op, pub doc_id: u64, pub vec: Seq<f32>, pub meta: Map<Seq<char>, Seq<char>>, pub seq_no: u64, pub ts: u64 }
pub type Doc = (Seq<f32>, Map<Seq<char>, Seq<char>>);
pub type Coll = Map<u64, Doc>;

pub open spec fn apply1(c: Coll, e: Entry) -> Coll {
    match e.op {
        Op::Insert => c.insert(e.doc_id, (e.vec, e.meta)),
        Op::Delete => c.remove(e.doc_id),
        Op::UpdateMetadata => if c.contains_key(e.doc_id) { c.insert(e.doc_id, (c[e.doc_id].0, e.meta)) } else { c },
    }
}
pub open spec fn covered(e: Entry, s: u64, t: u64) -> bool {
    (s > 0 && e.seq_no > 0 && e.seq_no <= s) || (e.seq_no == 0 && t > 0 && e.ts > 0 && e.ts <= t)
}
pub open spec fn replay(c: Coll, es: Seq<Entry>, n: int, s: u64, t: u64) -> Coll
    decreases n
{
    if n <= 0 { c } else {
        let p = replay(c, es, n - 1, s, t);
        if covered(es[n - 1], s, t) { p } else { apply1(p, es[n - 1]) }
    }
}
pub open spec fn seq_sorted(es: Seq<Entry>) -> bool {
    (forall|i: int| 0 <= i < es.len() ==> (#[trigger] es[i]).seq_no > 0)
    && (forall|i: int, j: int| 0 <= i < j < es.len() ==> (#[trigger] es[i]).seq_no < (#[trigger] es[j]).seq_no)
}

// T2: snapshot (= full replay of the prefix with seq <= S) + skipping replay of the whole log = full replay
pub proof fn lemma_snapshot_suffix(es: Seq<Entry>, m: int, s: u64, t: u64, n: int)
    requires
        seq_sorted(es), 0 <= m <= es.len(), 0 <= n <= es.len(),
        forall|i: int| 0 <= i < m ==> (#[trigger] es[i]).seq_no <= s,
        forall|i: int| m <= i < es.len() ==> (#[trigger] es[i]).seq_no > s,
    ensures
        replay(replay(Map::empty(), es, m, 0, 0), es, n, s, t)
            == (if n <= m { replay(Map::empty(), es, m, 0, 0) } else { replay(Map::empty(), es, n, 0, 0) }),
    decreases n
{
    if n > 0 {
        lemma_snapshot_suffix(es, m, s, t, n - 1);
        let e = es[n - 1];
        assert(e.seq_no > 0);
        if n <= m {
            assert(e.seq_no <= s);
            assert(s > 0);
            assert(covered(e, s, t));
        } else {
            assert(e.seq_no > s);
            assert(!covered(e, s, t));
            assert(!covered(e, 0, 0));
            if n - 1 == m {
                // first applied entry: previous state is exactly the snapshot
            }
        }
    }
}

// T3: dropping a fully covered segment does not change a skipping replay
pub proof fn lemma_covered_segment_is_noop(c: Coll, seg: Seq<Entry>, s: u64, t: u64, n: int)
    requires 0 <= n <= seg.len(), forall|i: int| 0 <= i < seg.len() ==> covered(#[trigger] seg[i], s, t),
    ensures replay(c, seg, n, s, t) == c,
    decreases n
{
    if n > 0 { lemma_covered_segment_is_noop(c, seg, s, t, n - 1); }
}

// replay over a concatenation = replay of the second part from the result of the first
pub proof fn lemma_replay_concat(c: Coll, a: Seq<Entry>, b: Seq<Entry>, s: u64, t: u64, n: int)
    requires 0 <= n <= b.len(),
    ensures replay(c, a + b, a.len() + n, s, t) == replay(replay(c, a, a.len() as int, s, t), b, n, s, t),
    decreases n
{
    if n == 0 {
        lemma_replay_prefix_ext(c, a, b, s, t, a.len() as int);
    } else {
        lemma_replay_concat(c, a, b, s, t, n - 1);
        assert((a + b)[a.len() + n - 1] == b[n - 1]);
    }
}
pub proof fn lemma_replay_prefix_ext(c: Coll, a: Seq<Entry>, b: Seq<Entry>, s: u64, t: u64, n: int)
    requires 0 <= n <= a.len(),
    ensures replay(c, a + b, n, s, t) == replay(c, a, n, s, t),
    decreases n
{
    if n > 0 { lemma_replay_prefix_ext(c, a, b, s, t, n - 1); assert((a + b)[n - 1] == a[n - 1]); }
}


// ---- T1: the live store equals the replay of the log, for any history of contract-abiding operations
pub enum Step { Ok(Entry), Failed }          // what one API call did, as its contract states it
pub open spec fn log_of(h: Seq<Step>, n: int) -> Seq<Entry> decreases n {
    if n <= 0 { Seq::empty() } else { match h[n - 1] { Step::Ok(e) => log_of(h, n - 1).push(e), Step::Failed => log_of(h, n - 1) } }
}
pub open spec fn store_of(h: Seq<Step>, n: int) -> Coll decreases n {
    if n <= 0 { Map::empty() } else { match h[n - 1] { Step::Ok(e) => apply1(store_of(h, n - 1), e), Step::Failed => store_of(h, n - 1) } }
}
pub proof fn lemma_replay_push(c: Coll, es: Seq<Entry>, e: Entry)
    ensures replay(c, es.push(e), es.len() as int + 1, 0, 0) == apply1(replay(c, es, es.len() as int, 0, 0), e)
{
    lemma_replay_prefix_ext(c, es, seq![e], 0, 0, es.len() as int);
    assert(es.push(e) =~= es + seq![e]);
    assert(!covered(e, 0, 0));
}
pub proof fn lemma_live_is_replay(h: Seq<Step>, n: int)
    requires 0 <= n <= h.len(),
    ensures store_of(h, n) == replay(Map::empty(), log_of(h, n), log_of(h, n).len() as int, 0, 0),
    decreases n
{
    if n > 0 {
        lemma_live_is_replay(h, n - 1);
        match h[n - 1] { Step::Ok(e) => { lemma_replay_push(Map::empty(), log_of(h, n - 1), e); }, Step::Failed => {} }
    }
}

// ---- T4: restarting the counter at 1 + max(seen) never reuses a sequence number
pub open spec fn max_seq(es: Seq<Entry>, n: int) -> u64 decreases n {
    if n <= 0 { 0 } else { let m = max_seq(es, n - 1); if es[n - 1].seq_no > m { es[n - 1].seq_no } else { m } }
}
pub proof fn lemma_next_seq_fresh(es: Seq<Entry>, n: int, s: u64, i: int)
    requires 0 <= i < n <= es.len(),
    ensures es[i].seq_no <= max_seq(es, n), (if s > max_seq(es, n) { s } else { max_seq(es, n) }) + 1 > es[i].seq_no,
    decreases n
{
    if i < n - 1 { lemma_next_seq_fresh(es, n - 1, s, i); }
}

}
fn main() {}
