use vstd::prelude::*;
macro_rules! format { ($($t:tt)*) => { crate::FmtMsg::mk() } }
pub mod io {
    use vstd::prelude::*;
    verus! { #[derive(Debug)] pub struct Error { pub kind: u8 } }
}
pub mod anyhow {
    use vstd::prelude::*;
    verus! {
    #[derive(Debug)] pub struct Error { pub x: bool }
    impl Error { #[verifier::external_body] pub fn to_string(&self) -> crate::FmtMsg { unimplemented!() } }
    pub type Result<T> = core::result::Result<T, Error>;
    #[verifier::external_body] pub fn mk_err() -> Error { unimplemented!() }
    impl core::convert::From<super::io::Error> for Error { #[verifier::external_body] fn from(e: super::io::Error) -> (r: Error) { unimplemented!() } }
    impl vstd::std_specs::convert::FromSpecImpl<super::io::Error> for Error {
        open spec fn obeys_from_spec() -> bool { false }
        open spec fn from_spec(v: super::io::Error) -> Self { Error { x: true } }
    }
    pub trait Context<T>: Sized {
        spec fn ok_val(self) -> Option<T>;
        fn context(self, msg: &str) -> (r: core::result::Result<T, Error>)
            ensures r.is_ok() == self.ok_val().is_some(), r.is_ok() ==> r.unwrap() == self.ok_val().unwrap();
        fn with_context<C, F: FnOnce() -> C>(self, f: F) -> (r: core::result::Result<T, Error>)
            ensures r.is_ok() == self.ok_val().is_some(), r.is_ok() ==> r.unwrap() == self.ok_val().unwrap();
    }
    impl<T, E> Context<T> for core::result::Result<T, E> {
        open spec fn ok_val(self) -> Option<T> { match self { Ok(v) => Some(v), Err(_) => None } }
        #[verifier::external_body] fn context(self, msg: &str) -> (r: core::result::Result<T, Error>) { unimplemented!() }
        #[verifier::external_body] fn with_context<C, F: FnOnce() -> C>(self, f: F) -> (r: core::result::Result<T, Error>) { unimplemented!() }
    }
    }
    macro_rules! ensure { ($c:expr, $($t:tt)*) => { if !($c) { return Err(crate::anyhow::mk_err()); } } }
    pub(crate) use ensure;
}
pub mod bincode {
    use vstd::prelude::*;
    verus! {
    #[derive(Debug)] pub struct Error;
    #[verifier::external_body]
    pub fn serialize(e: &crate::WalEntry) -> (r: core::result::Result<Vec<u8>, Error>)
        ensures r.is_ok() ==> r.unwrap()@ == crate::ser(e) { unimplemented!() }
    }
}
pub mod crc32fast {
    use vstd::prelude::*;
    verus! { #[verifier::external_body] pub fn hash(b: &[u8]) -> (r: u32) ensures r == crate::crc(b@) { unimplemented!() } }
}
verus! {
global size_of usize == 8;
use anyhow::{Result, Context};
#[verifier::external_body] pub struct FmtMsg { _p: core::marker::PhantomData<()> }
impl FmtMsg { #[verifier::external_body] pub fn mk() -> FmtMsg { unimplemented!() } }
pub struct WalEntry { pub doc_id: u64 }
pub uninterp spec fn ser(e: &WalEntry) -> Seq<u8>;
pub uninterp spec fn crc(b: Seq<u8>) -> u32;
pub uninterp spec fn le4(x: u32) -> Seq<u8>;
#[verifier::external_body] pub fn vx_u32_to_le_bytes(x: u32) -> (r: [u8; 4]) ensures r@ == le4(x), r@.len() == 4 { unimplemented!() }
pub open spec fn frame(b: Seq<u8>) -> Seq<u8> { le4(b.len() as u32) + b + le4(crc(b)) }
pub open spec fn frames_of(es: Seq<WalEntry>, n: int) -> Seq<u8> decreases n {
    if n <= 0 { Seq::empty() } else { frames_of(es, n - 1) + frame(ser(&es[n - 1])) }
}
const MAX_WAL_ENTRY_BYTES: usize = 100 * 1024 * 1024;

pub struct FileState { pub bytes: Seq<u8>, pub durable: nat }
#[verifier::external_body] pub struct File { _p: core::marker::PhantomData<()> }
pub enum SeekFrom { Start(u64) }
impl File {
    pub uninterp spec fn view(&self) -> FileState;
    #[verifier::external_body] pub fn write_all(&mut self, buf: &[u8]) -> (r: core::result::Result<(), io::Error>)
        ensures
            final(self)@.durable == old(self)@.durable,
            r.is_ok() ==> final(self)@.bytes == old(self)@.bytes + buf@,
            r.is_err() ==> old(self)@.bytes.is_prefix_of(final(self)@.bytes) && final(self)@.bytes.is_prefix_of(old(self)@.bytes + buf@),
    { unimplemented!() }
    #[verifier::external_body] pub fn flush(&mut self) -> (r: core::result::Result<(), io::Error>) ensures final(self)@ == old(self)@ { unimplemented!() }
    #[verifier::external_body] pub fn sync_all(&mut self) -> (r: core::result::Result<(), io::Error>)
        ensures final(self)@.bytes == old(self)@.bytes, r.is_ok() ==> final(self)@.durable == final(self)@.bytes.len(), r.is_err() ==> final(self)@.durable >= old(self)@.durable { unimplemented!() }
    #[verifier::external_body] pub fn sync_data(&mut self) -> (r: core::result::Result<(), io::Error>)
        ensures final(self)@.bytes == old(self)@.bytes, r.is_ok() ==> final(self)@.durable == final(self)@.bytes.len(), r.is_err() ==> final(self)@.durable >= old(self)@.durable { unimplemented!() }
    #[verifier::external_body] pub fn set_len(&mut self, len: u64) -> (r: core::result::Result<(), io::Error>)
        ensures r.is_ok() ==> final(self)@.bytes == old(self)@.bytes.take(len as int) && final(self)@.durable <= old(self)@.durable,
            r.is_err() ==> final(self)@ == old(self)@ { unimplemented!() }
    #[verifier::external_body] pub fn seek(&mut self, p: SeekFrom) -> (r: core::result::Result<u64, io::Error>) ensures final(self)@ == old(self)@ { unimplemented!() }
}
#[verifier::external_body] pub struct Instant { _p: core::marker::PhantomData<()> }
#[verifier::external_body] #[derive(PartialEq, PartialOrd)] pub struct Duration { _p: core::marker::PhantomData<()> }
impl Instant {
    #[verifier::external_body] pub fn now() -> Instant { unimplemented!() }
    #[verifier::external_body] pub fn elapsed(&self) -> Duration { unimplemented!() }
}
impl Duration { #[verifier::external_body] pub fn from_millis(m: u64) -> Duration { unimplemented!() } }
#[verifier::external_body] pub fn dur_ge(a: Duration, b: Duration) -> bool { unimplemented!() }
#[derive(Debug, Clone, Copy, PartialEq, Eq)]
pub enum FsyncPolicy {
    /// fsync after every write (safest, slowest)
    Always,
    /// fsync every N milliseconds (balanced)
    Periodic(u64),
    /// Never fsync (fastest, data loss on crash)
    Never,
}


pub struct WalWriter {
    file: File,
    fsync_policy: FsyncPolicy,
    last_fsync: Instant,
    entry_count: usize,
    bytes_written: u64,
}
impl WalWriter {
    spec fn wf(&self) -> bool { self.bytes_written as int == self.file@.bytes.len() }
    /// Internal append logic (called by append or via error handler)
    fn append_internal(&mut self, entry: &WalEntry) -> (r: Result<()>)
        requires old(self).wf(), old(self).entry_count < usize::MAX, old(self).bytes_written < u64::MAX / 2,
        ensures
            r.is_ok() ==> final(self).file@.bytes == old(self).file@.bytes + frame(ser(entry)) && final(self).wf()
                && final(self).entry_count == old(self).entry_count + 1
                && (final(self).fsync_policy is Always ==> final(self).file@.durable == final(self).file@.bytes.len()),
            old(self).file@.bytes.is_prefix_of(final(self).file@.bytes),
            final(self).fsync_policy == old(self).fsync_policy,
    {
        self.write_entry(entry)?;
        self.perform_fsync()
    }

    fn append_internal_with_rollback(
        &mut self,
        entry: &WalEntry,
        stable_offset: u64,
        stable_entry_count: usize,
    ) -> (r: Result<()>)
        requires old(self).wf(), old(self).entry_count < usize::MAX, old(self).bytes_written < u64::MAX / 2,
            stable_offset == old(self).bytes_written, stable_entry_count == old(self).entry_count,
        ensures
            r.is_ok() ==> final(self).file@.bytes == old(self).file@.bytes + frame(ser(entry)) && final(self).wf()
                && final(self).entry_count == old(self).entry_count + 1
                && (final(self).fsync_policy is Always ==> final(self).file@.durable == final(self).file@.bytes.len()),
            // failure: either the log is byte-identical to before (counters restored) or the rollback itself failed
            // and the damage is visible as extra length -- never a silent partial frame of unchanged length
            r.is_err() ==> final(self).file@.bytes == old(self).file@.bytes || final(self).file@.bytes.len() > old(self).file@.bytes.len(),
    {
        match self.append_internal(entry) {
            Ok(()) => Ok(()),
            Err(write_err) => {
                let write_err_msg = write_err.to_string();
                self.rollback_to_stable_state(stable_offset, stable_entry_count)
                    .with_context(|| {
                        format!(
                            "WAL write failed ({}); rollback to offset {} failed",
                            write_err_msg, stable_offset
                        )
                    })?;
                Err(write_err)
            }
        }
    }

    fn write_entry(&mut self, entry: &WalEntry) -> (r: Result<()>)
        requires old(self).wf(), old(self).entry_count < usize::MAX, old(self).bytes_written < u64::MAX / 2,
        ensures
            final(self).file@.durable == old(self).file@.durable, final(self).fsync_policy == old(self).fsync_policy,
            r.is_ok() ==> final(self).file@.bytes == old(self).file@.bytes + frame(ser(entry)) && final(self).wf()
                && final(self).entry_count == old(self).entry_count + 1
                && final(self).bytes_written <= old(self).bytes_written + 104857608,
            r.is_err() ==> old(self).file@.bytes.is_prefix_of(final(self).file@.bytes)
                && final(self).entry_count == old(self).entry_count && final(self).bytes_written == old(self).bytes_written,
    {
        // Serialize entry
        let entry_bytes = bincode::serialize(entry).context("Failed to serialize WAL entry")?;
        anyhow::ensure!(
            entry_bytes.len() <= MAX_WAL_ENTRY_BYTES,
            "WAL entry too large: {} bytes (max {})",
            entry_bytes.len(),
            MAX_WAL_ENTRY_BYTES
        );

        // Calculate checksum (CRC32)
        let checksum = crc32fast::hash(&entry_bytes);

        // Write: [entry_size (4 bytes) | entry_data | checksum (4 bytes)]
        let entry_size =
            u32::try_from(entry_bytes.len()).context("WAL entry size exceeds u32 header limit")?;
        let mut frame = Vec::with_capacity(4 + entry_bytes.len() + 4);
        frame.extend_from_slice(&vx_u32_to_le_bytes(entry_size));
        frame.extend_from_slice(&entry_bytes);
        frame.extend_from_slice(&vx_u32_to_le_bytes(checksum));
        self.file.write_all(&frame)?;

        self.entry_count += 1;
        self.bytes_written += frame.len() as u64;
        Ok(())
    }

    fn rollback_to_offset(&mut self, offset: u64) -> (r: Result<()>)
        ensures
            final(self).entry_count == old(self).entry_count, final(self).bytes_written == old(self).bytes_written,
            final(self).fsync_policy == old(self).fsync_policy,
            r.is_ok() ==> final(self).file@.bytes == old(self).file@.bytes.take(offset as int)
                && final(self).file@.durable == final(self).file@.bytes.len(),
            r.is_err() ==> final(self).file@.bytes == old(self).file@.bytes || final(self).file@.bytes == old(self).file@.bytes.take(offset as int),
    {
        self.file
            .set_len(offset)
            .with_context(|| format!("Failed truncating WAL to {} bytes", offset))?;
        self.file
            .seek(SeekFrom::Start(offset))
            .with_context(|| format!("Failed seeking WAL to {} after truncate", offset))?;
        self.file
            .sync_data()
            .context("Failed to fsync WAL after rollback truncate")?;
        Ok(())
    }

    fn rollback_to_stable_state(
        &mut self,
        stable_offset: u64,
        stable_entry_count: usize,
    ) -> (r: Result<()>)
        ensures
            final(self).fsync_policy == old(self).fsync_policy,
            r.is_ok() ==> final(self).file@.bytes == old(self).file@.bytes.take(stable_offset as int)
                && final(self).bytes_written == stable_offset && final(self).entry_count == stable_entry_count,
            r.is_err() ==> final(self).file@.bytes == old(self).file@.bytes || final(self).file@.bytes == old(self).file@.bytes.take(stable_offset as int),
    {
        self.rollback_to_offset(stable_offset)?;
        self.bytes_written = stable_offset;
        self.entry_count = stable_entry_count;
        Ok(())
    }

    fn perform_fsync(&mut self) -> (r: Result<()>)
        ensures
            final(self).file@.bytes == old(self).file@.bytes, final(self).entry_count == old(self).entry_count,
            final(self).bytes_written == old(self).bytes_written, final(self).fsync_policy == old(self).fsync_policy,
            r.is_ok() && final(self).fsync_policy is Always ==> final(self).file@.durable == final(self).file@.bytes.len(),
    {
        // Flush to OS buffer cache (fast, does not wait for disk)
        self.file.flush()?;

        // fsync policy:
        // - Always: full durability (`sync_all`) on every append
        // - Periodic: `sync_data` at an interval (or every write if interval=0)
        // - Never: rely on OS buffering (data loss on crash)
        match self.fsync_policy {
            FsyncPolicy::Always => {
                self.file.sync_all()?;
            }
            FsyncPolicy::Periodic(interval_ms) => {
                if interval_ms == 0
                    || dur_ge(self.last_fsync.elapsed(), Duration::from_millis(interval_ms))
                {
                    self.file.sync_data()?;
                    self.last_fsync = Instant::now();
                }
            }
            FsyncPolicy::Never => {
                // No sync
            }
        }
        Ok(())
    }

    fn append_batch_internal_with_rollback(
        &mut self,
        entries: &[WalEntry],
        stable_offset: u64,
        stable_entry_count: usize,
    ) -> (r: Result<()>)
        requires old(self).wf(), old(self).entry_count + entries@.len() < usize::MAX, old(self).bytes_written < u64::MAX / 4, entries@.len() < 1000000,
            stable_offset == old(self).bytes_written, stable_entry_count == old(self).entry_count,
        ensures
            r.is_ok() ==> final(self).file@.bytes == old(self).file@.bytes + frames_of(entries@, entries@.len() as int) && final(self).wf(),
            r.is_err() ==> final(self).file@.bytes == old(self).file@.bytes || final(self).file@.bytes.len() > old(self).file@.bytes.len(),
    {
        match self.append_batch_internal(entries) {
            Ok(()) => Ok(()),
            Err(write_err) => {
                let write_err_msg = write_err.to_string();
                self.rollback_to_stable_state(stable_offset, stable_entry_count)
                    .with_context(|| {
                        format!(
                            "WAL batch write failed ({}); rollback to offset {} failed",
                            write_err_msg, stable_offset
                        )
                    })?;
                Err(write_err)
            }
        }
    }

    fn append_batch_internal(&mut self, entries: &[WalEntry]) -> (r: Result<()>)
        requires old(self).wf(), old(self).entry_count + entries@.len() < usize::MAX, old(self).bytes_written < u64::MAX / 4, entries@.len() < 1000000,
        ensures
            r.is_ok() ==> final(self).file@.bytes == old(self).file@.bytes + frames_of(entries@, entries@.len() as int) && final(self).wf()
                && final(self).entry_count == old(self).entry_count + entries@.len()
                && (final(self).fsync_policy is Always ==> final(self).file@.durable == final(self).file@.bytes.len()),
            old(self).file@.bytes.is_prefix_of(final(self).file@.bytes),
            final(self).fsync_policy == old(self).fsync_policy,
    {
        for entry in it: entries
            invariant
                it.seq().len() == entries@.len(), forall|k: int| 0 <= k < it.seq().len() ==> *(#[trigger] it.seq()[k]) == entries@[k],
                self.wf(), self.fsync_policy == old(self).fsync_policy,
                self.file@.bytes == old(self).file@.bytes + frames_of(entries@, it.index@ as int),
                self.entry_count == old(self).entry_count + it.index@,
                self.bytes_written <= old(self).bytes_written + it.index@ * 104857608,
                old(self).bytes_written < u64::MAX / 4, entries@.len() < 1000000, old(self).entry_count + entries@.len() < usize::MAX,
        {
            self.write_entry(entry)?;
        }
        self.perform_fsync()
    }


}
}
fn main() {}
