// design-phase probe: appended after the extracted real text of normalize_in_place_if_needed (hnsw_backend.rs)
// and HnswVectorIndex::add_vector (hnsw_index.rs) with a no-op AnnBackend and a cheap anyhow stub.
// On the pinned tree: FAILED in 2.0 s (finding F-C03-a).
#[cfg(kani)]
mod proofs {
    use super::*;
    // pair obligation (C03/C15): whatever passes the backend's pre-flight is accepted by the index
    #[kani::proof]
    #[kani::unwind(4)]
    fn preflight_implies_accept() {
        let mut e: [f32; 2] = kani::any();
        let d = match kani::any::<u8>() % 3 { 0 => DistanceMetric::Cosine, 1 => DistanceMetric::Euclidean, _ => DistanceMetric::InnerProduct };
        let mut idx = HnswVectorIndex { backend: Box::new(Nop), dimension: 2, max_elements: 10, current_count: kani::any(), distance: d, disable_normalization_check: false };
        kani::assume(idx.current_count < idx.max_elements); // !is_full, checked under the write gate
        if normalize_in_place_if_needed(d, &mut e).is_ok() {
            let r = idx.add_vector(0, &e);
            assert!(r.is_ok());
        }
    }
}
