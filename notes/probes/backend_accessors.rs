#![feature(allocator_api)]
use vstd::prelude::*;
use std::collections::HashMap;
use vstd::std_specs::hash::*;

macro_rules! debug { ($($t:tt)*) => {} }
macro_rules! error { ($($t:tt)*) => {} }
macro_rules! trace { ($($t:tt)*) => {} }

pub mod anyhow {
    use vstd::prelude::*;
    verus! {
    #[derive(Debug)] pub struct Error { pub x: bool }
    pub type Result<T> = core::result::Result<T, Error>;
    #[verifier::external_body]
    pub fn mk_err() -> Error { unimplemented!() }
    pub trait Context<T>: Sized {
        spec fn ok_val(self) -> Option<T>;
        fn context(self, msg: &str) -> (r: core::result::Result<T, Error>)
            ensures r.is_ok() == self.ok_val().is_some(), r.is_ok() ==> r.unwrap() == self.ok_val().unwrap();
    }
    impl<T, E> Context<T> for core::result::Result<T, E> {
        open spec fn ok_val(self) -> Option<T> { match self { Ok(v) => Some(v), Err(_) => None } }
        #[verifier::external_body]
        fn context(self, msg: &str) -> (r: core::result::Result<T, Error>) { unimplemented!() }
    }
    }
    macro_rules! bail { ($($t:tt)*) => { return Err(crate::anyhow::mk_err()) } }
    pub(crate) use bail;
    macro_rules! anyhow { ($($t:tt)*) => { crate::anyhow::mk_err() } }
    pub(crate) use anyhow;
}

verus! {
use anyhow::{Result, Context};
#[verifier::external_body] pub broadcast proof fn axiom_string_key_model() ensures #[trigger] obeys_key_model::<String>() {}
#[verifier::external_body] pub broadcast proof fn axiom_string_cloned(a: String, b: String) ensures #[trigger] cloned(a, b) ==> a == b {}

pub assume_specification<'a, T: Copy>[Option::<&'a T>::copied](o: Option<&'a T>) -> (r: Option<T>)
    ensures r == (match o { Some(x) => Some(*x), None => None });
pub assume_specification<T: Default>[std::mem::take](t: &mut T) -> (r: T)
    ensures r == *old(t);


#[derive(Debug, Clone, Copy, PartialEq, Eq, Structural)]
pub enum WalOp { Insert = 1, Delete = 2, UpdateMetadata = 3 }
pub struct WalEntry {
    pub op: WalOp,
    pub doc_id: u64,
    pub embedding: Vec<f32>,
    pub metadata: HashMap<String, String>,
    pub seq_no: u64,
    pub timestamp: u64,
}
#[derive(Debug, Clone, Copy, PartialEq, Eq, Structural)]
pub enum DistanceMetric { Cosine, Euclidean, InnerProduct }
#[derive(Debug, Clone, Copy, PartialEq, Eq, Structural)]
pub struct VectorIntegrityDigest { pub hi: u64, pub lo: u64 }
#[derive(Debug, Clone, Copy, PartialEq, Eq, Structural)]
pub struct VectorCoherenceToken { pub version: u64, pub digest: VectorIntegrityDigest }
impl VectorCoherenceToken { pub const fn new(version: u64, digest: VectorIntegrityDigest) -> (r: Self) ensures r.version == version, r.digest == digest { Self { version, digest } } }
pub uninterp spec fn spec_digest(e: Seq<f32>) -> VectorIntegrityDigest;
#[verifier::external_body]
pub fn digest_embedding(e: &[f32]) -> (r: VectorIntegrityDigest) ensures r == spec_digest(e@) { unimplemented!() }

// capability: this exact entry content was accepted by the log
pub uninterp spec fn logged(op: WalOp, doc_id: u64, seq_no: u64, emb: Seq<f32>, meta: Map<String, String>) -> bool;

#[verifier::external_body]
pub struct WalGuard { _p: core::marker::PhantomData<()> }
impl WalGuard {
    #[verifier::external_body]
    pub fn append(&mut self, entry: &WalEntry) -> (r: Result<()>)
        ensures r.is_ok() ==> logged(entry.op, entry.doc_id, entry.seq_no, entry.embedding@, entry.metadata@)
    { unimplemented!() }
}
#[verifier::external_body]
pub struct WalLock { _p: core::marker::PhantomData<()> }
impl WalLock { #[verifier::external_body] pub fn write(&self) -> WalGuard { unimplemented!() } }

#[verifier::external_body]
pub struct CounterGuard { _p: core::marker::PhantomData<()> }
impl CounterGuard { pub uninterp spec fn view(&self) -> usize; }
impl core::ops::Deref for CounterGuard {
    type Target = usize;
    #[verifier::external_body]
    fn deref(&self) -> (r: &usize) ensures *r == self@ { unimplemented!() }
}
impl core::ops::DerefMut for CounterGuard {
    #[verifier::external_body]
    fn deref_mut(&mut self) -> (r: &mut usize) ensures *r == old(self)@, *final(r) == final(self)@ { unimplemented!() }
}
#[verifier::external_body]
pub struct CounterLock { _p: core::marker::PhantomData<()> }
impl CounterLock { #[verifier::external_body] pub fn write(&self) -> (g: CounterGuard) ensures g@ < usize::MAX { unimplemented!() } }

#[verifier::external_body]
pub struct PathBuf { _p: core::marker::PhantomData<()> }
impl PathBuf {
    #[verifier::external_body] pub fn join(&self, s: &str) -> PathBuf { unimplemented!() }
    #[verifier::external_body] pub fn exists(&self) -> bool { unimplemented!() }
    #[verifier::external_body] pub fn display(&self) -> u8 { unimplemented!() }
}
#[verifier::external_body]
fn check_and_warn_disk_space(p: &PathBuf) -> Result<bool> { unimplemented!() }
const DISK_SPACE_CRITICAL_THRESHOLD: f64 = 0.05;

#[verifier::external_body]
pub struct SeqCounter { _p: core::marker::PhantomData<()> }
pub enum Ordering { SeqCst }
impl SeqCounter { #[verifier::external_body] pub fn fetch_add(&self, n: u64, o: Ordering) -> u64 { unimplemented!() } }
#[verifier::external_body]
pub struct Flag { _p: core::marker::PhantomData<()> }
impl Flag {
    #[verifier::external_body] pub fn load(&self, o: Ordering) -> bool { unimplemented!() }
    #[verifier::external_body] pub fn store(&self, v: bool, o: Ordering) { unimplemented!() }
}
#[verifier::external_body]
pub struct LockUnit { _p: core::marker::PhantomData<()> }
impl LockUnit {
    #[verifier::external_body] pub fn read(&self) -> u8 { unimplemented!() }
    #[verifier::external_body] pub fn lock(&self) -> u8 { unimplemented!() }
}
#[verifier::external_body]
pub fn drop<T>(t: T) { unimplemented!() }

struct PersistenceState {
    data_dir: PathBuf,
    wal: WalLock,
    inserts_since_snapshot: CounterLock,
    snapshot_interval: usize,
    next_wal_seq: SeqCounter,
    snapshot_lock: LockUnit,
}
impl PersistenceState {
    #[verifier::external_body]
    fn rotate_wal_if_needed(&self, wal_guard: &mut WalGuard) -> Result<bool> { unimplemented!() }
}

struct DocumentStore {
    embeddings: Vec<Vec<f32>>,
    metadata: Vec<HashMap<String, String>>,
    versions: Vec<u64>,
    digests: Vec<VectorIntegrityDigest>,
    external_to_internal: HashMap<u64, usize>,
    internal_to_external: Vec<Option<u64>>,
}
impl DocumentStore {
    spec fn wf(&self) -> bool {
        let n = self.embeddings@.len();
        &&& self.metadata@.len() == n
        &&& self.versions@.len() == n
        &&& self.digests@.len() == n
        &&& self.internal_to_external@.len() == n
        &&& forall|d: u64| #[trigger] self.external_to_internal@.contains_key(d) ==>
                self.external_to_internal@[d] < n && self.internal_to_external@[self.external_to_internal@[d] as int] == Some(d)
        &&& forall|i: int| 0 <= i < n && (#[trigger] self.internal_to_external@[i]).is_some() ==>
                self.external_to_internal@.contains_key(self.internal_to_external@[i].unwrap())
                && self.external_to_internal@[self.internal_to_external@[i].unwrap()] == i
    }
    spec fn view(&self) -> Map<u64, (Seq<f32>, Map<String, String>)> {
        Map::new(
            self.external_to_internal@.dom(),
            |d: u64| (self.embeddings@[self.external_to_internal@[d] as int]@, self.metadata@[self.external_to_internal@[d] as int]@),
        )
    }
}
#[verifier::external_body]
fn vx_count_tombstones(s: &DocumentStore) -> usize { unimplemented!() }

#[verifier::external_body]
pub struct MetadataInvertedIndex { _p: core::marker::PhantomData<()> }
impl MetadataInvertedIndex {
    #[verifier::external_body] fn remove_doc(&mut self, doc_id: u64, metadata: &HashMap<String, String>) { unimplemented!() }
    #[verifier::external_body] fn insert_doc(&mut self, doc_id: u64, metadata: &HashMap<String, String>) { unimplemented!() }
}
#[verifier::external_body]
pub struct HnswVectorIndex { _p: core::marker::PhantomData<()> }
impl HnswVectorIndex {
    #[verifier::external_body] fn distance_metric(&self) -> DistanceMetric { unimplemented!() }
    #[verifier::external_body] fn is_full(&self) -> bool { unimplemented!() }
    #[verifier::external_body] fn len(&self) -> usize { unimplemented!() }
    #[verifier::external_body] fn capacity(&self) -> usize { unimplemented!() }
    #[verifier::external_body] fn add_vector(&mut self, id: u64, e: &[f32]) -> Result<()> { unimplemented!() }
    #[verifier::external_body] fn complete_sequential_inserts(&mut self) { unimplemented!() }
}
#[verifier::external_body]
fn normalize_in_place_if_needed(distance: DistanceMetric, embedding: &mut Vec<f32>) -> (r: Result<()>)
    ensures r.is_err() ==> final(embedding)@ == old(embedding)@, final(embedding)@.len() == old(embedding)@.len()
{ unimplemented!() }

pub struct HnswBackend {
    index: HnswVectorIndex,
    doc_store: DocumentStore,
    metadata_index: MetadataInvertedIndex,
    persistence: Option<PersistenceState>,
    wal_inconsistent: Flag,
    write_gate: LockUnit,
}

impl HnswBackend {
    #[verifier::external_body] fn timestamp() -> u64 { unimplemented!() }
    #[verifier::external_body] fn dimension(&self) -> usize { unimplemented!() }
    #[verifier::external_body] fn create_snapshot(&mut self) -> (r: Result<()>)
        ensures final(self).doc_store == old(self).doc_store, final(self).persistence.is_some() == old(self).persistence.is_some() { unimplemented!() }
    #[verifier::external_body] fn compact_tombstones(&mut self) -> (r: Result<usize>)
        ensures final(self).doc_store.wf(), final(self).doc_store@ == old(self).doc_store@, final(self).persistence.is_some() == old(self).persistence.is_some() { unimplemented!() }

    fn exists(&self, doc_id: u64) -> (r: bool)
        ensures r == self.doc_store@.contains_key(doc_id),
    {
        broadcast use vstd::std_specs::hash::group_hash_axioms;
        self.doc_store
            .external_to_internal
            .contains_key(&doc_id)
    }

    fn fetch_document(&self, doc_id: u64) -> (r: Option<Vec<f32>>)
        requires self.doc_store.wf(),
        ensures r.is_some() == self.doc_store@.contains_key(doc_id), r.is_some() ==> r.unwrap()@ == self.doc_store@[doc_id].0,
    {
        broadcast use vstd::std_specs::hash::group_hash_axioms;
        let store = &self.doc_store;
        let internal_id = store.external_to_internal.get(&doc_id)?;
        store.embeddings.get(*internal_id).cloned()
    }

    /// Fetch document embedding with canonical coherence token.
    fn fetch_document_with_coherence(
        &self,
        doc_id: u64,
    ) -> Option<(Vec<f32>, VectorCoherenceToken)> {
        let store = &self.doc_store;
        let internal_id = store.external_to_internal.get(&doc_id)?;
        let embedding = store.embeddings.get(*internal_id)?.clone();
        let version = *store.versions.get(*internal_id)?;
        let digest = *store.digests.get(*internal_id)?;
        Some((embedding, VectorCoherenceToken::new(version, digest)))
    }

    /// Fetch document metadata by ID (O(1) lookup)
    fn fetch_metadata(&self, doc_id: u64) -> (r: Option<HashMap<String, String>>)
        requires self.doc_store.wf(),
        ensures r.is_some() == self.doc_store@.contains_key(doc_id), r.is_some() ==> r.unwrap()@ =~= self.doc_store@[doc_id].1,
    {
        broadcast use vstd::std_specs::hash::group_hash_axioms; broadcast use axiom_string_key_model; broadcast use axiom_string_cloned;
        let store = &self.doc_store;
        let internal_id = store.external_to_internal.get(&doc_id)?;
        store.metadata.get(*internal_id).cloned()
    }

    /// Return the current canonical coherence token for an active document.
    fn current_coherence_token(&self, doc_id: u64) -> (r: Option<VectorCoherenceToken>)
        requires self.doc_store.wf(),
        ensures r.is_some() == self.doc_store@.contains_key(doc_id),
            r.is_some() ==> r.unwrap().version == self.doc_store.versions@[self.doc_store.external_to_internal@[doc_id] as int]
                && r.unwrap().digest == self.doc_store.digests@[self.doc_store.external_to_internal@[doc_id] as int],
    {
        broadcast use vstd::std_specs::hash::group_hash_axioms;
        let store = &self.doc_store;
        let internal_id = store.external_to_internal.get(&doc_id)?;
        Some(VectorCoherenceToken::new(
            *store.versions.get(*internal_id)?,
            *store.digests.get(*internal_id)?,
        ))
    }

    /// Bulk fetch documents by ID (O(1) lookup)
    ///
    /// Returns a vector of Option<(embedding, metadata)> corresponding to input IDs.
    /// Amortizes lock acquisition cost.
    fn bulk_fetch(&self, doc_ids: &[u64]) -> Vec<Option<(Vec<f32>, HashMap<String, String>)>> {
        let store = &self.doc_store;

        doc_ids
            .iter()
            .map(|id_ref: &u64| {
                let id = *id_ref;
                let internal_id = store.external_to_internal.get(&id)?;
                let emb = store.embeddings.get(*internal_id)?;
                let meta = store.metadata.get(*internal_id)?;
                Some((emb.clone(), meta.clone()))
            })
            .collect()
    }
    fn bulk_fetch_with_coherence(
        &self,
        doc_ids: &[u64],
    ) -> Vec<Option<(Vec<f32>, HashMap<String, String>, VectorCoherenceToken)>> {
        let store = &self.doc_store;

        doc_ids
            .iter()
            .map(|id_ref: &u64| {
                let id = *id_ref;
                let internal_id = store.external_to_internal.get(&id)?;
                let emb = store.embeddings.get(*internal_id)?;
                let meta = store.metadata.get(*internal_id)?;
                let version = store.versions.get(*internal_id)?;
                let digest = store.digests.get(*internal_id)?;
                Some((
                    emb.clone(),
                    meta.clone(),
                    VectorCoherenceToken::new(*version, *digest),
                ))
            })
            .collect()
    }


}
}
fn main() {}
