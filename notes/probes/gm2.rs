#![feature(allocator_api)]
use vstd::prelude::*;
use std::collections::HashMap;
use std::hash::Hash;
use std::hash::BuildHasher;
use std::borrow::Borrow;
use std::alloc::Allocator;
use vstd::std_specs::hash::*;

verus! {

pub assume_specification<'a, K, V, S, A, Q>
    [HashMap::<K, V, S, A>::get_mut::<Q>](m: &'a mut HashMap<K, V, S, A>, k: &Q) -> (r: Option<&'a mut V>)
    where
        A: Allocator,
        K: Eq + Hash + Borrow<Q>,
        Q: Hash + Eq + ?Sized,
        S: BuildHasher,
    ensures
        obeys_key_model::<K>() && builds_valid_hashers::<S>() ==> (match r {
            Some(v) => contains_borrowed_key(old(m)@, k) && maps_borrowed_key_to_value(old(m)@, k, *v)
                && final(m)@.dom() == old(m)@.dom()
                && maps_borrowed_key_to_value(final(m)@, k, *final(v))
                && (forall|kk: K| #[trigger] old(m)@.contains_key(kk) && contains_borrowed_key(old(m)@.remove(kk), k) ==> final(m)@[kk] == old(m)@[kk]),
            None => !contains_borrowed_key(old(m)@, k) && final(m)@ == old(m)@,
        });

struct Node<K> { prev: Option<K>, next: Option<K> }

fn set_next<K: Eq + Hash + Copy>(m: &mut HashMap<K, Node<K>>, key: K, nx: Option<K>)
    requires obeys_key_model::<K>(),
    ensures
        old(m)@.contains_key(key) ==> final(m)@ == old(m)@.insert(key, Node { prev: old(m)@[key].prev, next: nx }),
        !old(m)@.contains_key(key) ==> final(m)@ == old(m)@,
{
    broadcast use vstd::std_specs::hash::group_hash_axioms;
    if let Some(node) = m.get_mut(&key) {
        node.next = nx;
    }
    assert(old(m)@.contains_key(key) ==> final(m)@ =~= old(m)@.insert(key, Node { prev: old(m)@[key].prev, next: nx }));
}

} // verus!
fn main() {}
