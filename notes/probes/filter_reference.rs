use vstd::prelude::*;
use std::collections::HashMap;
use vstd::std_specs::hash::*;
use vstd::std_specs::cmp::*;
verus! {
#[verifier::external_body] pub broadcast proof fn axiom_string_ext(a: String, b: String) ensures #![trigger a@, b@] (a@ == b@) == (a == b) {}
#[verifier::external_body] pub broadcast proof fn axiom_string_key_model() ensures #[trigger] obeys_key_model::<String>() {}
#[verifier::external_body] pub broadcast proof fn axiom_string_eq_spec(a: String, b: String) ensures #![trigger a.eq_spec(&b)] (a.eq_spec(&b) == (a@ == b@)) {}
#[verifier::external_body] pub broadcast proof fn axiom_string_obeys_eq() ensures #[trigger] <String as PartialEqSpec>::obeys_eq_spec() {}
pub broadcast group group_string { axiom_string_ext, axiom_string_key_model, axiom_string_eq_spec, axiom_string_obeys_eq }

pub mod proto {
    pub struct ExactMatch { pub key: String, pub value: String }
    pub struct InMatch { pub key: String, pub values: Vec<String> }
    pub struct AndFilter { pub filters: Vec<MetadataFilter> }
    pub struct OrFilter { pub filters: Vec<MetadataFilter> }
    pub struct NotFilter { pub filter: Option<Box<MetadataFilter>> }
    pub struct RangeMatch { pub key: String, pub bound: Option<range_match::Bound> }
    pub mod range_match { pub enum Bound { Gte(String), Lte(String), Gt(String), Lt(String) } }
    pub mod metadata_filter {
        pub enum FilterType {
            Exact(super::ExactMatch),
            Range(super::RangeMatch),
            InMatch(super::InMatch),
            AndFilter(super::AndFilter),
            OrFilter(super::OrFilter),
            NotFilter(Box<super::NotFilter>),
        }
    }
    pub struct MetadataFilter { pub filter_type: Option<metadata_filter::FilterType> }
}
use crate::proto::{
    metadata_filter::FilterType, AndFilter, ExactMatch, InMatch, MetadataFilter, NotFilter,
    OrFilter, RangeMatch,
};
use crate::proto::metadata_filter::FilterType as FT;
pub type Meta = Map<String, String>;
#[derive(Debug)] pub struct ParseErr { pub x: u8 }
pub uninterp spec fn spec_parse_f64(s: Seq<char>) -> Option<f64>;
#[verifier::external_body]
pub fn vx_parse_f64(s: &String) -> (r: Result<f64, ParseErr>)
    ensures r.is_ok() == spec_parse_f64(s@).is_some(), r.is_ok() ==> r.unwrap() == spec_parse_f64(s@).unwrap() { unimplemented!() }
#[verifier::external_body]
pub fn vx_contains_string(v: &Vec<String>, x: &String) -> (r: bool)
    ensures r == exists|k: int| 0 <= k < v@.len() && x@ == (#[trigger] v@[k])@ { unimplemented!() }

pub open spec fn matches_spec(f: &MetadataFilter, m: Meta) -> bool
    decreases f
{
    match f.filter_type {
        None => true,
        Some(FT::Exact(e)) => m.contains_key(e.key) && m[e.key]@ == e.value@,
        Some(FT::InMatch(i)) => m.contains_key(i.key) && exists|k: int| 0 <= k < i.values@.len() && m[i.key]@ == (#[trigger] i.values@[k])@,
        Some(FT::Range(r)) => true, // range clause checked separately in this probe
        Some(FT::AndFilter(a)) => forall|k: int| 0 <= k < a.filters@.len() ==> matches_spec(&(#[trigger] a.filters@[k]), m),
        Some(FT::OrFilter(o)) => exists|k: int| 0 <= k < o.filters@.len() && matches_spec(&(#[trigger] o.filters@[k]), m),
        Some(FT::NotFilter(n)) => match n.filter { Some(sub) => !matches_spec(&*sub, m), None => false },
    }
}
/// Evaluates if a document's metadata matches the given filter.
#[verifier::exec_allows_no_decreases_clause]
fn matches(filter: &MetadataFilter, metadata: &HashMap<String, String>) -> (r: bool)
    ensures !(filter.filter_type matches Some(FT::Range(_))) ==> r == matches_spec(filter, metadata@),
{
    broadcast use group_string; broadcast use vstd::std_specs::hash::group_hash_axioms;
    match &filter.filter_type {
        Some(FilterType::Exact(f)) => matches_exact(f, metadata),
        Some(FilterType::Range(f)) => matches_range(f, metadata),
        Some(FilterType::InMatch(f)) => matches_in(f, metadata),
        Some(FilterType::AndFilter(f)) => matches_and(f, metadata),
        Some(FilterType::OrFilter(f)) => matches_or(f, metadata),
        Some(FilterType::NotFilter(f)) => matches_not(f, metadata),
        None => true, // Empty filter matches everything
    }
}

#[verifier::exec_allows_no_decreases_clause]
fn matches_exact(filter: &ExactMatch, metadata: &HashMap<String, String>) -> (r: bool)
    ensures r == (metadata@.contains_key(filter.key) && metadata@[filter.key]@ == filter.value@),
{
    broadcast use group_string; broadcast use vstd::std_specs::hash::group_hash_axioms;
    match metadata.get(&filter.key) {
        Some(val) => val == &filter.value,
        None => false,
    }
}

#[verifier::exec_allows_no_decreases_clause]
fn matches_range(filter: &RangeMatch, metadata: &HashMap<String, String>) -> bool {
    let val_str = match metadata.get(&filter.key) {
        Some(v) => v,
        None => return false,
    };

    // Try parsing as number first
    if let (Ok(val_num), Ok(bound_num)) = (
        vx_parse_f64(val_str),
        vx_parse_f64(&get_bound_value(filter)),
    ) {
        return match &filter.bound {
            Some(crate::proto::range_match::Bound::Gte(_)) => val_num >= bound_num,
            Some(crate::proto::range_match::Bound::Lte(_)) => val_num <= bound_num,
            Some(crate::proto::range_match::Bound::Gt(_)) => val_num > bound_num,
            Some(crate::proto::range_match::Bound::Lt(_)) => val_num < bound_num,
            None => true,
        };
    }

    // Fallback to string comparison (works for ISO8601 dates)
    let bound_str = get_bound_value(filter);
    match &filter.bound {
        Some(crate::proto::range_match::Bound::Gte(_)) => val_str >= &bound_str,
        Some(crate::proto::range_match::Bound::Lte(_)) => val_str <= &bound_str,
        Some(crate::proto::range_match::Bound::Gt(_)) => val_str > &bound_str,
        Some(crate::proto::range_match::Bound::Lt(_)) => val_str < &bound_str,
        None => true,
    }
}

fn get_bound_value(filter: &RangeMatch) -> String {
    match &filter.bound {
        Some(crate::proto::range_match::Bound::Gte(v)) => v.clone(),
        Some(crate::proto::range_match::Bound::Lte(v)) => v.clone(),
        Some(crate::proto::range_match::Bound::Gt(v)) => v.clone(),
        Some(crate::proto::range_match::Bound::Lt(v)) => v.clone(),
        None => String::new(),
    }
}

#[verifier::exec_allows_no_decreases_clause]
fn matches_in(filter: &InMatch, metadata: &HashMap<String, String>) -> (r: bool)
    ensures r == (metadata@.contains_key(filter.key) && exists|k: int| 0 <= k < filter.values@.len() && metadata@[filter.key]@ == (#[trigger] filter.values@[k])@),
{
    broadcast use group_string; broadcast use vstd::std_specs::hash::group_hash_axioms;
    match metadata.get(&filter.key) {
        Some(val) => vx_contains_string(&filter.values, val),
        None => false,
    }
}

#[verifier::exec_allows_no_decreases_clause]
fn matches_and(filter: &AndFilter, metadata: &HashMap<String, String>) -> (r: bool)
    ensures (forall|k: int| 0 <= k < filter.filters@.len() ==> !((#[trigger] filter.filters@[k]).filter_type matches Some(FT::Range(_)))) ==> r == (forall|k: int| 0 <= k < filter.filters@.len() ==> matches_spec(&(#[trigger] filter.filters@[k]), metadata@)),
{
    for sub_filter in &filter.filters {
        if !matches(sub_filter, metadata) {
            return false;
        }
    }
    true
}

#[verifier::exec_allows_no_decreases_clause]
fn matches_or(filter: &OrFilter, metadata: &HashMap<String, String>) -> bool {
    if filter.filters.is_empty() {
        return false; // Empty OR is false (SQL semantics)
    }
    for sub_filter in &filter.filters {
        if matches(sub_filter, metadata) {
            return true;
        }
    }
    false
}

#[verifier::exec_allows_no_decreases_clause]
fn matches_not(filter: &NotFilter, metadata: &HashMap<String, String>) -> (r: bool)
    ensures (filter.filter matches Some(sub) && !(sub.filter_type matches Some(FT::Range(_)))) || filter.filter.is_none() ==> r == (match filter.filter { Some(sub) => !matches_spec(&*sub, metadata@), None => false }),
{
    match &filter.filter {
        Some(sub_filter) => !matches(sub_filter, metadata),
        None => false, // NOT (Empty) -> NOT (True) -> False
    }
}


}
fn main() {}
