use vstd::prelude::*;
verus! {

#[verifier::external_body]
#[verifier::reject_recursive_types(T)]
pub struct Bm<T> { _p: core::marker::PhantomData<T> }

impl<T> Bm<T> {
    pub uninterp spec fn view(&self) -> Set<u64>;
    #[verifier::external_body]
    pub fn new() -> (r: Self) ensures r@ == Set::<u64>::empty() { unimplemented!() }
}
impl<T> Clone for Bm<T> {
    #[verifier::external_body]
    fn clone(&self) -> (r: Self) ensures r@ == self@ { unimplemented!() }
}

impl<T> core::ops::BitOrAssign<Bm<T>> for Bm<T> {
    #[verifier::external_body]
    fn bitor_assign(&mut self, rhs: Bm<T>)
        ensures final(self)@ == old(self)@.union(rhs@)
    { unimplemented!() }
}
impl<'a, T> core::ops::SubAssign<&'a Bm<T>> for Bm<T> {
    #[verifier::external_body]
    fn sub_assign(&mut self, rhs: &'a Bm<T>)
        ensures final(self)@ == old(self)@.difference(rhs@)
    { unimplemented!() }
}

impl<T> vstd::std_specs::ops::BitOrAssignSpecImpl<Bm<T>> for Bm<T> {
    open spec fn obeys_bitor_assign_spec() -> bool { false }
    open spec fn bitor_assign_req(&self, rhs: Bm<T>) -> bool { true }
    open spec fn bitor_assign_spec(&self, rhs: Bm<T>) -> &Self { self }
}
impl<'a, T> vstd::std_specs::ops::SubAssignSpecImpl<&'a Bm<T>> for Bm<T> {
    open spec fn obeys_sub_assign_spec() -> bool { false }
    open spec fn sub_assign_req(&self, rhs: &'a Bm<T>) -> bool { true }
    open spec fn sub_assign_spec(&self, rhs: &'a Bm<T>) -> &Self { self }
}
fn t(a: Bm<u8>, b: Bm<u8>, c: &Bm<u8>) -> (r: Bm<u8>)
    ensures r@ == a@.union(b@).difference(c@)
{
    let mut out = a.clone();
    out |= b;
    out -= c;
    out
}
}
fn main() {}
