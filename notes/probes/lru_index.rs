#![feature(allocator_api)]
macro_rules! debug_assert { ($($t:tt)*) => {} }
use vstd::prelude::*;
use std::collections::HashMap;
use std::hash::Hash;
use std::hash::BuildHasher;
use std::borrow::Borrow;
use std::alloc::Allocator;
use vstd::std_specs::hash::*;
use vstd::std_specs::cmp::*;

verus! {

pub open spec fn key_is<K, Q: ?Sized>(key: K, k: &Q, dummy_v: int) -> bool
    where K: Borrow<Q>
{
    contains_borrowed_key(Map::<K, int>::empty().insert(key, dummy_v), k)
}

pub assume_specification<'a, K, V, S, A, Q>
    [HashMap::<K, V, S, A>::get_mut::<Q>](m: &'a mut HashMap<K, V, S, A>, k: &Q) -> (r: Option<&'a mut V>)
    where
        A: Allocator,
        K: Eq + Hash + Borrow<Q>,
        Q: Hash + Eq + ?Sized,
        S: BuildHasher,
    ensures
        obeys_key_model::<K>() && builds_valid_hashers::<S>() ==> (match r {
            Some(v) => contains_borrowed_key(old(m)@, k) && maps_borrowed_key_to_value(old(m)@, k, *v)
                && (forall|key: K| #[trigger] key_is::<K, Q>(key, k, 0) ==> final(m)@ == old(m)@.insert(key, *final(v))),
            None => !contains_borrowed_key(old(m)@, k) && final(m)@ == old(m)@,
        });
pub assume_specification<'a, T: Copy>[Option::<&'a T>::copied](o: Option<&'a T>) -> (r: Option<T>)
    ensures r == (match o { Some(x) => Some(*x), None => None });

#[derive(Clone, Copy)]
struct LruNode<K> {
    prev: Option<K>,
    next: Option<K>,
}

pub(crate) struct LruIndex<K>
where
    K: Eq + Hash + Copy,
{
    nodes: HashMap<K, LruNode<K>>,
    head: Option<K>,
    tail: Option<K>,
}

pub open spec fn eq_is_structural<K: PartialEq>() -> bool {
    <K as PartialEqSpec>::obeys_eq_spec() && forall|x: K, y: K| #[trigger] x.eq_spec(&y) <==> x == y
}
pub open spec fn prev_of<K>(order: Seq<K>, i: int) -> Option<K> { if i == 0 { None } else { Some(order[i - 1]) } }
pub open spec fn next_of<K>(order: Seq<K>, i: int) -> Option<K> { if i == order.len() - 1 { None } else { Some(order[i + 1]) } }
pub open spec fn first_of<K>(order: Seq<K>) -> Option<K> { if order.len() == 0 { None } else { Some(order[0]) } }
pub open spec fn last_of<K>(order: Seq<K>) -> Option<K> { if order.len() == 0 { None } else { Some(order[order.len() - 1]) } }

// every element of `order` except position `skip` has a node whose links agree with `order`
spec fn links_ok<K>(nodes: Map<K, LruNode<K>>, order: Seq<K>, skip: int) -> bool {
    &&& order.no_duplicates()
    &&& forall|i: int| 0 <= i < order.len() && i != skip ==> #[trigger] nodes.contains_key(order[i])
    &&& forall|i: int| 0 <= i < order.len() && i != skip ==> (#[trigger] nodes[order[i]]).prev == prev_of(order, i)
    &&& forall|i: int| 0 <= i < order.len() && i != skip ==> (#[trigger] nodes[order[i]]).next == next_of(order, i)
}

impl<K> LruIndex<K>
where
    K: Eq + Hash + Copy,
{
    spec fn wf_with(&self, order: Seq<K>) -> bool {
        &&& links_ok(self.nodes@, order, -1)
        &&& self.head == first_of(order)
        &&& self.tail == last_of(order)
        &&& forall|k: K| self.nodes@.contains_key(k) ==> order.contains(k)
    }
    spec fn wf(&self) -> bool { exists|order: Seq<K>| self.wf_with(order) }

    fn detach(&mut self, key: K, prev: Option<K>, next: Option<K>)
        requires
            obeys_key_model::<K>(), eq_is_structural::<K>(),
            prev.is_some() ==> key_is::<K, K>(prev.unwrap(), &prev.unwrap(), 0),
            next.is_some() ==> key_is::<K, K>(next.unwrap(), &next.unwrap(), 0),
        ensures
            final(self).nodes@.dom() == old(self).nodes@.dom(),
            final(self).nodes@.contains_key(key) && prev != Some(key) && next != Some(key) ==> final(self).nodes@[key] == old(self).nodes@[key],
            forall|order: Seq<K>, i: int| #![trigger order.remove(i)] 0 <= i < order.len() && order[i] == key
                && prev == prev_of(order, i) && next == next_of(order, i)
                && links_ok(old(self).nodes@, order, i) && old(self).head == first_of(order) && old(self).tail == last_of(order)
                ==> links_ok(final(self).nodes@, order.remove(i), -1)
                    && final(self).head == first_of(order.remove(i)) && final(self).tail == last_of(order.remove(i)),
    {
        broadcast use vstd::std_specs::hash::group_hash_axioms;
        let ghost n0 = self.nodes@;
        if let Some(prev_key) = prev {
            if let Some(node) = self.nodes.get_mut(&prev_key) {
                node.next = next;
            }
        } else {
            self.head = next;
        }
        let ghost n1 = self.nodes@;

        if let Some(next_key) = next {
            if let Some(node) = self.nodes.get_mut(&next_key) {
                node.prev = prev;
            }
        } else {
            self.tail = prev;
        }
        let ghost n2 = self.nodes@;

        if self.head == Some(key) {
            self.head = next;
        }
        if self.tail == Some(key) {
            self.tail = prev;
        }
        proof {
            assert(n1.dom() =~= n0.dom());
            assert(n2.dom() =~= n1.dom());
            assert forall|order: Seq<K>, i: int| #![trigger order.remove(i)] 0 <= i < order.len() && order[i] == key
                && prev == prev_of(order, i) && next == next_of(order, i)
                && links_ok(n0, order, i) && old(self).head == first_of(order) && old(self).tail == last_of(order)
                implies links_ok(n2, order.remove(i), -1)
                    && self.head == first_of(order.remove(i)) && self.tail == last_of(order.remove(i)) by {
                let o2 = order.remove(i);
                let len = order.len() as int;
                assert(o2.len() == len - 1);
                assert forall|j: int| 0 <= j < o2.len() implies o2[j] == (if j < i { order[j] } else { order[j + 1] }) by {}
                assert(o2.no_duplicates()) by {
                    assert forall|a: int, b: int| 0 <= a < o2.len() && 0 <= b < o2.len() && a != b implies o2[a] != o2[b] by {
                        let aa = if a < i { a } else { a + 1 }; let bb = if b < i { b } else { b + 1 };
                        assert(order[aa] != order[bb]);
                    }
                }
                // what the two updates did
                if i > 0 {
                    assert(prev == Some(order[i - 1]));
                    assert(n0.contains_key(order[i - 1]));
                    assert(n1 == n0.insert(order[i - 1], LruNode { prev: n0[order[i - 1]].prev, next: next }));
                } else { assert(n1 == n0); }
                if i < len - 1 {
                    assert(next == Some(order[i + 1]));
                    assert(n0.contains_key(order[i + 1]));
                    assert(n1.contains_key(order[i + 1]));
                    assert(n2 == n1.insert(order[i + 1], LruNode { prev: prev, next: n1[order[i + 1]].next }));
                } else { assert(n2 == n1); }
                assert forall|j: int| 0 <= j < o2.len() implies #[trigger] n2.contains_key(o2[j]) by {
                    let jj = if j < i { j } else { j + 1 };
                    assert(n0.contains_key(order[jj]));
                }
                assert forall|j: int| 0 <= j < o2.len() implies (#[trigger] n2[o2[j]]).prev == prev_of(o2, j) by {
                    let jj = if j < i { j } else { j + 1 };
                    assert(o2[j] == order[jj]);
                    assert(n0[order[jj]].prev == prev_of(order, jj));
                    if jj == i + 1 { } else {
                        if i < len - 1 { assert(order[jj] != order[i + 1]); }
                        if i > 0 && jj != i - 1 { assert(order[jj] != order[i - 1]); }
                    }
                }
                assert forall|j: int| 0 <= j < o2.len() implies (#[trigger] n2[o2[j]]).next == next_of(o2, j) by {
                    let jj = if j < i { j } else { j + 1 };
                    assert(o2[j] == order[jj]);
                    assert(n0[order[jj]].next == next_of(order, jj));
                    if jj == i - 1 {
                        if i < len - 1 { assert(order[i - 1] != order[i + 1]); }
                    } else {
                        if i > 0 { assert(order[jj] != order[i - 1]); }
                        if i < len - 1 && jj != i + 1 { assert(order[jj] != order[i + 1]); }
                    }
                }
                // head / tail
                if i == 0 { assert(old(self).head == Some(key)); }
                else { assert(old(self).head == Some(order[0])); assert(order[0] != order[i]); }
                if i == len - 1 { assert(old(self).tail == Some(key)); }
                else { assert(old(self).tail == Some(order[len - 1])); assert(order[len - 1] != order[i]); }
            }
        }
    }

    spec fn keys(&self) -> Set<K> { self.nodes@.dom() }

    fn len(&self) -> (r: usize) requires obeys_key_model::<K>(), ensures r == self.nodes@.len() {
        broadcast use vstd::std_specs::hash::group_hash_axioms;
        self.nodes.len()
    }

    fn contains(&self, key: K) -> (r: bool)
        requires obeys_key_model::<K>(),
        ensures r == self.nodes@.contains_key(key),
    {
        broadcast use vstd::std_specs::hash::group_hash_axioms;
        self.nodes.contains_key(&key)
    }

    fn clear(&mut self)
        ensures final(self).wf(), final(self).keys() == Set::<K>::empty(),
    {
        self.nodes.clear();
        self.head = None;
        self.tail = None;
        proof { assert(self.wf_with(Seq::<K>::empty())); assert(self.keys() =~= Set::<K>::empty()); }
    }

    fn touch(&mut self, key: K) -> (r: bool)
        requires old(self).wf(), obeys_key_model::<K>(), eq_is_structural::<K>(),
        ensures final(self).wf(), final(self).keys() == old(self).keys(), r == old(self).keys().contains(key),
    {
        broadcast use vstd::std_specs::hash::group_hash_axioms;
        let ghost order = choose|o: Seq<K>| self.wf_with(o);
        let Some(node) = self.nodes.get(&key).copied() else {
            return false;
        };
        if self.tail == Some(key) {
            return true;
        }
        let ghost i = choose|i: int| 0 <= i < order.len() && order[i] == key;
        proof {
            assert(order.contains(key));
            assert(node.prev == prev_of(order, i) && node.next == next_of(order, i));
            assert(links_ok(self.nodes@, order, i));
            if node.prev.is_some() { assert(key_is::<K, K>(node.prev.unwrap(), &node.prev.unwrap(), 0)); }
            if node.next.is_some() { assert(key_is::<K, K>(node.next.unwrap(), &node.next.unwrap(), 0)); }
        }

        self.detach(key, node.prev, node.next);
        let ghost o2 = order.remove(i);
        let ghost n1 = self.nodes@;
        proof { assert(links_ok(n1, o2, -1)); assert(key_is::<K, K>(key, &key, 0)); }

        let old_tail = self.tail;
        if let Some(tail) = old_tail {
            proof { assert(key_is::<K, K>(tail, &tail, 0)); }
            if let Some(tail_node) = self.nodes.get_mut(&tail) {
                tail_node.next = Some(key);
            }
        } else {
            self.head = Some(key);
        }
        let ghost n2 = self.nodes@;

        if let Some(node) = self.nodes.get_mut(&key) {
            node.prev = old_tail;
            node.next = None;
        }
        self.tail = Some(key);
        proof {
            let o3 = o2.push(key);
            assert(!o2.contains(key)) by {
                if o2.contains(key) { let j = choose|j: int| 0 <= j < o2.len() && o2[j] == key; let jj = if j < i { j } else { j + 1 }; assert(order[jj] == order[i]); }
            }
            assert(o3.no_duplicates());
            assert(n1.contains_key(key));
            if o2.len() > 0 {
                let t = o2[o2.len() - 1];
                assert(old_tail == Some(t));
                assert(n1.contains_key(t));
                assert(n2 == n1.insert(t, LruNode { prev: n1[t].prev, next: Some(key) }));
            } else { assert(n2 == n1); }
            assert(n2.contains_key(key));
            assert(self.nodes@ == n2.insert(key, LruNode { prev: old_tail, next: None }));
            assert forall|j: int| 0 <= j < o3.len() implies #[trigger] self.nodes@.contains_key(o3[j]) by {
                if j < o2.len() { assert(n1.contains_key(o2[j])); }
            }
            assert forall|j: int| 0 <= j < o3.len() implies (#[trigger] self.nodes@[o3[j]]).prev == prev_of(o3, j) by {
                if j < o2.len() { assert(o3[j] == o2[j]); assert(n1[o2[j]].prev == prev_of(o2, j)); assert(o2[j] != key); }
            }
            assert forall|j: int| 0 <= j < o3.len() implies (#[trigger] self.nodes@[o3[j]]).next == next_of(o3, j) by {
                if j < o2.len() { assert(o3[j] == o2[j]); assert(n1[o2[j]].next == next_of(o2, j)); assert(o2[j] != key);
                    if j < o2.len() - 1 { assert(o2[j] != o2[o2.len() - 1]); } }
            }
            assert(links_ok(self.nodes@, o3, -1));
            assert(self.nodes@.dom() =~= old(self).nodes@.dom());
            assert forall|k: K| self.nodes@.contains_key(k) implies o3.contains(k) by {
                assert(order.contains(k));
                let j = choose|j: int| 0 <= j < order.len() && order[j] == k;
                if j == i { assert(o3[o3.len() - 1] == k); } else { let jj = if j < i { j } else { j - 1 }; assert(o2[jj] == k); assert(o3[jj] == k); }
            }
            assert(self.wf_with(o3));
        }
        true
    }

    fn remove(&mut self, key: K) -> (r: bool)
        requires old(self).wf(), obeys_key_model::<K>(), eq_is_structural::<K>(),
        ensures final(self).wf(), final(self).keys() == old(self).keys().remove(key), r == old(self).keys().contains(key),
            forall|o: Seq<K>| old(self).wf_with(o) && o.len() > 0 && o[0] == key ==> final(self).wf_with(o.remove(0)),
    {
        broadcast use vstd::std_specs::hash::group_hash_axioms;
        let ghost n0 = self.nodes@;
        let Some(node) = self.nodes.remove(&key) else {
            proof { assert(self.nodes@ =~= n0); assert(self.keys() =~= old(self).keys().remove(key)); let order = choose|o: Seq<K>| old(self).wf_with(o); assert(self.wf_with(order));
                assert forall|o: Seq<K>| old(self).wf_with(o) && o.len() > 0 && o[0] == key implies self.wf_with(o.remove(0)) by { assert(n0.contains_key(o[0])); } }
            return false;
        };
        proof {
            assert forall|order: Seq<K>| old(self).wf_with(order) implies (exists|i: int| #![auto] 0 <= i < order.len() && order[i] == key
                && node.prev == prev_of(order, i) && node.next == next_of(order, i) && links_ok(self.nodes@, order, i)) by {
                assert(order.contains(key));
                let i = choose|i: int| 0 <= i < order.len() && order[i] == key;
                assert(n0[order[i]].prev == prev_of(order, i));
                assert forall|j: int| 0 <= j < order.len() && j != i implies #[trigger] self.nodes@.contains_key(order[j]) by { assert(n0.contains_key(order[j])); assert(order[j] != order[i]); }
                assert forall|j: int| 0 <= j < order.len() && j != i implies (#[trigger] self.nodes@[order[j]]).prev == prev_of(order, j) by { assert(n0[order[j]].prev == prev_of(order, j)); assert(order[j] != order[i]); }
                assert forall|j: int| 0 <= j < order.len() && j != i implies (#[trigger] self.nodes@[order[j]]).next == next_of(order, j) by { assert(n0[order[j]].next == next_of(order, j)); assert(order[j] != order[i]); }
            }
            if node.prev.is_some() { assert(key_is::<K, K>(node.prev.unwrap(), &node.prev.unwrap(), 0)); }
            if node.next.is_some() { assert(key_is::<K, K>(node.next.unwrap(), &node.next.unwrap(), 0)); }
        }
        let ghost n1 = self.nodes@;

        self.detach(key, node.prev, node.next);
        proof {
            assert(self.keys() =~= old(self).keys().remove(key));
            assert forall|order: Seq<K>| old(self).wf_with(order) implies (exists|i: int| 0 <= i < order.len() && order[i] == key && #[trigger] self.wf_with(order.remove(i))) by {
                let i = choose|i: int| #![auto] 0 <= i < order.len() && order[i] == key
                    && node.prev == prev_of(order, i) && node.next == next_of(order, i) && links_ok(n1, order, i);
                let o2 = order.remove(i);
                assert(links_ok(self.nodes@, o2, -1));
                assert forall|k: K| self.nodes@.contains_key(k) implies o2.contains(k) by {
                    assert(n0.contains_key(k)); assert(order.contains(k));
                    let j = choose|j: int| 0 <= j < order.len() && order[j] == k;
                    assert(j != i);
                    let jj = if j < i { j } else { j - 1 }; assert(o2[jj] == k);
                }
                assert(self.wf_with(o2));
            }
            let order = choose|o: Seq<K>| old(self).wf_with(o);
            assert(exists|i: int| 0 <= i < order.len() && order[i] == key && #[trigger] self.wf_with(order.remove(i)));
            assert forall|o: Seq<K>| old(self).wf_with(o) && o.len() > 0 && o[0] == key implies self.wf_with(o.remove(0)) by {
                let i = choose|i: int| 0 <= i < o.len() && o[i] == key && #[trigger] self.wf_with(o.remove(i));
                assert(o[i] == o[0]);
                assert(i == 0);
            }
        }
        true
    }

    fn pop_lru(&mut self) -> (r: Option<K>)
        requires old(self).wf(), obeys_key_model::<K>(), eq_is_structural::<K>(),
        ensures final(self).wf(),
            r.is_none() ==> old(self).keys() =~= Set::<K>::empty() && final(self).keys() == old(self).keys(),
            r.is_some() ==> old(self).keys().contains(r.unwrap()) && final(self).keys() == old(self).keys().remove(r.unwrap()),
            forall|o: Seq<K>| old(self).wf_with(o) ==> r == first_of(o),
    {
        proof {
            let order = choose|o: Seq<K>| self.wf_with(o);
            if self.head.is_none() {
                assert(order.len() == 0);
                assert(self.keys() =~= Set::<K>::empty()) by {
                    assert forall|k: K| !self.nodes@.contains_key(k) by { if self.nodes@.contains_key(k) { assert(order.contains(k)); } }
                }
            } else {
                assert(self.nodes@.contains_key(order[0]));
            }
        }
        let key = self.head?;
        let removed = self.remove(key);
        debug_assert!(removed, "head key must exist in nodes map");
        Some(key)
    }

    fn insert_new(&mut self, key: K)
        requires old(self).wf(), obeys_key_model::<K>(), eq_is_structural::<K>(),
        ensures final(self).wf(), final(self).keys() == old(self).keys().insert(key),
    {
        broadcast use vstd::std_specs::hash::group_hash_axioms;
        if self.contains(key) {
            let _ = self.touch(key);
            proof { assert(self.keys() =~= old(self).keys().insert(key)); }
            return;
        }
        let ghost order = choose|o: Seq<K>| self.wf_with(o);
        let ghost n0 = self.nodes@;

        let old_tail = self.tail;
        self.nodes.insert(
            key,
            LruNode {
                prev: old_tail,
                next: None,
            },
        );
        let ghost n1 = self.nodes@;

        if let Some(tail) = old_tail {
            proof { assert(key_is::<K, K>(tail, &tail, 0)); }
            if let Some(node) = self.nodes.get_mut(&tail) {
                node.next = Some(key);
            }
        } else {
            self.head = Some(key);
        }

        self.tail = Some(key);
        proof {
            let o3 = order.push(key);
            assert(!order.contains(key)) by { if order.contains(key) { let j = choose|j: int| 0 <= j < order.len() && order[j] == key; assert(n0.contains_key(order[j])); } }
            assert(o3.no_duplicates());
            if order.len() > 0 {
                let t = order[order.len() - 1];
                assert(old_tail == Some(t));
                assert(n0.contains_key(t)); assert(t != key);
                assert(self.nodes@ == n1.insert(t, LruNode { prev: n1[t].prev, next: Some(key) }));
            } else { assert(self.nodes@ == n1); }
            assert forall|j: int| 0 <= j < o3.len() implies #[trigger] self.nodes@.contains_key(o3[j]) by { if j < order.len() { assert(n0.contains_key(order[j])); } }
            assert forall|j: int| 0 <= j < o3.len() implies (#[trigger] self.nodes@[o3[j]]).prev == prev_of(o3, j) by {
                if j < order.len() { assert(o3[j] == order[j]); assert(n0[order[j]].prev == prev_of(order, j)); assert(order[j] != key); }
            }
            assert forall|j: int| 0 <= j < o3.len() implies (#[trigger] self.nodes@[o3[j]]).next == next_of(o3, j) by {
                if j < order.len() { assert(o3[j] == order[j]); assert(n0[order[j]].next == next_of(order, j)); assert(order[j] != key);
                    if j < order.len() - 1 { assert(order[j] != order[order.len() - 1]); } }
            }
            assert(self.keys() =~= old(self).keys().insert(key));
            assert forall|k: K| self.nodes@.contains_key(k) implies o3.contains(k) by {
                if k == key { assert(o3[o3.len() - 1] == k); } else { assert(n0.contains_key(k)); assert(order.contains(k)); let j = choose|j: int| 0 <= j < order.len() && order[j] == k; assert(o3[j] == k); }
            }
            assert(self.wf_with(o3));
        }
    }
}

} // verus!
fn main() {}
