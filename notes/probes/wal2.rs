use vstd::prelude::*;

macro_rules! warn { ($($t:tt)*) => {} }
macro_rules! format { ($($t:tt)*) => { crate::FmtMsg } }

verus! {

pub struct FmtMsg;
pub open spec fn le4(x: u32) -> Seq<u8> { seq![(x & 0xff) as u8, ((x >> 8) & 0xff) as u8, ((x >> 16) & 0xff) as u8, ((x >> 24) & 0xff) as u8] }
pub assume_specification [u32::to_le_bytes](x: u32) -> (r: [u8; ::core::mem::size_of::<u32>()])
    ensures r@ == le4(x);


pub mod io {
    use vstd::prelude::*;
    #[derive(Debug)] pub struct Error { pub kind: u8 }
}

pub mod anyhow {
    use vstd::prelude::*;
    #[derive(Debug)] pub struct Error { pub from_io: bool }
    pub type Result<T> = core::result::Result<T, Error>;

    impl core::convert::From<super::io::Error> for Error {
        fn from(e: super::io::Error) -> (r: Error) { Error { from_io: true } }
    }
    impl vstd::std_specs::convert::FromSpecImpl<super::io::Error> for Error {
        open spec fn obeys_from_spec() -> bool { false }
        open spec fn from_spec(v: super::io::Error) -> Self { Error { from_io: true } }
    }
    pub trait Context<T>: Sized {
        spec fn ok_val(self) -> Option<T>;
        fn context(self, msg: &str) -> (r: core::result::Result<T, Error>)
            ensures r.is_ok() == self.ok_val().is_some(), r.is_ok() ==> r.unwrap() == self.ok_val().unwrap();
        fn with_context<C, F: FnOnce() -> C>(self, f: F) -> (r: core::result::Result<T, Error>)
            ensures r.is_ok() == self.ok_val().is_some(), r.is_ok() ==> r.unwrap() == self.ok_val().unwrap();
    }
    impl<T, E> Context<T> for core::result::Result<T, E> {
        open spec fn ok_val(self) -> Option<T> { match self { Ok(v) => Some(v), Err(_) => None } }
        #[verifier::external_body]
        fn context(self, msg: &str) -> (r: core::result::Result<T, Error>) { unimplemented!() }
        #[verifier::external_body]
        fn with_context<C, F: FnOnce() -> C>(self, f: F) -> (r: core::result::Result<T, Error>) { unimplemented!() }
    }
    #[verifier::external_body]
    pub fn mk_err() -> Error { unimplemented!() }
}
use anyhow::{Result, Context};

macro_rules! anyhow_ensure { ($c:expr, $($t:tt)*) => { if !($c) { return Err(crate::anyhow::mk_err()); } } }

pub struct FileState { pub bytes: Seq<u8>, pub durable: nat }

#[verifier::external_body]
pub struct File { _p: core::marker::PhantomData<()> }

impl File {
    pub uninterp spec fn view(&self) -> FileState;

    #[verifier::external_body]
    pub fn write_all(&mut self, buf: &[u8]) -> (r: core::result::Result<(), io::Error>)
        ensures
            r.is_ok() ==> final(self)@.bytes == old(self)@.bytes + buf@ && final(self)@.durable == old(self)@.durable,
            r.is_err() ==> old(self)@.bytes.is_prefix_of(final(self)@.bytes) && final(self)@.durable == old(self)@.durable,
    { unimplemented!() }
    #[verifier::external_body]
    pub fn set_len(&mut self, len: u64) -> (r: core::result::Result<(), io::Error>)
        ensures
            r.is_ok() ==> final(self)@.bytes == old(self)@.bytes.take(len as int),
    { unimplemented!() }
}

pub struct WalEntry { pub doc_id: u64 }
pub uninterp spec fn ser(e: &WalEntry) -> Seq<u8>;
pub uninterp spec fn crc(b: Seq<u8>) -> u32;

pub mod bincode {
    use vstd::prelude::*;
    #[derive(Debug)] pub struct Error;
    #[verifier::external_body]
    pub fn serialize(e: &super::WalEntry) -> (r: core::result::Result<Vec<u8>, Error>)
        ensures r.is_ok() ==> r.unwrap()@ == super::ser(e)
    { unimplemented!() }
}
pub mod crc32fast {
    use vstd::prelude::*;
    #[verifier::external_body]
    pub fn hash(b: &[u8]) -> (r: u32) ensures r == super::crc(b@) { unimplemented!() }
}

const MAX_WAL_ENTRY_BYTES: usize = 100 * 1024 * 1024;

pub struct WalWriter {
    file: File,
    entry_count: usize,
    bytes_written: u64,
}

impl WalWriter {
    fn write_entry(&mut self, entry: &WalEntry) -> (r: Result<()>)
    {
        // Serialize entry
        let entry_bytes = bincode::serialize(entry).context("Failed to serialize WAL entry")?;
        anyhow_ensure!(
            entry_bytes.len() <= MAX_WAL_ENTRY_BYTES,
            "WAL entry too large: {} bytes (max {})",
            entry_bytes.len(),
            MAX_WAL_ENTRY_BYTES
        );

        // Calculate checksum (CRC32)
        let checksum = crc32fast::hash(&entry_bytes);

        // Write: [entry_size (4 bytes) | entry_data | checksum (4 bytes)]
        let entry_size =
            u32::try_from(entry_bytes.len()).context("WAL entry size exceeds u32 header limit")?;
        let mut frame = Vec::with_capacity(4 + entry_bytes.len() + 4);
        frame.extend_from_slice(&entry_size.to_le_bytes());
        frame.extend_from_slice(&entry_bytes);
        frame.extend_from_slice(&checksum.to_le_bytes());
        self.file.write_all(&frame)?;

        self.entry_count += 1;
        self.bytes_written += frame.len() as u64;
        Ok(())
    }
    fn rollback_to_offset(&mut self, offset: u64) -> Result<()> {
        self.file
            .set_len(offset)
            .with_context(|| format!("Failed truncating WAL to {} bytes", offset))?;
        Ok(())
    }
}

} // verus!
fn main() {}
