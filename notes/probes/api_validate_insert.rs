use vstd::prelude::*;
macro_rules! format { ($($t:tt)*) => { String::new() } }
verus! {
pub uninterp spec fn spec_is_finite(x: f32) -> bool;
pub assume_specification [f32::is_finite](x: f32) -> (r: bool) ensures r == spec_is_finite(x);
pub const MAX_EMBEDDING_DIM: usize = 4096;
pub const MIN_DOC_ID: u64 = 1;
pub struct InsertRequest { pub doc_id: u64, pub embedding: Vec<f32>, pub namespace: String }

pub fn validate_insert_request(req: &InsertRequest) -> (r: Result<(), String>)
    ensures r.is_ok() ==> req.doc_id >= 1 && 1 <= req.embedding@.len() <= 4096 && forall|i: int| 0 <= i < req.embedding@.len() ==> spec_is_finite(#[trigger] req.embedding@[i]),
{
    if req.doc_id < MIN_DOC_ID {
        return Err(format!("doc_id must be >= {}", MIN_DOC_ID));
    }
    if req.embedding.is_empty() {
        return Err("embedding cannot be empty".to_string());
    }
    if req.embedding.len() > MAX_EMBEDDING_DIM {
        return Err(format!(
            "embedding dimension {} exceeds maximum {}",
            req.embedding.len(),
            MAX_EMBEDDING_DIM
        ));
    }
    if req.embedding.iter().any(|v| !v.is_finite()) {
        return Err("embedding must contain only finite values (no NaN/Inf)".to_string());
    }
    Ok(())
}
}
fn main() {}
