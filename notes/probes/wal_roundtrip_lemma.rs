use vstd::prelude::*;
verus! {
pub struct WalEntry { pub doc_id: u64 }
pub uninterp spec fn de(b: Seq<u8>) -> Option<WalEntry>;
pub uninterp spec fn ser(e: WalEntry) -> Seq<u8>;
pub uninterp spec fn crc(b: Seq<u8>) -> u32;
pub uninterp spec fn le32(b: Seq<u8>) -> u32;
pub uninterp spec fn le4(x: u32) -> Seq<u8>;
pub open spec fn max_entry() -> int { 104857600int }

pub open spec fn parse(bytes: Seq<u8>, pos: int) -> (Seq<WalEntry>, nat)
    decreases bytes.len() - pos
{
    if pos < 0 || pos + 4 > bytes.len() { (Seq::empty(), 0nat) } else {
        let size = le32(bytes.subrange(pos, pos + 4)) as int;
        if size == 0 || size > max_entry() { (Seq::empty(), 1nat) }
        else if pos + 4 + size > bytes.len() { (Seq::empty(), 0nat) }
        else if pos + 4 + size + 4 > bytes.len() { (Seq::empty(), 0nat) }
        else {
            let body = bytes.subrange(pos + 4, pos + 4 + size);
            let stored = le32(bytes.subrange(pos + 4 + size, pos + 8 + size));
            let rest = parse(bytes, pos + 8 + size);
            if stored != crc(body) { (rest.0, rest.1 + 1) }
            else { match de(body) { None => (rest.0, rest.1 + 1), Some(e) => (seq![e] + rest.0, rest.1) } }
        }
    }
}

pub open spec fn frame(b: Seq<u8>) -> Seq<u8> { le4(b.len() as u32) + b + le4(crc(b)) }
pub open spec fn frames(es: Seq<WalEntry>) -> Seq<u8> decreases es.len() {
    if es.len() == 0 { Seq::empty() } else { frame(ser(es[0])) + frames(es.drop_first()) }
}
// trusted facts about the codecs (listed in the trusted base)
pub open spec fn codec_ok() -> bool {
    &&& forall|x: u32| #[trigger] le4(x).len() == 4 && le32(le4(x)) == x
    &&& forall|e: WalEntry| 0 < (#[trigger] ser(e)).len() <= max_entry() && de(ser(e)) == Some(e)
}
// a torn tail: strictly shorter than the frame it was going to be
pub open spec fn is_torn(t: Seq<u8>) -> bool {
    t.len() == 0 || exists|e: WalEntry| t.len() < frame(ser(e)).len() && t == frame(ser(e)).subrange(0, t.len() as int)
}

// T-wal: what was framed is read back exactly, and a torn tail is ignored without being counted as corruption
pub proof fn lemma_roundtrip(pre: Seq<u8>, es: Seq<WalEntry>, t: Seq<u8>)
    requires codec_ok(), is_torn(t),
    ensures parse(pre + frames(es) + t, pre.len() as int) == (es, 0nat),
    decreases es.len()
{
    let bytes = pre + frames(es) + t;
    let pos = pre.len() as int;
    if es.len() == 0 {
        assert(frames(es) == Seq::<u8>::empty());
        assert(bytes =~= pre + t);
        if t.len() >= 4 {
            let e = choose|e: WalEntry| t.len() < frame(ser(e)).len() && t == frame(ser(e)).subrange(0, t.len() as int);
            let b = ser(e);
            let f = frame(b);
            assert(f.subrange(0, 4) =~= le4(b.len() as u32));
            assert(bytes.subrange(pos, pos + 4) =~= le4(b.len() as u32));
            assert(le32(bytes.subrange(pos, pos + 4)) == b.len() as u32);
            assert(f.len() == 4 + b.len() + 4);
            assert(pos + 4 + b.len() + 4 > bytes.len());
        }
        assert(parse(bytes, pos).0 =~= es);
    } else {
        let e = es[0];
        let b = ser(e);
        let f = frame(b);
        let rest = es.drop_first();
        assert(frames(es) == f + frames(rest));
        assert(bytes =~= (pre + f) + frames(rest) + t);
        lemma_roundtrip(pre + f, rest, t);
        assert(f.len() == 4 + b.len() + 4);
        assert(bytes.subrange(pos, pos + 4) =~= le4(b.len() as u32));
        assert(le32(bytes.subrange(pos, pos + 4)) == b.len() as u32);
        assert(bytes.subrange(pos + 4, pos + 4 + b.len()) =~= b);
        assert(bytes.subrange(pos + 4 + b.len(), pos + 8 + b.len()) =~= le4(crc(b)));
        assert((pre + f).len() == pos + 8 + b.len());
        assert(parse(bytes, pos).0 =~= seq![e] + rest);
        assert(seq![e] + rest =~= es);
    }
}
}
fn main() {}
