use vstd::prelude::*;
pub mod anyhow {
    use vstd::prelude::*;
    verus! {
    #[derive(Debug)] pub struct Error { pub x: bool }
    pub type Result<T> = core::result::Result<T, Error>;
    #[verifier::external_body]
    pub fn mk_err() -> Error { unimplemented!() }
    }
    macro_rules! bail { ($($t:tt)*) => { return Err(crate::anyhow::mk_err()) } }
    pub(crate) use bail;
    macro_rules! ensure { ($c:expr, $($t:tt)*) => { if !($c) { return Err(crate::anyhow::mk_err()); } } }
    pub(crate) use ensure;
    macro_rules! anyhow { ($($t:tt)*) => { crate::anyhow::mk_err() } }
    pub(crate) use anyhow;
}
verus! {
fn f(x: u64) -> (r: anyhow::Result<u64>)
    ensures r.is_ok() ==> x < 10 && x != 3
{
    if x >= 10 {
        anyhow::bail!("too big {}", x);
    }
    anyhow::ensure!(x != 3, "three {}", x);
    if x == 4 { return Err(anyhow::anyhow!("four")); }
    Ok(x)
}
}
fn main() {}
