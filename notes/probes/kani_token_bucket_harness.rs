// appended to a byte-identical copy of /repo/engine/src/rate_limiter.rs (design-phase probe)
#[cfg(kani)]
mod verif_harness {
    use super::*;
    use std::time::Duration;
    fn stub_now() -> Instant { unsafe { std::mem::zeroed() } }
    static mut ELAPSED_F: f64 = 0.0;
    fn stub_duration_since(_s: &Instant, _earlier: Instant) -> Duration { Duration::new(0, 0) }
    fn stub_as_secs_f64(_d: &Duration) -> f64 { unsafe { ELAPSED_F } }

    fn any_bucket() -> TokenBucket {
        let capacity: u32 = kani::any();
        let tokens: f64 = kani::any();
        kani::assume(tokens >= 0.0 && tokens <= capacity as f64);
        TokenBucket { capacity, tokens, refill_rate: capacity as f64, last_refill: stub_now() }
    }

    // per-step contract of try_consume (complete: loop-free, all f64/u32/Duration values)
    #[kani::proof]
    #[kani::stub(std::time::Instant::now, stub_now)]
    #[kani::stub(std::time::Instant::duration_since, stub_duration_since)]
    #[kani::stub(std::time::Duration::as_secs_f64, stub_as_secs_f64)]
    fn try_consume_step() {
        let mut b = any_bucket();
        let elapsed: f64 = kani::any();
        kani::assume(elapsed >= 0.0 && elapsed.is_finite());
        unsafe { ELAPSED_F = elapsed; }
        let cap = b.capacity as f64;
        let before = b.tokens;
        let ok = b.try_consume();
        // invariant
        assert!(b.tokens >= 0.0 && b.tokens <= cap);
        // refill bound: never more than what the elapsed time pays for, never above capacity
        let refilled = if ok { b.tokens + 1.0 } else { b.tokens };
        assert!(refilled <= cap);
        assert!(refilled >= before || refilled == cap);
        if ok { assert!(refilled >= 1.0); } else { assert!(refilled < 1.0); }
        kani::cover!(ok);
        kani::cover!(!ok);
    }

    #[kani::proof]
    fn refund_step() {
        let mut b = any_bucket();
        let before = b.tokens;
        b.refund_one();
        assert!(b.tokens <= b.capacity as f64);
        assert!(b.tokens >= before && b.tokens <= before + 1.0);
    }
}
