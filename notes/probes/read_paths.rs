use vstd::prelude::*;
use std::collections::HashMap;
macro_rules! debug { ($($t:tt)*) => {} }
macro_rules! warn { ($($t:tt)*) => {} }
verus! {
#[derive(Debug, Clone, Copy, PartialEq, Eq, Structural)]
pub struct VectorIntegrityDigest { pub hi: u64, pub lo: u64 }
#[derive(Debug, Clone, Copy, PartialEq, Eq, Structural)]
pub struct VectorCoherenceToken { pub version: u64, pub digest: VectorIntegrityDigest }
#[derive(Debug, Clone, Copy, PartialEq, Eq, Structural)]
enum CanonicalVectorState { Match, TokenMismatch, LocalCorruption, Missing }
#[derive(Debug, Clone, Copy, PartialEq, Eq, Structural)]
pub enum PointQueryTier { Cache, HotTier, ColdTier }
pub uninterp spec fn spec_digest(e: Seq<f32>) -> VectorIntegrityDigest;
#[verifier::external_body]
pub fn embedding_matches_token(embedding: &[f32], token: VectorCoherenceToken) -> (r: bool)
    ensures r == (spec_digest(embedding@) == token.digest) { unimplemented!() }

pub struct CachedVector { pub doc_id: u64, pub embedding: Vec<f32>, pub coherence: VectorCoherenceToken, pub distance: f32, pub cached_at: Instant }
#[verifier::external_body]
pub struct Instant { _p: core::marker::PhantomData<()> }
impl Instant { #[verifier::external_body] pub fn now() -> Instant { unimplemented!() } }

// wrapping counters so that statistics never create overflow obligations (u64 stats in the real struct)
pub struct TieredEngineStats { pub total_queries: Ctr, pub cache_hits: Ctr, pub cache_misses: Ctr, pub hot_tier_hits: Ctr, pub hot_tier_misses: Ctr, pub cold_tier_searches: Ctr, pub circuit_breaker_rejections: Ctr }
#[verifier::external_body]
pub struct Ctr { _p: core::marker::PhantomData<()> }
impl core::ops::AddAssign<u64> for Ctr { #[verifier::external_body] fn add_assign(&mut self, rhs: u64) { unimplemented!() } }
impl vstd::std_specs::ops::AddAssignSpecImpl<u64> for Ctr {
    open spec fn obeys_add_assign_spec() -> bool { false }
    open spec fn add_assign_req(&self, rhs: u64) -> bool { true }
    open spec fn add_assign_spec(&self, rhs: u64) -> &Self { self }
}
#[verifier::external_body]
pub struct StatsGuard { _p: core::marker::PhantomData<()> }
impl core::ops::Deref for StatsGuard { type Target = TieredEngineStats; #[verifier::external_body] fn deref(&self) -> &TieredEngineStats { unimplemented!() } }
impl core::ops::DerefMut for StatsGuard { #[verifier::external_body] fn deref_mut(&mut self) -> &mut TieredEngineStats { unimplemented!() } }
#[verifier::external_body]
pub struct StatsLock { _p: core::marker::PhantomData<()> }
impl StatsLock { #[verifier::external_body] pub fn write(&self) -> StatsGuard { unimplemented!() } }

#[verifier::external_body]
pub struct Breaker { _p: core::marker::PhantomData<()> }
impl Breaker {
    #[verifier::external_body] pub fn is_open(&self) -> bool { unimplemented!() }
    #[verifier::external_body] pub fn record_success(&self) { unimplemented!() }
}
#[verifier::external_body]
pub struct CacheStrategy { _p: core::marker::PhantomData<()> }
impl CacheStrategy {
    #[verifier::external_body] pub fn get_cached(&self, d: u64) -> Option<CachedVector> { unimplemented!() }
    #[verifier::external_body] pub fn peek_cached(&self, d: u64) -> Option<CachedVector> { unimplemented!() }
    #[verifier::external_body] pub fn should_cache(&self, d: u64, e: &[f32]) -> bool { unimplemented!() }
    #[verifier::external_body] pub fn insert_cached(&self, c: CachedVector) { unimplemented!() }
    #[verifier::external_body] pub fn invalidate(&self, d: u64) { unimplemented!() }
}
#[verifier::external_body]
pub struct HotTier { _p: core::marker::PhantomData<()> }
impl HotTier {
    #[verifier::external_body] pub fn get_with_coherence(&self, d: u64) -> Option<(Vec<f32>, VectorCoherenceToken)> { unimplemented!() }
    #[verifier::external_body] pub fn exists(&self, d: u64) -> bool { unimplemented!() }
    #[verifier::external_body] pub fn delete(&self, d: u64) -> bool { unimplemented!() }
}
#[verifier::external_body]
pub struct QueryCache { _p: core::marker::PhantomData<()> }
impl QueryCache { #[verifier::external_body] pub fn clear(&self) { unimplemented!() } }

#[verifier::external_body]
pub struct HnswBackend { _p: core::marker::PhantomData<()> }
impl HnswBackend {
    pub uninterp spec fn token_of(&self, doc_id: u64) -> Option<VectorCoherenceToken>;
    pub uninterp spec fn vec_of(&self, doc_id: u64) -> Seq<f32>;
    pub uninterp spec fn meta_of(&self, doc_id: u64) -> Map<String, String>;
    #[verifier::external_body] pub fn current_coherence_token(&self, doc_id: u64) -> (r: Option<VectorCoherenceToken>) ensures r == self.token_of(doc_id) { unimplemented!() }
    #[verifier::external_body] pub fn fetch_document_with_coherence(&self, doc_id: u64) -> (r: Option<(Vec<f32>, VectorCoherenceToken)>)
        ensures r.is_some() == self.token_of(doc_id).is_some(), r.is_some() ==> r.unwrap().0@ == self.vec_of(doc_id) && Some(r.unwrap().1) == self.token_of(doc_id) && spec_digest(r.unwrap().0@) == r.unwrap().1.digest { unimplemented!() }
    #[verifier::external_body] pub fn fetch_document(&self, doc_id: u64) -> (r: Option<Vec<f32>>)
        ensures r.is_some() == self.token_of(doc_id).is_some(), r.is_some() ==> r.unwrap()@ == self.vec_of(doc_id) && spec_digest(r.unwrap()@) == self.token_of(doc_id).unwrap().digest { unimplemented!() }
    #[verifier::external_body] pub fn fetch_metadata(&self, doc_id: u64) -> (r: Option<HashMap<String, String>>)
        ensures r.is_some() == self.token_of(doc_id).is_some(), r.is_some() ==> r.unwrap()@ == self.meta_of(doc_id) { unimplemented!() }
}

pub struct TieredEngine {
    cache_strategy: CacheStrategy,
    query_cache: QueryCache,
    hot_tier: HotTier,
    cold_tier: HnswBackend,
    stats: StatsLock,
    cache_circuit_breaker: Breaker,
    hot_tier_circuit_breaker: Breaker,
    cold_tier_circuit_breaker: Breaker,
}
impl TieredEngine {
    #[verifier::external_body] fn log_point_access(&self, d: u64) { unimplemented!() }
    #[verifier::external_body] fn discard_stale_hot_mirror(&self, doc_id: u64, source: &'static str) { unimplemented!() }
    #[verifier::external_body] fn invalidate_stale_cache_entry(&self, doc_id: u64, source: &'static str) { unimplemented!() }
    // canonical: what the property calls "the most recent successful write"
    spec fn canon_ok(&self, d: u64, v: Seq<f32>) -> bool {
        self.cold_tier.token_of(d).is_some() && spec_digest(v) == self.cold_tier.token_of(d).unwrap().digest
    }
    /// Query with source tier metadata.
    fn query_with_source(
        &self,
        doc_id: u64,
        _query_embedding: Option<&[f32]>,
    ) -> (r: Option<(Vec<f32>, PointQueryTier)>)
        ensures r.is_some() ==> self.canon_ok(doc_id, r.unwrap().0@),
    {
        // Increment total queries (isolated lock)
        {
            let mut stats = self.stats.write();
            stats.total_queries += 1;
        } // Lock released

        // Layer 1: Check cache with circuit breaker protection
        if !self.cache_circuit_breaker.is_open() {
            if let Some(cached) = self.cache_strategy.get_cached(doc_id) {
                match self.canonical_vector_state(
                    doc_id,
                    &cached.embedding,
                    cached.coherence,
                    "point query cache hit",
                ) {
                    CanonicalVectorState::Match => {
                        // Cache hit - record success
                        self.cache_circuit_breaker.record_success();

                        // Update stats (no other locks held)
                        {
                            let mut stats = self.stats.write();
                            stats.cache_hits += 1;
                        } // stats lock released

                        self.log_point_access(doc_id);

                        return Some((cached.embedding, PointQueryTier::Cache));
                    }
                    CanonicalVectorState::TokenMismatch
                    | CanonicalVectorState::LocalCorruption
                    | CanonicalVectorState::Missing => {
                        self.invalidate_stale_cache_entry(doc_id, "point query cache hit");
                    }
                }
            }

            // Cache miss - not a failure, just continue to next tier
            {
                let mut stats = self.stats.write();
                stats.cache_misses += 1;
            } // Lock released
        } else {
            // Circuit breaker open - skip cache layer
            {
                let mut stats = self.stats.write();
                stats.circuit_breaker_rejections += 1;
            }
            debug!(
                "Cache circuit breaker open, skipping cache layer for doc_id={}",
                doc_id
            );
        }

        // Layer 2: Check hot tier with circuit breaker protection
        if !self.hot_tier_circuit_breaker.is_open() {
            if let Some((embedding, coherence)) = self.hot_tier.get_with_coherence(doc_id) {
                match self.canonical_vector_state(
                    doc_id,
                    &embedding,
                    coherence,
                    "point query hot-tier hit",
                ) {
                    CanonicalVectorState::Match => {
                        // Hot tier hit - record success
                        self.hot_tier_circuit_breaker.record_success();

                        // Update stats (isolated)
                        {
                            let mut stats = self.stats.write();
                            stats.hot_tier_hits += 1;
                        } // Lock released

                        // Cache admission decision for L1a (isolated)
                        let should_cache_decision =
                            self.cache_strategy.should_cache(doc_id, &embedding);

                        if should_cache_decision {
                            let cached = CachedVector {
                                doc_id,
                                embedding: embedding.clone(),
                                coherence,
                                distance: 0.0,
                                cached_at: Instant::now(),
                            };
                            self.cache_strategy.insert_cached(cached);
                        }

                        self.log_point_access(doc_id);

                        return Some((embedding, PointQueryTier::HotTier));
                    }
                    CanonicalVectorState::TokenMismatch | CanonicalVectorState::LocalCorruption => {
                        self.discard_stale_hot_mirror(doc_id, "point query hot-tier hit");
                    }
                    CanonicalVectorState::Missing => {}
                }
            }

            // Hot tier miss - update stats (isolated)
            {
                let mut stats = self.stats.write();
                stats.hot_tier_misses += 1;
            } // Lock released
        } else {
            // Circuit breaker open - skip hot tier layer
            {
                let mut stats = self.stats.write();
                stats.circuit_breaker_rejections += 1;
            }
            debug!(
                "Hot tier circuit breaker open, skipping hot tier for doc_id={}",
                doc_id
            );
        }

        // Layer 3: Fetch from cold tier with circuit breaker protection
        if !self.cold_tier_circuit_breaker.is_open() {
            if let Some((embedding, coherence)) =
                self.cold_tier.fetch_document_with_coherence(doc_id)
            {
                // Cold tier success - record it
                self.cold_tier_circuit_breaker.record_success();

                // Update stats (isolated)
                {
                    let mut stats = self.stats.write();
                    stats.cold_tier_searches += 1;
                } // Lock released

                // Cache admission decision for L1a (isolated)
                let should_cache_decision = self.cache_strategy.should_cache(doc_id, &embedding);

                if should_cache_decision {
                    let cached = CachedVector {
                        doc_id,
                        embedding: embedding.clone(),
                        coherence,
                        distance: 0.0,
                        cached_at: Instant::now(),
                    };
                    self.cache_strategy.insert_cached(cached);
                }

                self.log_point_access(doc_id);

                return Some((embedding, PointQueryTier::ColdTier));
            }

            // Cold tier miss - this is normal (document doesn't exist)
        } else {
            // Circuit breaker open - fail fast
            {
                let mut stats = self.stats.write();
                stats.circuit_breaker_rejections += 1;
            }
            warn!(
                "Cold tier circuit breaker open, cannot query doc_id={}",
                doc_id
            );
        }

        // Document not found in a canonical cold-backed state
        None
    }

    fn get_document_with_metadata(
        &self,
        doc_id: u64,
    ) -> (r: Option<(Vec<f32>, std::collections::HashMap<String, String>)>)
        ensures r.is_some() ==> self.canon_ok(doc_id, r.unwrap().0@) && r.unwrap().1@ == self.cold_tier.meta_of(doc_id),
            r.is_none() ==> self.cold_tier.token_of(doc_id).is_none(),
    {
        if let Some(metadata) = self.cold_tier.fetch_metadata(doc_id) {
            if let Some((embedding, coherence)) = self.hot_tier.get_with_coherence(doc_id) {
                match self.canonical_vector_state(
                    doc_id,
                    &embedding,
                    coherence,
                    "document-with-metadata hot-tier hit",
                ) {
                    CanonicalVectorState::Match => return Some((embedding, metadata)),
                    CanonicalVectorState::TokenMismatch | CanonicalVectorState::LocalCorruption => {
                        self.discard_stale_hot_mirror(doc_id, "document-with-metadata hot-tier hit")
                    }
                    CanonicalVectorState::Missing => {}
                }
            }
            if let Some((embedding, _coherence)) =
                self.cold_tier.fetch_document_with_coherence(doc_id)
            {
                return Some((embedding, metadata));
            }
        }

        if self.hot_tier.exists(doc_id) {
            warn!(
                doc_id,
                "refusing to serve hot-tier-only document without canonical cold-tier metadata"
            );
        }

        None
    }

    fn get_embedding_cache_aware(&self, doc_id: u64) -> (r: Option<Vec<f32>>)
        ensures r.is_some() ==> self.canon_ok(doc_id, r.unwrap()@), r.is_none() ==> self.cold_tier.token_of(doc_id).is_none(),
    {
        if let Some(cached) = self.cache_strategy.peek_cached(doc_id) {
            if self.canonical_vector_state(
                doc_id,
                &cached.embedding,
                cached.coherence,
                "cache-aware embedding cache hit",
            ) == CanonicalVectorState::Match
            {
                return Some(cached.embedding);
            }
            self.invalidate_stale_cache_entry(doc_id, "cache-aware embedding cache hit");
        }
        if let Some((embedding, coherence)) = self.hot_tier.get_with_coherence(doc_id) {
            match self.canonical_vector_state(
                doc_id,
                &embedding,
                coherence,
                "cache-aware embedding hot-tier hit",
            ) {
                CanonicalVectorState::Match => return Some(embedding),
                CanonicalVectorState::TokenMismatch | CanonicalVectorState::LocalCorruption => {
                    self.discard_stale_hot_mirror(doc_id, "cache-aware embedding hot-tier hit");
                }
                CanonicalVectorState::Missing => {}
            }
        }
        self.cold_tier.fetch_document(doc_id)
    }

    fn get_metadata(&self, doc_id: u64) -> (r: Option<std::collections::HashMap<String, String>>)
        ensures r.is_some() == self.cold_tier.token_of(doc_id).is_some(), r.is_some() ==> r.unwrap()@ == self.cold_tier.meta_of(doc_id),
    {
        if let Some(metadata) = self.cold_tier.fetch_metadata(doc_id) {
            return Some(metadata);
        }
        if self.hot_tier.exists(doc_id) {
            warn!(
                doc_id,
                "ignoring hot-tier metadata because cold tier has no canonical record"
            );
        }
        None
    }

    fn exists(&self, doc_id: u64) -> (r: bool)
        ensures r == self.cold_tier.token_of(doc_id).is_some(),
    {
        let exists = self.cold_tier.current_coherence_token(doc_id).is_some();
        if !exists && self.hot_tier.exists(doc_id) {
            warn!(
                doc_id,
                "ignoring hot-tier mirror for existence check because no canonical cold-tier record exists"
            );
        }
        exists
    }

    fn canonical_vector_state(
        &self,
        doc_id: u64,
        mirrored_embedding: &[f32],
        mirrored_coherence: VectorCoherenceToken,
        source: &'static str,
    ) -> (r: CanonicalVectorState)
        ensures
            (r == CanonicalVectorState::Match) <==> (self.cold_tier.token_of(doc_id) == Some(mirrored_coherence)
                && spec_digest(mirrored_embedding@) == mirrored_coherence.digest),
            (r == CanonicalVectorState::Missing) <==> self.cold_tier.token_of(doc_id).is_none(),
    {
        match self.cold_tier.current_coherence_token(doc_id) {
            Some(canonical_coherence) if canonical_coherence != mirrored_coherence => {
                warn!(
                    doc_id,
                    source,
                    mirrored_version = mirrored_coherence.version,
                    mirrored_digest_hi = mirrored_coherence.digest.hi,
                    mirrored_digest_lo = mirrored_coherence.digest.lo,
                    canonical_version = canonical_coherence.version,
                    canonical_digest_hi = canonical_coherence.digest.hi,
                    canonical_digest_lo = canonical_coherence.digest.lo,
                    "rejecting non-canonical vector coherence token"
                );
                CanonicalVectorState::TokenMismatch
            }
            Some(_) if !embedding_matches_token(mirrored_embedding, mirrored_coherence) => {
                warn!(
                    doc_id,
                    source,
                    mirrored_version = mirrored_coherence.version,
                    mirrored_digest_hi = mirrored_coherence.digest.hi,
                    mirrored_digest_lo = mirrored_coherence.digest.lo,
                    "rejecting mirrored vector payload that does not match its coherence token"
                );
                CanonicalVectorState::LocalCorruption
            }
            Some(_) => CanonicalVectorState::Match,
            None => {
                warn!(
                    doc_id,
                    source,
                    mirrored_version = mirrored_coherence.version,
                    mirrored_digest_hi = mirrored_coherence.digest.hi,
                    mirrored_digest_lo = mirrored_coherence.digest.lo,
                    "rejecting vector without canonical cold-tier record"
                );
                CanonicalVectorState::Missing
            }
        }
    }


}
}
fn main() {}
