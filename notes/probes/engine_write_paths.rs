#![feature(allocator_api)]
use vstd::prelude::*;
use std::collections::HashMap;
macro_rules! debug { ($($t:tt)*) => {} }
macro_rules! warn { ($($t:tt)*) => {} }
macro_rules! trace { ($($t:tt)*) => {} }
macro_rules! info { ($($t:tt)*) => {} }
macro_rules! error { ($($t:tt)*) => {} }
macro_rules! anyhow { ($($t:tt)*) => { crate::anyhow::mk_err() } }
pub mod anyhow {
    use vstd::prelude::*;
    verus! {
    #[derive(Debug)] pub struct Error { pub x: bool }
    pub type Result<T> = core::result::Result<T, Error>;
    #[verifier::external_body] pub fn mk_err() -> Error { unimplemented!() }
    }
    macro_rules! bail { ($($t:tt)*) => { return Err(crate::anyhow::mk_err()) } }
    pub(crate) use bail;
}
verus! {
use anyhow::Result;
pub assume_specification<T: Clone>[<[T]>::to_vec](s: &[T]) -> (r: Vec<T>)
    ensures r@.len() == s@.len(), forall|i: int| 0 <= i < s@.len() ==> cloned(#[trigger] s@[i], r@[i]);
pub assume_specification<T: Ord>[<[T]>::sort_unstable](s: &mut [T])
    ensures final(s)@.to_multiset() == old(s)@.to_multiset();
pub assume_specification<T: PartialEq, A: std::alloc::Allocator>[Vec::<T, A>::dedup](v: &mut Vec<T, A>)
    ensures final(v)@.to_set() == old(v)@.to_set();
pub assume_specification<T, A: std::alloc::Allocator, I: IntoIterator<Item = T>>[<Vec<T, A> as Extend<T>>::extend](v: &mut Vec<T, A>, it: I)
    ensures old(v)@.is_prefix_of(final(v)@);

#[derive(Debug, Clone, Copy, PartialEq, Eq, Structural)]
pub struct VectorIntegrityDigest { pub hi: u64, pub lo: u64 }
#[derive(Debug, Clone, Copy, PartialEq, Eq, Structural)]
pub struct VectorCoherenceToken { pub version: u64, pub digest: VectorIntegrityDigest }
#[derive(Debug, Clone, Copy, PartialEq, Eq, Structural)]
pub enum DistanceMetric { Cosine, Euclidean, InnerProduct }
pub struct MetadataFilter { pub x: u8 }
pub type Meta = Map<String, String>;
pub uninterp spec fn matches_spec(f: &MetadataFilter, m: Meta) -> bool;
#[verifier::external_body]
pub fn metadata_filter_matches(f: &MetadataFilter, m: &HashMap<String, String>) -> (r: bool) ensures r == matches_spec(f, m@) { unimplemented!() }

pub struct Stats { pub total_inserts: Ctr, pub hot_tier_emergency_evictions: Ctr }
#[verifier::external_body] pub struct Ctr { _p: core::marker::PhantomData<()> }
impl core::ops::AddAssign<u64> for Ctr { #[verifier::external_body] fn add_assign(&mut self, rhs: u64) { unimplemented!() } }
impl vstd::std_specs::ops::AddAssignSpecImpl<u64> for Ctr {
    open spec fn obeys_add_assign_spec() -> bool { false }
    open spec fn add_assign_req(&self, rhs: u64) -> bool { true }
    open spec fn add_assign_spec(&self, rhs: u64) -> &Self { self }
}
#[verifier::external_body] pub struct StatsGuard { _p: core::marker::PhantomData<()> }
impl core::ops::Deref for StatsGuard { type Target = Stats; #[verifier::external_body] fn deref(&self) -> &Stats { unimplemented!() } }
impl core::ops::DerefMut for StatsGuard { #[verifier::external_body] fn deref_mut(&mut self) -> &mut Stats { unimplemented!() } }
#[verifier::external_body] pub struct StatsLock { _p: core::marker::PhantomData<()> }
impl StatsLock { #[verifier::external_body] pub fn write(&self) -> StatsGuard { unimplemented!() } }

#[verifier::external_body] pub struct CacheStrategy { _p: core::marker::PhantomData<()> }
impl CacheStrategy { #[verifier::external_body] pub fn invalidate(&mut self, d: u64) { unimplemented!() } }
#[verifier::external_body] pub struct QueryCache { _p: core::marker::PhantomData<()> }
impl QueryCache {
    #[verifier::external_body] pub fn clear(&mut self) { unimplemented!() }
    #[verifier::external_body] pub fn invalidate_doc(&mut self, d: u64) -> usize { unimplemented!() }
    #[verifier::external_body] pub fn invalidate_for_insert(&mut self, e: &Vec<f32>, m: DistanceMetric) -> usize { unimplemented!() }
}
pub type HotDoc = (u64, Vec<f32>, HashMap<String, String>, VectorCoherenceToken);
#[verifier::external_body] pub struct HotTier { _p: core::marker::PhantomData<()> }
impl HotTier {
    pub uninterp spec fn view(&self) -> Map<u64, (Seq<f32>, Meta, VectorCoherenceToken)>;
    #[verifier::external_body] pub fn exists(&self, d: u64) -> (r: bool) ensures r == self@.contains_key(d) { unimplemented!() }
    #[verifier::external_body] pub fn len(&self) -> (r: usize) ensures r == self@.len() { unimplemented!() }
    #[verifier::external_body] pub fn delete(&mut self, d: u64) -> (r: bool) ensures final(self)@ == old(self)@.remove(d), r == old(self)@.contains_key(d) { unimplemented!() }
    #[verifier::external_body] pub fn batch_delete(&mut self, ds: &Vec<u64>) -> usize { unimplemented!() }
    #[verifier::external_body] pub fn update_metadata(&mut self, d: u64, m: HashMap<String, String>, merge: bool) -> bool { unimplemented!() }
    #[verifier::external_body] pub fn drain_for_flush(&mut self) -> (r: Vec<HotDoc>) ensures final(self)@ == Map::<u64, (Seq<f32>, Meta, VectorCoherenceToken)>::empty() { unimplemented!() }
    #[verifier::external_body] pub fn insert_with_coherence(&mut self, d: u64, e: Vec<f32>, m: HashMap<String, String>, c: VectorCoherenceToken)
        ensures final(self)@ == old(self)@.insert(d, (e@, m@, c)) { unimplemented!() }
    // ids whose *mirror* metadata satisfies the predicate
    #[verifier::external_body] pub fn scan<F: Fn(&HashMap<String, String>) -> bool>(&self, f: F) -> (r: Vec<u64>) { unimplemented!() }
}
#[verifier::external_body] pub struct HnswBackend { _p: core::marker::PhantomData<()> }
impl HnswBackend {
    pub uninterp spec fn view(&self) -> Map<u64, (Seq<f32>, Meta)>;
    pub uninterp spec fn token_of(&self, d: u64) -> Option<VectorCoherenceToken>;
    #[verifier::external_body] pub fn exists(&self, d: u64) -> (r: bool) ensures r == self@.contains_key(d) { unimplemented!() }
    #[verifier::external_body] pub fn current_coherence_token(&self, d: u64) -> (r: Option<VectorCoherenceToken>) ensures r == self.token_of(d), r.is_some() == self@.contains_key(d) { unimplemented!() }
    #[verifier::external_body] pub fn delete(&mut self, d: u64) -> (r: Result<bool>)
        ensures r.is_err() ==> final(self)@ == old(self)@, r.is_ok() ==> final(self)@ == old(self)@.remove(d) && r.unwrap() == old(self)@.contains_key(d) { unimplemented!() }
    #[verifier::external_body] pub fn batch_delete(&mut self, ds: &Vec<u64>) -> (r: Result<u64>)
        ensures r.is_err() ==> final(self)@ == old(self)@, r.is_ok() ==> final(self)@ == old(self)@.remove_keys(ds@.to_set()) { unimplemented!() }
    #[verifier::external_body] pub fn update_metadata(&mut self, d: u64, m: HashMap<String, String>, merge: bool) -> (r: Result<bool>)
        ensures r.is_err() ==> final(self)@ == old(self)@ { unimplemented!() }
    #[verifier::external_body] pub fn insert(&mut self, d: u64, e: Vec<f32>, m: HashMap<String, String>) -> (r: Result<()>)
        ensures r.is_err() ==> final(self)@ == old(self)@, r.is_ok() ==> final(self)@ == old(self)@.insert(d, (e@, m@)) { unimplemented!() }
    #[verifier::external_body] pub fn ids_for_metadata_filter(&self, f: &MetadataFilter) -> (r: Vec<u64>)
        ensures forall|d: u64| r@.contains(d) <==> (self@.contains_key(d) && matches_spec(f, self@[d].1)) { unimplemented!() }
}
#[verifier::external_body]
fn vx_count_existing(h: &HotTier, c: &HnswBackend, ids: &Vec<u64>) -> u64 { unimplemented!() }
#[verifier::external_body]
fn normalize_in_place_if_needed(distance: DistanceMetric, embedding: &mut Vec<f32>) -> Result<()> { unimplemented!() }
pub struct Config { pub hot_tier_hard_limit: usize, pub hnsw_distance: DistanceMetric }

pub struct TieredEngine {
    cache_strategy: CacheStrategy,
    query_cache: QueryCache,
    hot_tier: HotTier,
    cold_tier: HnswBackend,
    stats: StatsLock,
    config: Config,
}
impl TieredEngine {
    #[verifier::external_body] fn reconcile_drained_hot_tier_documents(&mut self, docs: Vec<HotDoc>, kind: &'static str) -> (r: Result<(usize, bool)>)
        ensures final(self).cold_tier@ == old(self).cold_tier@ { unimplemented!() }
    fn update_metadata(
        &mut self,
        doc_id: u64,
        metadata: std::collections::HashMap<String, String>,
        merge: bool,
    ) -> Result<bool> {
        let existed = self
            .cold_tier
            .update_metadata(doc_id, metadata.clone(), merge)?;

        if !existed {
            if self.hot_tier.exists(doc_id) {
                warn!(
                    doc_id,
                    "metadata update found document in hot tier but not cold tier; refusing hot-only mutation"
                );
            }
            return Ok(false);
        }

        let mirrored = self.hot_tier.update_metadata(doc_id, metadata, merge);
        if mirrored {
            trace!(doc_id, "mirrored metadata update into hot tier");
        }

        // Filtered query-cache entries can become stale both when a document stops
        // matching a filter and when it starts matching one. The latter case cannot
        // be invalidated precisely from doc_id-only reverse indexes.
        self.query_cache.clear();

        Ok(true)
    }

    fn delete(&mut self, doc_id: u64) -> Result<bool> {
        let cold_deleted = self.cold_tier.delete(doc_id)?;
        let hot_deleted = self.hot_tier.delete(doc_id);

        if hot_deleted && !cold_deleted {
            warn!(
                doc_id,
                "deleted hot-tier mirror entry without matching canonical cold-tier record"
            );
        }

        if !cold_deleted && !hot_deleted {
            return Ok(false);
        }

        // Invalidate document cache entries (L1a)
        self.cache_strategy.invalidate(doc_id);

        // Remove any cached queries referencing this document (best effort)
        let removed_queries = self.query_cache.invalidate_doc(doc_id);
        if removed_queries > 0 {
            debug!(
                doc_id,
                removed_queries, "Removed stale query-cache entries after delete"
            );
        }

        Ok(true)
    }

    fn batch_delete(&mut self, doc_ids: &[u64]) -> Result<u64> {
        let mut unique_doc_ids: Vec<u64> = doc_ids.to_vec();
        unique_doc_ids.sort_unstable();
        unique_doc_ids.dedup();

        // Best-effort pre-delete existence count. This can drift under concurrent
        // insert/delete races, but avoids double-counting duplicate IDs in input.
        let unique_deleted = vx_count_existing(&self.hot_tier, &self.cold_tier, &unique_doc_ids);

        if unique_deleted == 0 {
            return Ok(0);
        }

        // Delete from cold tier (efficient batch with WAL logging)
        let cold_deleted = self.cold_tier.batch_delete(&unique_doc_ids)?;
        let hot_deleted = self.hot_tier.batch_delete(&unique_doc_ids);

        if hot_deleted as u64 > cold_deleted {
            warn!(
                hot_deleted,
                cold_deleted,
                "batch delete removed hot-tier mirror entries without matching canonical cold-tier records"
            );
        }

        // Invalidate caches
        for id_ref in &unique_doc_ids { let id = *id_ref;
            self.cache_strategy.invalidate(id);
        }

        // Query cache invalidation
        for id_ref in &unique_doc_ids { let id = *id_ref;
            self.query_cache.invalidate_doc(id);
        }

        Ok(unique_deleted)
    }

    fn batch_delete_by_metadata_filter(&mut self, filter: &MetadataFilter) -> Result<u64> {
        let hot_ids = self
            .hot_tier
            .scan(|meta| metadata_filter_matches(filter, meta));

        let cold_ids = self.cold_tier.ids_for_metadata_filter(filter);

        let mut all_ids = hot_ids;
        all_ids.extend(cold_ids);
        all_ids.sort_unstable();
        all_ids.dedup();

        self.batch_delete(&all_ids)
    }

    fn insert(
        &mut self,
        doc_id: u64,
        embedding: Vec<f32>,
        metadata: std::collections::HashMap<String, String>,
    ) -> Result<()> {
        // Check for hard limit violation BEFORE insert
        let current_size = self.hot_tier.len();
        if current_size >= self.config.hot_tier_hard_limit {
            warn!(
                current_size,
                hard_limit = self.config.hot_tier_hard_limit,
                "hot tier at hard limit; triggering emergency eviction"
            );

            // Emergency flush: force flush regardless of normal thresholds
            match self.emergency_flush_hot_tier() {
                Ok(flushed) => {
                    info!(flushed_docs = flushed, "emergency flush completed");
                }
                Err(e) => {
                    error!(
                        error = %e,
                        "emergency flush failed; rejecting insert to prevent OOM"
                    );

                    // Update emergency eviction metric
                    let mut stats = self.stats.write();
                    stats.hot_tier_emergency_evictions += 1;

                    anyhow::bail!(
                        "insert rejected: hot tier at hard limit ({}) and emergency flush failed",
                        self.config.hot_tier_hard_limit
                    );
                }
            }

            // Update emergency eviction metric (successful case)
            let mut stats = self.stats.write();
            stats.hot_tier_emergency_evictions += 1;
        }

        // Upsert semantics: invalidate point-lookup cache so readers won't observe stale embeddings.
        self.cache_strategy.invalidate(doc_id);

        let mut embedding = embedding;
        normalize_in_place_if_needed(self.config.hnsw_distance, &mut embedding)?;

        // Persist first: ACK must not be returned before durable WAL + cold-tier update.
        self.cold_tier
            .insert(doc_id, embedding.clone(), metadata.clone())?;

        let removed_by_doc = self.query_cache.invalidate_doc(doc_id);
        let removed_by_insert = self
            .query_cache
            .invalidate_for_insert(&embedding, self.config.hnsw_distance);
        trace!(
            doc_id,
            removed_by_doc,
            removed_by_insert,
            "invalidated query cache entries affected by insert"
        );

        // Keep recent writes in hot tier to accelerate mixed hot/cold search merges.
        let coherence = self
            .cold_tier
            .current_coherence_token(doc_id)
            .ok_or_else(|| anyhow!("insert succeeded but cold tier has no canonical token"))?;
        self.hot_tier
            .insert_with_coherence(doc_id, embedding, metadata, coherence);

        let mut stats = self.stats.write();
        stats.total_inserts += 1;

        Ok(())
    }

    fn emergency_flush_hot_tier(&mut self) -> Result<usize> {
        let documents = self.hot_tier.drain_for_flush();
        let count = documents.len();

        if count == 0 {
            return Ok(0);
        }

        info!(
            documents = count,
            "emergency hot-tier drain: evicting all mirror entries"
        );

        let (success_count, should_clear_query_cache) =
            self.reconcile_drained_hot_tier_documents(documents, "emergency")?;

        if should_clear_query_cache {
            self.query_cache.clear();
        }

        Ok(success_count)
    }


}
}
fn main() {}
