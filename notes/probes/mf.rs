use vstd::prelude::*;
use std::collections::HashMap;
verus! {
pub mod proto {
    pub struct ExactMatch { pub key: String, pub value: String }
    pub struct InMatch { pub key: String, pub values: Vec<String> }
    pub struct AndFilter { pub filters: Vec<MetadataFilter> }
    pub struct OrFilter { pub filters: Vec<MetadataFilter> }
    pub struct NotFilter { pub filter: Option<Box<MetadataFilter>> }
    pub struct RangeMatch { pub key: String, pub bound: Option<range_match::Bound> }
    pub mod range_match { pub enum Bound { Gte(String), Lte(String), Gt(String), Lt(String) } }
    pub mod metadata_filter {
        pub enum FilterType {
            Exact(super::ExactMatch),
            Range(super::RangeMatch),
            InMatch(super::InMatch),
            AndFilter(super::AndFilter),
            OrFilter(super::OrFilter),
            NotFilter(Box<super::NotFilter>),
        }
    }
    pub struct MetadataFilter { pub filter_type: Option<metadata_filter::FilterType> }
}
use crate::proto::{
    metadata_filter::FilterType, AndFilter, ExactMatch, InMatch, MetadataFilter, NotFilter,
    OrFilter, RangeMatch,
};
pub assume_specification<T: PartialEq>[<[T]>::contains](s: &[T], x: &T) -> (r: bool)
    ensures r == s@.contains(*x);
#[derive(Debug)] pub struct ParseErr { _p: core::marker::PhantomData<()> }
pub uninterp spec fn spec_parse_f64(s: Seq<char>) -> Option<f64>;
#[verifier::external_body]
pub fn vx_parse_f64(s: &String) -> (r: Result<f64, ParseErr>)
    ensures r.is_ok() == spec_parse_f64(s@).is_some(), r.is_ok() ==> r.unwrap() == spec_parse_f64(s@).unwrap() { unimplemented!() }
/// Evaluates if a document's metadata matches the given filter.
#[verifier::exec_allows_no_decreases_clause]
fn matches(filter: &MetadataFilter, metadata: &HashMap<String, String>) -> bool {
    match &filter.filter_type {
        Some(FilterType::Exact(f)) => matches_exact(f, metadata),
        Some(FilterType::Range(f)) => matches_range(f, metadata),
        Some(FilterType::InMatch(f)) => matches_in(f, metadata),
        Some(FilterType::AndFilter(f)) => matches_and(f, metadata),
        Some(FilterType::OrFilter(f)) => matches_or(f, metadata),
        Some(FilterType::NotFilter(f)) => matches_not(f, metadata),
        None => true, // Empty filter matches everything
    }
}

#[verifier::exec_allows_no_decreases_clause]
fn matches_exact(filter: &ExactMatch, metadata: &HashMap<String, String>) -> bool {
    match metadata.get(&filter.key) {
        Some(val) => val == &filter.value,
        None => false,
    }
}

#[verifier::exec_allows_no_decreases_clause]
fn matches_range(filter: &RangeMatch, metadata: &HashMap<String, String>) -> bool {
    let val_str = match metadata.get(&filter.key) {
        Some(v) => v,
        None => return false,
    };

    // Try parsing as number first
    if let (Ok(val_num), Ok(bound_num)) = (
        vx_parse_f64(val_str),
        vx_parse_f64(&get_bound_value(filter)),
    ) {
        return match &filter.bound {
            Some(crate::proto::range_match::Bound::Gte(_)) => val_num >= bound_num,
            Some(crate::proto::range_match::Bound::Lte(_)) => val_num <= bound_num,
            Some(crate::proto::range_match::Bound::Gt(_)) => val_num > bound_num,
            Some(crate::proto::range_match::Bound::Lt(_)) => val_num < bound_num,
            None => true,
        };
    }

    // Fallback to string comparison (works for ISO8601 dates)
    let bound_str = get_bound_value(filter);
    match &filter.bound {
        Some(crate::proto::range_match::Bound::Gte(_)) => val_str >= &bound_str,
        Some(crate::proto::range_match::Bound::Lte(_)) => val_str <= &bound_str,
        Some(crate::proto::range_match::Bound::Gt(_)) => val_str > &bound_str,
        Some(crate::proto::range_match::Bound::Lt(_)) => val_str < &bound_str,
        None => true,
    }
}

fn get_bound_value(filter: &RangeMatch) -> String {
    match &filter.bound {
        Some(crate::proto::range_match::Bound::Gte(v)) => v.clone(),
        Some(crate::proto::range_match::Bound::Lte(v)) => v.clone(),
        Some(crate::proto::range_match::Bound::Gt(v)) => v.clone(),
        Some(crate::proto::range_match::Bound::Lt(v)) => v.clone(),
        None => String::new(),
    }
}

#[verifier::exec_allows_no_decreases_clause]
fn matches_in(filter: &InMatch, metadata: &HashMap<String, String>) -> bool {
    match metadata.get(&filter.key) {
        Some(val) => filter.values.contains(val),
        None => false,
    }
}

#[verifier::exec_allows_no_decreases_clause]
fn matches_and(filter: &AndFilter, metadata: &HashMap<String, String>) -> bool {
    for sub_filter in &filter.filters {
        if !matches(sub_filter, metadata) {
            return false;
        }
    }
    true
}

#[verifier::exec_allows_no_decreases_clause]
fn matches_or(filter: &OrFilter, metadata: &HashMap<String, String>) -> bool {
    if filter.filters.is_empty() {
        return false; // Empty OR is false (SQL semantics)
    }
    for sub_filter in &filter.filters {
        if matches(sub_filter, metadata) {
            return true;
        }
    }
    false
}

#[verifier::exec_allows_no_decreases_clause]
fn matches_not(filter: &NotFilter, metadata: &HashMap<String, String>) -> bool {
    match &filter.filter {
        Some(sub_filter) => !matches(sub_filter, metadata),
        None => false, // NOT (Empty) -> NOT (True) -> False
    }
}


}
fn main() {}
