#![feature(allocator_api)]
use vstd::prelude::*;
use std::collections::HashMap;
use std::hash::Hash;
use std::hash::BuildHasher;
use std::borrow::Borrow;
use std::alloc::Allocator;
use vstd::std_specs::hash::*;

verus! {

pub assume_specification<'a, K, V, S, A, Q>
    [HashMap::<K, V, S, A>::get_mut::<Q>](m: &'a mut HashMap<K, V, S, A>, k: &Q) -> (r: Option<&'a mut V>)
    where
        A: Allocator,
        K: Eq + Hash + Borrow<Q>,
        Q: Hash + Eq + ?Sized,
        S: BuildHasher,
    ensures
        obeys_key_model::<K>() && builds_valid_hashers::<S>() ==> (match r {
            Some(v) => contains_borrowed_key(old(m)@, k) && maps_borrowed_key_to_value(old(m)@, k, *v)
                && final(m)@.dom() == old(m)@.dom()
                && maps_borrowed_key_to_value(final(m)@, k, *final(v))
                && (forall|kk: K| #[trigger] old(m)@.contains_key(kk) && contains_borrowed_key(old(m)@.remove(kk), k) ==> final(m)@[kk] == old(m)@[kk]),
            None => !contains_borrowed_key(old(m)@, k) && final(m)@ == old(m)@,
        });
pub assume_specification<'a, T: Copy>[Option::<&'a T>::copied](o: Option<&'a T>) -> (r: Option<T>)
    ensures r == (match o { Some(x) => Some(*x), None => None });

#[derive(Clone, Copy)]
struct LruNode<K> {
    prev: Option<K>,
    next: Option<K>,
}

pub(crate) struct LruIndex<K>
where
    K: Eq + Hash + Copy,
{
    nodes: HashMap<K, LruNode<K>>,
    head: Option<K>,
    tail: Option<K>,
}

pub open spec fn prev_of<K>(order: Seq<K>, i: int) -> Option<K> { if i == 0 { None } else { Some(order[i - 1]) } }
pub open spec fn next_of<K>(order: Seq<K>, i: int) -> Option<K> { if i == order.len() - 1 { None } else { Some(order[i + 1]) } }
pub open spec fn first_of<K>(order: Seq<K>) -> Option<K> { if order.len() == 0 { None } else { Some(order[0]) } }
pub open spec fn last_of<K>(order: Seq<K>) -> Option<K> { if order.len() == 0 { None } else { Some(order[order.len() - 1]) } }

impl<K> LruIndex<K>
where
    K: Eq + Hash + Copy,
{
    // links of every element of `order` are consistent with `order`; head/tail are its ends
    spec fn linked(&self, order: Seq<K>) -> bool {
        &&& order.no_duplicates()
        &&& self.head == first_of(order)
        &&& self.tail == last_of(order)
        &&& forall|i: int| 0 <= i < order.len() ==> #[trigger] self.nodes@.contains_key(order[i])
        &&& forall|i: int| 0 <= i < order.len() ==> (#[trigger] self.nodes@[order[i]]).prev == prev_of(order, i)
        &&& forall|i: int| 0 <= i < order.len() ==> (#[trigger] self.nodes@[order[i]]).next == next_of(order, i)
    }
    spec fn wf_with(&self, order: Seq<K>) -> bool {
        &&& self.linked(order)
        &&& forall|k: K| self.nodes@.contains_key(k) ==> order.contains(k)
    }
    spec fn wf(&self) -> bool { exists|order: Seq<K>| self.wf_with(order) }
    spec fn keys(&self) -> Set<K> { self.nodes@.dom() }

    fn detach(&mut self, key: K, prev: Option<K>, next: Option<K>)
        requires
            obeys_key_model::<K>(),
            exists|order: Seq<K>, i: int| #![auto] 0 <= i < order.len() && order[i] == key
                && prev == prev_of(order, i) && next == next_of(order, i)
                && old(self).linked_except(order, i),
        ensures
            final(self).nodes@.dom() == old(self).nodes@.dom(),
            forall|order: Seq<K>, i: int| #![auto] 0 <= i < order.len() && order[i] == key
                && prev == prev_of(order, i) && next == next_of(order, i)
                && old(self).linked_except(order, i) ==> final(self).linked(order.remove(i)),
            final(self).nodes@.contains_key(key) ==> final(self).nodes@[key] == old(self).nodes@[key],
    {
        broadcast use vstd::std_specs::hash::group_hash_axioms;
        if let Some(prev_key) = prev {
            if let Some(node) = self.nodes.get_mut(&prev_key) {
                node.next = next;
            }
        } else {
            self.head = next;
        }

        if let Some(next_key) = next {
            if let Some(node) = self.nodes.get_mut(&next_key) {
                node.prev = prev;
            }
        } else {
            self.tail = prev;
        }

        if self.head == Some(key) {
            self.head = next;
        }
        if self.tail == Some(key) {
            self.tail = prev;
        }
        assert forall|order: Seq<K>, i: int| #![auto] 0 <= i < order.len() && order[i] == key
                && prev == prev_of(order, i) && next == next_of(order, i)
                && old(self).linked_except(order, i) implies self.linked(order.remove(i)) by {
            let o2 = order.remove(i);
            assert(o2.len() == order.len() - 1);
            assert forall|j: int| 0 <= j < o2.len() implies o2[j] == (if j < i { order[j] } else { order[j + 1] }) by {}
            assert(o2.no_duplicates());
            assert forall|j: int| 0 <= j < o2.len() implies #[trigger] self.nodes@.contains_key(o2[j]) by {
                if j < i { assert(old(self).nodes@.contains_key(order[j])); } else { assert(old(self).nodes@.contains_key(order[j + 1])); }
            }
            assert forall|j: int| 0 <= j < o2.len() implies (#[trigger] self.nodes@[o2[j]]).prev == prev_of(o2, j) by {
                let jj = if j < i { j } else { j + 1 };
                assert(o2[j] == order[jj]);
                assert(old(self).nodes@[order[jj]].prev == prev_of(order, jj));
            }
            assert forall|j: int| 0 <= j < o2.len() implies (#[trigger] self.nodes@[o2[j]]).next == next_of(o2, j) by {
                let jj = if j < i { j } else { j + 1 };
                assert(o2[j] == order[jj]);
                assert(old(self).nodes@[order[jj]].next == next_of(order, jj));
            }
        }
    }

    // like `linked` but element i's own node may be absent or stale, and head/tail still refer to the full order
    spec fn linked_except(&self, order: Seq<K>, skip: int) -> bool {
        &&& order.no_duplicates()
        &&& self.head == first_of(order)
        &&& self.tail == last_of(order)
        &&& forall|i: int| 0 <= i < order.len() && i != skip ==> #[trigger] self.nodes@.contains_key(order[i])
        &&& forall|i: int| 0 <= i < order.len() && i != skip ==> (#[trigger] self.nodes@[order[i]]).prev == prev_of(order, i)
        &&& forall|i: int| 0 <= i < order.len() && i != skip ==> (#[trigger] self.nodes@[order[i]]).next == next_of(order, i)
    }
}

} // verus!
fn main() {}
