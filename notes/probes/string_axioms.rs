use vstd::prelude::*;
use std::collections::HashMap;
use vstd::std_specs::hash::*;
use vstd::std_specs::cmp::*;
verus! {
#[verifier::external_body]
pub broadcast proof fn axiom_string_ext(a: String, b: String)
    ensures #![trigger a@, b@] (a@ == b@) == (a == b) {}
#[verifier::external_body]
pub broadcast proof fn axiom_string_key_model()
    ensures #[trigger] obeys_key_model::<String>() {}

#[verifier::external_body]
pub broadcast proof fn axiom_string_eq_spec(a: String, b: String)
    ensures #![trigger a.eq_spec(&b)] (a.eq_spec(&b) == (a@ == b@)) {}
#[verifier::external_body]
pub broadcast proof fn axiom_string_obeys_eq()
    ensures #[trigger] <String as vstd::std_specs::cmp::PartialEqSpec>::obeys_eq_spec() {}
fn g(m: &HashMap<String, String>, k: &String) -> (r: bool)
    ensures r == m@.contains_key(*k)
{
    broadcast use vstd::std_specs::hash::group_hash_axioms;
    broadcast use axiom_string_key_model;
    m.contains_key(k)
}
fn e(a: &String, b: &String) -> (r: bool) ensures r == (a@ == b@) {
    broadcast use axiom_string_ext;
    broadcast use axiom_string_eq_spec;
    broadcast use axiom_string_obeys_eq;
    a == b
}
fn h(m: &HashMap<String, String>, k: &str) -> (r: bool)
{
    broadcast use vstd::std_specs::hash::group_hash_axioms;
    broadcast use axiom_string_key_model;
    m.contains_key(k)
}
}
fn main() {}
