use vstd::prelude::*;
verus! {

#[verifier::external_body]
pub struct RoaringTreemap { _p: core::marker::PhantomData<()> }

impl RoaringTreemap {
    pub uninterp spec fn view(&self) -> Set<u64>;
    #[verifier::external_body]
    pub fn new() -> (r: Self) ensures r@ == Set::<u64>::empty() { unimplemented!() }
}
impl Clone for RoaringTreemap {
    #[verifier::external_body]
    fn clone(&self) -> (r: Self) ensures r@ == self@ { unimplemented!() }
}
impl core::ops::BitOrAssign<RoaringTreemap> for RoaringTreemap {
    #[verifier::external_body]
    fn bitor_assign(&mut self, rhs: RoaringTreemap) ensures final(self)@ == old(self)@.union(rhs@) { unimplemented!() }
}
impl vstd::std_specs::ops::BitOrAssignSpecImpl<RoaringTreemap> for RoaringTreemap {
    open spec fn obeys_bitor_assign_spec() -> bool { false }
    open spec fn bitor_assign_req(&self, rhs: RoaringTreemap) -> bool { true }
    open spec fn bitor_assign_spec(&self, rhs: RoaringTreemap) -> &Self { self }
}
impl core::ops::BitAndAssign<RoaringTreemap> for RoaringTreemap {
    #[verifier::external_body]
    fn bitand_assign(&mut self, rhs: RoaringTreemap) ensures final(self)@ == old(self)@.intersect(rhs@) { unimplemented!() }
}
impl vstd::std_specs::ops::BitAndAssignSpecImpl<RoaringTreemap> for RoaringTreemap {
    open spec fn obeys_bitand_assign_spec() -> bool { false }
    open spec fn bitand_assign_req(&self, rhs: RoaringTreemap) -> bool { true }
    open spec fn bitand_assign_spec(&self, rhs: RoaringTreemap) -> &Self { self }
}
impl<'a> core::ops::SubAssign<&'a RoaringTreemap> for RoaringTreemap {
    #[verifier::external_body]
    fn sub_assign(&mut self, rhs: &'a RoaringTreemap) ensures final(self)@ == old(self)@.difference(rhs@) { unimplemented!() }
}
impl<'a> vstd::std_specs::ops::SubAssignSpecImpl<&'a RoaringTreemap> for RoaringTreemap {
    open spec fn obeys_sub_assign_spec() -> bool { false }
    open spec fn sub_assign_req(&self, rhs: &'a RoaringTreemap) -> bool { true }
    open spec fn sub_assign_spec(&self, rhs: &'a RoaringTreemap) -> &Self { self }
}

pub struct ExactMatch { pub key: String, pub value: String }
pub struct InMatch { pub key: String, pub values: Vec<String> }
pub struct AndFilter { pub filters: Vec<MetadataFilter> }
pub struct OrFilter { pub filters: Vec<MetadataFilter> }
pub struct NotFilter { pub filter: Option<Box<MetadataFilter>> }
pub struct RangeMatch { pub key: String }
pub enum FilterType {
    Exact(ExactMatch),
    Range(RangeMatch),
    InMatch(InMatch),
    AndFilter(AndFilter),
    OrFilter(OrFilter),
    NotFilter(Box<NotFilter>),
}
pub struct MetadataFilter { pub filter_type: Option<FilterType> }

pub struct MetadataInvertedIndex { pub alive: RoaringTreemap }
impl MetadataInvertedIndex {
    #[verifier::external_body]
    fn bitmap_for_exact(&self, key: &str, value: &str) -> RoaringTreemap { unimplemented!() }
}
#[verifier::external_body]
fn compile_range_filter_to_bitmap(range: &RangeMatch, index: &MetadataInvertedIndex) -> Option<RoaringTreemap> { unimplemented!() }

fn compile_filter_to_bitmap(
    filter: &MetadataFilter,
    index: &MetadataInvertedIndex,
) -> Option<RoaringTreemap>
    decreases filter
{
    match &filter.filter_type {
        None => Some(index.alive.clone()),
        Some(FilterType::Exact(exact)) => Some(index.bitmap_for_exact(&exact.key, &exact.value)),
        Some(FilterType::InMatch(in_match)) => {
            let mut out = RoaringTreemap::new();
            for v in &in_match.values {
                out |= index.bitmap_for_exact(&in_match.key, v);
            }
            Some(out)
        }
        Some(FilterType::AndFilter(and_filter)) => {
            if and_filter.filters.is_empty() {
                return Some(index.alive.clone());
            }
            let mut it = and_filter.filters.iter();
            let first = it.next()?;
            let mut acc = compile_filter_to_bitmap(first, index)?;
            for sub in it {
                let b = compile_filter_to_bitmap(sub, index)?;
                acc &= b;
            }
            Some(acc)
        }
        Some(FilterType::OrFilter(or_filter)) => {
            if or_filter.filters.is_empty() {
                return Some(RoaringTreemap::new());
            }
            let mut acc = RoaringTreemap::new();
            for sub in &or_filter.filters {
                let b = compile_filter_to_bitmap(sub, index)?;
                acc |= b;
            }
            Some(acc)
        }
        Some(FilterType::NotFilter(not_filter)) => {
            let sub = not_filter.filter.as_ref()?;
            let sub_b = compile_filter_to_bitmap(sub, index)?;
            let mut out = index.alive.clone();
            out -= &sub_b;
            Some(out)
        }
        Some(FilterType::Range(range)) => compile_range_filter_to_bitmap(range, index),
    }
}

}
fn main() {}
