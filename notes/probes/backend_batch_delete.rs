#![feature(allocator_api)]
use vstd::prelude::*;
use std::collections::HashMap;
use vstd::std_specs::hash::*;

macro_rules! debug { ($($t:tt)*) => {} }
macro_rules! error { ($($t:tt)*) => {} }
macro_rules! trace { ($($t:tt)*) => {} }

pub mod anyhow {
    use vstd::prelude::*;
    verus! {
    #[derive(Debug)] pub struct Error { pub x: bool }
    pub type Result<T> = core::result::Result<T, Error>;
    #[verifier::external_body]
    pub fn mk_err() -> Error { unimplemented!() }
    pub trait Context<T>: Sized {
        spec fn ok_val(self) -> Option<T>;
        fn context(self, msg: &str) -> (r: core::result::Result<T, Error>)
            ensures r.is_ok() == self.ok_val().is_some(), r.is_ok() ==> r.unwrap() == self.ok_val().unwrap();
    }
    impl<T, E> Context<T> for core::result::Result<T, E> {
        open spec fn ok_val(self) -> Option<T> { match self { Ok(v) => Some(v), Err(_) => None } }
        #[verifier::external_body]
        fn context(self, msg: &str) -> (r: core::result::Result<T, Error>) { unimplemented!() }
    }
    }
    macro_rules! bail { ($($t:tt)*) => { return Err(crate::anyhow::mk_err()) } }
    pub(crate) use bail;
    macro_rules! anyhow { ($($t:tt)*) => { crate::anyhow::mk_err() } }
    pub(crate) use anyhow;
}

verus! {
use anyhow::{Result, Context};
#[verifier::external_body] pub broadcast proof fn axiom_string_key_model() ensures #[trigger] obeys_key_model::<String>() {}
#[verifier::external_body] pub broadcast proof fn axiom_string_cloned(a: String, b: String) ensures #[trigger] cloned(a, b) ==> a == b {}

pub assume_specification<'a, T: Copy>[Option::<&'a T>::copied](o: Option<&'a T>) -> (r: Option<T>)
    ensures r == (match o { Some(x) => Some(*x), None => None });
pub assume_specification<T: Default>[std::mem::take](t: &mut T) -> (r: T)
    ensures r == *old(t);


#[derive(Debug, Clone, Copy, PartialEq, Eq, Structural)]
pub enum WalOp { Insert = 1, Delete = 2, UpdateMetadata = 3 }
pub struct WalEntry {
    pub op: WalOp,
    pub doc_id: u64,
    pub embedding: Vec<f32>,
    pub metadata: HashMap<String, String>,
    pub seq_no: u64,
    pub timestamp: u64,
}
#[derive(Debug, Clone, Copy, PartialEq, Eq, Structural)]
pub enum DistanceMetric { Cosine, Euclidean, InnerProduct }
#[derive(Debug, Clone, Copy, PartialEq, Eq, Structural)]
pub struct VectorIntegrityDigest { pub hi: u64, pub lo: u64 }
pub uninterp spec fn spec_digest(e: Seq<f32>) -> VectorIntegrityDigest;
#[verifier::external_body]
pub fn digest_embedding(e: &[f32]) -> (r: VectorIntegrityDigest) ensures r == spec_digest(e@) { unimplemented!() }

// capability: this exact entry content was accepted by the log
pub uninterp spec fn logged(op: WalOp, doc_id: u64, seq_no: u64, emb: Seq<f32>, meta: Map<String, String>) -> bool;

#[verifier::external_body]
pub struct WalGuard { _p: core::marker::PhantomData<()> }
impl WalGuard {
    #[verifier::external_body]
    pub fn append_batch(&mut self, entries: &Vec<WalEntry>) -> (r: Result<()>) { unimplemented!() }
    #[verifier::external_body]
    pub fn append(&mut self, entry: &WalEntry) -> (r: Result<()>)
        ensures r.is_ok() ==> logged(entry.op, entry.doc_id, entry.seq_no, entry.embedding@, entry.metadata@)
    { unimplemented!() }
}
#[verifier::external_body]
pub struct WalLock { _p: core::marker::PhantomData<()> }
impl WalLock { #[verifier::external_body] pub fn write(&self) -> WalGuard { unimplemented!() } }

#[verifier::external_body]
pub struct CounterGuard { _p: core::marker::PhantomData<()> }
impl CounterGuard { pub uninterp spec fn view(&self) -> usize; }
impl core::ops::Deref for CounterGuard {
    type Target = usize;
    #[verifier::external_body]
    fn deref(&self) -> (r: &usize) ensures *r == self@ { unimplemented!() }
}
impl core::ops::DerefMut for CounterGuard {
    #[verifier::external_body]
    fn deref_mut(&mut self) -> (r: &mut usize) ensures *r == old(self)@, *final(r) == final(self)@ { unimplemented!() }
}
#[verifier::external_body]
pub struct CounterLock { _p: core::marker::PhantomData<()> }
impl CounterLock { #[verifier::external_body] pub fn write(&self) -> (g: CounterGuard) ensures g@ < usize::MAX { unimplemented!() } }

#[verifier::external_body]
pub struct PathBuf { _p: core::marker::PhantomData<()> }
impl PathBuf {
    #[verifier::external_body] pub fn join(&self, s: &str) -> PathBuf { unimplemented!() }
    #[verifier::external_body] pub fn exists(&self) -> bool { unimplemented!() }
    #[verifier::external_body] pub fn display(&self) -> u8 { unimplemented!() }
}
#[verifier::external_body]
fn check_and_warn_disk_space(p: &PathBuf) -> Result<bool> { unimplemented!() }
const DISK_SPACE_CRITICAL_THRESHOLD: f64 = 0.05;

#[verifier::external_body]
pub struct SeqCounter { _p: core::marker::PhantomData<()> }
pub enum Ordering { SeqCst }
impl SeqCounter { #[verifier::external_body] pub fn fetch_add(&self, n: u64, o: Ordering) -> (r: u64) ensures r < u64::MAX / 2 { unimplemented!() } }
#[verifier::external_body]
pub struct Flag { _p: core::marker::PhantomData<()> }
impl Flag {
    #[verifier::external_body] pub fn load(&self, o: Ordering) -> bool { unimplemented!() }
    #[verifier::external_body] pub fn store(&self, v: bool, o: Ordering) { unimplemented!() }
}
#[verifier::external_body]
pub struct LockUnit { _p: core::marker::PhantomData<()> }
impl LockUnit {
    #[verifier::external_body] pub fn read(&self) -> u8 { unimplemented!() }
    #[verifier::external_body] pub fn lock(&self) -> u8 { unimplemented!() }
}
#[verifier::external_body]
pub fn drop<T>(t: T) { unimplemented!() }

struct PersistenceState {
    data_dir: PathBuf,
    wal: WalLock,
    inserts_since_snapshot: CounterLock,
    snapshot_interval: usize,
    next_wal_seq: SeqCounter,
    snapshot_lock: LockUnit,
}
impl PersistenceState {
    #[verifier::external_body]
    fn rotate_wal_if_needed(&self, wal_guard: &mut WalGuard) -> Result<bool> { unimplemented!() }
}

struct DocumentStore {
    embeddings: Vec<Vec<f32>>,
    metadata: Vec<HashMap<String, String>>,
    versions: Vec<u64>,
    digests: Vec<VectorIntegrityDigest>,
    external_to_internal: HashMap<u64, usize>,
    internal_to_external: Vec<Option<u64>>,
}
impl DocumentStore {
    spec fn wf(&self) -> bool {
        let n = self.embeddings@.len();
        &&& self.metadata@.len() == n
        &&& self.versions@.len() == n
        &&& self.digests@.len() == n
        &&& self.internal_to_external@.len() == n
        &&& forall|d: u64| #[trigger] self.external_to_internal@.contains_key(d) ==>
                self.external_to_internal@[d] < n && self.internal_to_external@[self.external_to_internal@[d] as int] == Some(d)
        &&& forall|i: int| 0 <= i < n && (#[trigger] self.internal_to_external@[i]).is_some() ==>
                self.external_to_internal@.contains_key(self.internal_to_external@[i].unwrap())
                && self.external_to_internal@[self.internal_to_external@[i].unwrap()] == i
    }
    spec fn view(&self) -> Map<u64, (Seq<f32>, Map<String, String>)> {
        Map::new(
            self.external_to_internal@.dom(),
            |d: u64| (self.embeddings@[self.external_to_internal@[d] as int]@, self.metadata@[self.external_to_internal@[d] as int]@),
        )
    }
}
#[verifier::external_body]
fn vx_count_tombstones(s: &DocumentStore) -> usize { unimplemented!() }

#[verifier::external_body]
pub struct MetadataInvertedIndex { _p: core::marker::PhantomData<()> }
impl MetadataInvertedIndex {
    #[verifier::external_body] fn remove_doc(&mut self, doc_id: u64, metadata: &HashMap<String, String>) { unimplemented!() }
    #[verifier::external_body] fn insert_doc(&mut self, doc_id: u64, metadata: &HashMap<String, String>) { unimplemented!() }
}
#[verifier::external_body]
pub struct HnswVectorIndex { _p: core::marker::PhantomData<()> }
impl HnswVectorIndex {
    #[verifier::external_body] fn distance_metric(&self) -> DistanceMetric { unimplemented!() }
    #[verifier::external_body] fn is_full(&self) -> bool { unimplemented!() }
    #[verifier::external_body] fn len(&self) -> usize { unimplemented!() }
    #[verifier::external_body] fn capacity(&self) -> usize { unimplemented!() }
    #[verifier::external_body] fn add_vector(&mut self, id: u64, e: &[f32]) -> Result<()> { unimplemented!() }
    #[verifier::external_body] fn complete_sequential_inserts(&mut self) { unimplemented!() }
}
#[verifier::external_body]
fn normalize_in_place_if_needed(distance: DistanceMetric, embedding: &mut Vec<f32>) -> (r: Result<()>)
    ensures r.is_err() ==> final(embedding)@ == old(embedding)@, final(embedding)@.len() == old(embedding)@.len()
{ unimplemented!() }

pub struct HnswBackend {
    index: HnswVectorIndex,
    doc_store: DocumentStore,
    metadata_index: MetadataInvertedIndex,
    persistence: Option<PersistenceState>,
    wal_inconsistent: Flag,
    write_gate: LockUnit,
}

impl HnswBackend {
    #[verifier::external_body] fn timestamp() -> u64 { unimplemented!() }
    #[verifier::external_body] fn dimension(&self) -> usize { unimplemented!() }
    #[verifier::external_body] fn create_snapshot(&mut self) -> (r: Result<()>)
        ensures final(self).doc_store == old(self).doc_store, final(self).persistence.is_some() == old(self).persistence.is_some() { unimplemented!() }
    #[verifier::external_body] fn compact_tombstones(&mut self) -> (r: Result<usize>)
        ensures final(self).doc_store.wf(), final(self).doc_store@ == old(self).doc_store@, final(self).persistence.is_some() == old(self).persistence.is_some() { unimplemented!() }

    #[verifier::exec_allows_no_decreases_clause]
    fn batch_delete(&mut self, doc_ids: &[u64]) -> (r: Result<u64>)
        requires old(self).doc_store.wf(),
        ensures
            r.is_err() ==> final(self).doc_store == old(self).doc_store,
            r.is_ok() ==> final(self).doc_store.wf(),
    {
        broadcast use vstd::std_specs::hash::group_hash_axioms;
        if self.wal_inconsistent.load(Ordering::SeqCst) {
            anyhow::bail!("Batch delete rejected: WAL is in an inconsistent state.");
        }

        // Acquire snapshot read lock (blocks concurrent snapshot writes) and write gate
        // to serialize WAL + in-memory mutations without holding doc_store write lock
        // during WAL fsync.
        let snapshot_guard = self.persistence.as_ref().map(|p| p.snapshot_lock.read());
        let write_gate_guard = self.write_gate.lock();

        let mut deleted_count = 0;
        let mut wal_entries = Vec::with_capacity(doc_ids.len());
        let mut deletes: Vec<(u64, usize, HashMap<String, String>)> = Vec::new();
        let timestamp = Self::timestamp();

        // First pass: identify valid deletes and prepare WAL entries
        {
            let store = &self.doc_store;
            for doc_id_ref in it: doc_ids
                invariant self.doc_store == old(self).doc_store, *store == self.doc_store, self.doc_store.wf(), wal_entries@.len() == deletes@.len(), deletes@.len() <= it.index@, it.seq().len() == doc_ids@.len(),
                    forall|k: int| 0 <= k < deletes@.len() ==> self.doc_store.external_to_internal@.contains_key((#[trigger] deletes@[k]).0)
                        && self.doc_store.external_to_internal@[deletes@[k].0] == deletes@[k].1,
            {
                let doc_id = *doc_id_ref;
                loop
                    invariant_except_break self.doc_store == old(self).doc_store, *store == self.doc_store, self.doc_store.wf(), wal_entries@.len() == deletes@.len(), deletes@.len() <= it.index@,
                    forall|k: int| 0 <= k < deletes@.len() ==> self.doc_store.external_to_internal@.contains_key((#[trigger] deletes@[k]).0)
                        && self.doc_store.external_to_internal@[deletes@[k].0] == deletes@[k].1,
                    ensures self.doc_store == old(self).doc_store, *store == self.doc_store, self.doc_store.wf(), wal_entries@.len() == deletes@.len(), deletes@.len() <= it.index@ + 1,
                    forall|k: int| 0 <= k < deletes@.len() ==> self.doc_store.external_to_internal@.contains_key((#[trigger] deletes@[k]).0)
                        && self.doc_store.external_to_internal@[deletes@[k].0] == deletes@[k].1,
                {
                let internal_id = match store.external_to_internal.get(&doc_id) {
                    Some(id) => *id,
                    None => break,
                };

                if store
                    .internal_to_external
                    .get(internal_id)
                    .and_then(|v: &Option<u64>| -> (r: Option<u64>) ensures r == *v { *v })
                    .is_none()
                {
                    break;
                }

                wal_entries.push(WalEntry {
                    op: WalOp::Delete,
                    doc_id,
                    embedding: Vec::new(),
                    metadata: HashMap::new(),
                    seq_no: 0,
                    timestamp,
                });
                deletes.push((doc_id, internal_id, store.metadata[internal_id].clone()));
            
                break;
                }
            }
        }

        if wal_entries.is_empty() {
            return Ok(0);
        }

        let mut should_snapshot = false;

        // Log to WAL (batched)
        if let Some(ref persistence) = self.persistence {
            if !check_and_warn_disk_space(&persistence.data_dir)? {
                anyhow::bail!(
                    "Batch delete rejected: disk space critically low (< {}%)",
                    DISK_SPACE_CRITICAL_THRESHOLD * 100.0
                );
            }

            let manifest_path = persistence.data_dir.join("MANIFEST");
            if !manifest_path.exists() {
                anyhow::bail!(
                    "MANIFEST missing at {}; refusing to append WAL to avoid unrecoverable data loss",
                    manifest_path.display()
                );
            }

            let base_seq = persistence
                .next_wal_seq
                .fetch_add(wal_entries.len() as u64, Ordering::SeqCst);
            for idx in 0..wal_entries.len()
                invariant wal_entries@.len() == wal_entries@.len(), base_seq < u64::MAX / 2, wal_entries@.len() < u64::MAX / 4,
            {
                let entry = &mut wal_entries[idx];
                entry.seq_no = base_seq + idx as u64;
            }

            let mut wal = persistence.wal.write();
            wal.append_batch(&wal_entries)?;
            if let Err(e) = persistence.rotate_wal_if_needed(&mut wal) {
                error!(
                    error = %e,
                    docs = wal_entries.len(),
                    wal_seq_no_base = base_seq,
                    "failed to rotate WAL segment after batch delete; continuing with current WAL"
                );
            }

            // Update snapshot counter
            let mut inserts = persistence.inserts_since_snapshot.write();
            *inserts += wal_entries.len();

            if persistence.snapshot_interval > 0 && *inserts >= persistence.snapshot_interval {
                should_snapshot = true;
                debug!(
                    inserts = *inserts,
                    interval = persistence.snapshot_interval,
                    "snapshot interval reached (batch delete); will create snapshot"
                );
            }
        }

        let mut removed_meta: Vec<(u64, HashMap<String, String>)> = Vec::new();
        let store = &mut self.doc_store;

        // Apply changes to memory
        for (doc_id, internal_id, old_meta) in deletes {
            if store.internal_to_external.get(internal_id).and_then(|v| *v) == Some(doc_id) {
                store.internal_to_external[internal_id] = None;
                store.external_to_internal.remove(&doc_id);
                store.metadata[internal_id].clear();
                removed_meta.push((internal_id as u64, old_meta));
                deleted_count += 1;
            }
        }

        // Release locks before snapshot
        drop(write_gate_guard);

        if !removed_meta.is_empty() {
            let meta_index = &mut self.metadata_index;
            for (internal_id, old_meta) in removed_meta {
                meta_index.remove_doc(internal_id, &old_meta);
            }
        }

        drop(snapshot_guard);

        if should_snapshot {
            if let Err(e) = self.create_snapshot() {
                error!(error = %e, "failed to create snapshot after batch delete");
            }
        }

        Ok(deleted_count)
    }


}
}
fn main() {}
