use vstd::prelude::*;
macro_rules! debug { ($($t:tt)*) => {} }
macro_rules! error { ($($t:tt)*) => {} }
macro_rules! warn { ($($t:tt)*) => {} }

pub mod anyhow {
    use vstd::prelude::*;
    verus! {
    #[derive(Debug)] pub struct Error { pub x: bool }
    pub type Result<T> = core::result::Result<T, Error>;
    }
}
pub mod vx_std { pub mod io {
    use vstd::prelude::*;
    verus!{
    #[derive(Debug, PartialEq, Eq, Structural, Clone, Copy)] pub enum ErrorKind { NotFound, Other }
    #[derive(Debug)] pub struct Error { pub k: ErrorKind }
    impl Error { pub fn kind(&self) -> (r: ErrorKind) ensures r == self.k { self.k } }
    }
} pub mod fs {
    use vstd::prelude::*;
    verus!{
    #[verifier::external_body]
    pub fn remove_file(p: &crate::PathBuf) -> (r: core::result::Result<(), super::io::Error>)
        requires crate::published_without(p.name())
    { unimplemented!() }
    }
} }


verus! {
use anyhow::Result;

pub struct WalEntry { pub seq_no: u64, pub timestamp: u64 }
pub open spec fn covered(e: WalEntry, s: u64, t: u64) -> bool {
    if e.seq_no > 0 && s > 0 { e.seq_no <= s } else if e.seq_no == 0 && t > 0 && e.timestamp > 0 { e.timestamp <= t } else { false }
}
pub open spec fn all_covered(es: Seq<WalEntry>, s: u64, t: u64) -> bool { forall|i: int| 0 <= i < es.len() ==> covered(#[trigger] es[i], s, t) }

// ghost content of a segment file, keyed by its name
pub uninterp spec fn seg_entries(name: Seq<char>) -> Seq<WalEntry>;
// capability: a MANIFEST whose list excludes this name has been saved
pub uninterp spec fn published_without(name: Seq<char>) -> bool;

#[verifier::external_body]
pub struct Path { _p: core::marker::PhantomData<()> }
#[verifier::external_body]
pub struct PathBuf { _p: core::marker::PhantomData<()> }
impl PathBuf {
    pub uninterp spec fn name(&self) -> Seq<char>;
    #[verifier::external_body] pub fn exists(&self) -> bool { unimplemented!() }
}
impl Path {
    #[verifier::external_body] pub fn join(&self, s: &String) -> (r: PathBuf) ensures r.name() == s@ { unimplemented!() }
}
#[verifier::external_body]
pub struct WalReader { _p: core::marker::PhantomData<()> }
impl WalReader {
    pub uninterp spec fn seg(&self) -> Seq<char>;
    pub uninterp spec fn corrupted(&self) -> usize;
    #[verifier::external_body] pub fn open(p: &PathBuf) -> (r: Result<WalReader>) ensures r.is_ok() ==> r.unwrap().seg() == p.name() { unimplemented!() }
    #[verifier::external_body] pub fn read_all(&mut self) -> (r: Result<Vec<WalEntry>>)
        ensures final(self).seg() == old(self).seg(),
            r.is_ok() && final(self).corrupted() == 0 ==> r.unwrap()@ == seg_entries(old(self).seg())
    { unimplemented!() }
    #[verifier::external_body] pub fn corrupted_entries(&self) -> (r: usize) ensures r == self.corrupted() { unimplemented!() }
}
pub struct Manifest { pub wal_segments: Vec<String> }
pub struct HnswBackend;

pub open spec fn is_sublist(a: Seq<String>, b: Seq<String>) -> bool {
    exists|f: Seq<int>| f.len() == a.len() && (forall|i: int| 0 <= i < f.len() ==> 0 <= #[trigger] f[i] < b.len() && a[i] == b[f[i]])
        && (forall|i: int, j: int| 0 <= i < j < f.len() ==> f[i] < f[j])
}

impl HnswBackend {
    #[verifier::exec_allows_no_decreases_clause]
    fn compact_old_wal_segments(
        &self,
        data_dir: &Path,
        snapshot_last_wal_seq: u64,
        snapshot_timestamp: u64,
        manifest: &mut Manifest,
    ) -> (r: Result<usize>)
        requires
            // granted by the caller: every non-active, fully covered segment was already published as dropped
            forall|i: int| 0 <= i < old(manifest).wal_segments@.len() - 1 ==> published_without(#[trigger] old(manifest).wal_segments@[i]@),
        ensures
            r.is_ok() ==> old(manifest).wal_segments@.len() > 0 ==> final(manifest).wal_segments@.len() > 0
                && final(manifest).wal_segments@.last() == old(manifest).wal_segments@.last(),
    {
        let mut deleted_count = 0;
        let mut segments_to_keep = Vec::new();

        if snapshot_last_wal_seq == 0 && snapshot_timestamp == 0 {
            warn!("snapshot has no sequence or timestamp; skipping WAL compaction for safety");
            return Ok(0);
        }

        // Always keep the last WAL segment (active WAL)
        let active_wal_index = manifest.wal_segments.len().saturating_sub(1);

        let ghost segs0 = manifest.wal_segments@;
        for idx in 0..manifest.wal_segments.len()
            invariant manifest.wal_segments@ == segs0, active_wal_index == (if segs0.len() == 0 { 0 } else { segs0.len() - 1 }) as usize,
                idx > active_wal_index ==> segments_to_keep@.len() > 0 && segments_to_keep@.last() == segs0.last(),
                forall|i: int| 0 <= i < segs0.len() - 1 ==> published_without(#[trigger] segs0[i]@),
        {
            loop
                invariant_except_break manifest.wal_segments@ == segs0, idx < segs0.len(),
                    forall|i: int| 0 <= i < segs0.len() - 1 ==> published_without(#[trigger] segs0[i]@),
                ensures manifest.wal_segments@ == segs0,
                    idx >= active_wal_index ==> (idx == active_wal_index && segments_to_keep@.len() > 0 && segments_to_keep@.last() == segs0[idx as int]) || (idx > active_wal_index),
            {
            let wal_name = &manifest.wal_segments[idx];
            // Never delete active WAL
            if idx == active_wal_index {
                segments_to_keep.push(wal_name.clone());
                break;
            }

            let wal_path = data_dir.join(wal_name);
            if !wal_path.exists() {
                warn!(wal_segment = wal_name, "WAL segment missing; skipping");
                break;
            }

            let mut reader = match WalReader::open(&wal_path) {
                Ok(reader) => reader,
                Err(e) => {
                    warn!(wal_segment = wal_name, error = %e, "failed to open WAL segment; keeping");
                    segments_to_keep.push(wal_name.clone());
                    break;
                }
            };

            let entries = match reader.read_all() {
                Ok(entries) => entries,
                Err(e) => {
                    warn!(wal_segment = wal_name, error = %e, "failed to read WAL segment; keeping");
                    segments_to_keep.push(wal_name.clone());
                    break;
                }
            };

            if reader.corrupted_entries() > 0 {
                warn!(
                    wal_segment = wal_name,
                    corrupted = reader.corrupted_entries(),
                    "WAL segment has corrupted entries; keeping for safety"
                );
                segments_to_keep.push(wal_name.clone());
                break;
            }

            let mut max_seq = 0u64;
            let mut max_timestamp = 0u64;
            let mut has_unknown_timestamp = false;
            let mut has_legacy = false;
            let mut all_entries_covered = true;
            for entry in &entries {
                if entry.seq_no == 0 {
                    has_legacy = true;
                    if entry.timestamp == 0 {
                        has_unknown_timestamp = true;
                    } else if entry.timestamp > max_timestamp {
                        max_timestamp = entry.timestamp;
                    }
                } else if entry.seq_no > max_seq {
                    max_seq = entry.seq_no;
                }

                let covered = if entry.seq_no > 0 && snapshot_last_wal_seq > 0 {
                    entry.seq_no <= snapshot_last_wal_seq
                } else if entry.seq_no == 0 && snapshot_timestamp > 0 && entry.timestamp > 0 {
                    entry.timestamp <= snapshot_timestamp
                } else {
                    false
                };

                if !covered {
                    all_entries_covered = false;
                }
            }

            if has_legacy && has_unknown_timestamp {
                warn!(
                    wal_segment = wal_name,
                    "WAL segment contains legacy entries without timestamps; keeping"
                );
                segments_to_keep.push(wal_name.clone());
                break;
            }

            if all_entries_covered {
                match vx_std::fs::remove_file(&wal_path) {
                    Ok(()) => {
                        debug!(
                            wal_segment = wal_name,
                            wal_max_seq = max_seq,
                            wal_max_ts = max_timestamp,
                            snapshot_seq = snapshot_last_wal_seq,
                            snapshot_ts = snapshot_timestamp,
                            "deleted old WAL segment",
                        );
                        deleted_count += 1;
                    }
                    Err(e) if e.kind() == vx_std::io::ErrorKind::NotFound => {
                        warn!(
                            wal_segment = wal_name,
                            "WAL segment already missing (skipping)"
                        );
                    }
                    Err(e) => {
                        error!(
                            wal_segment = wal_name,
                            error = %e,
                            "failed to delete old WAL segment",
                        );
                        segments_to_keep.push(wal_name.clone());
                    }
                }
            } else {
                segments_to_keep.push(wal_name.clone());
            }
        
            break;
            }
        }

        // Update manifest with remaining segments
        manifest.wal_segments = segments_to_keep;

        Ok(deleted_count)
    }
}
}
fn main() {}
