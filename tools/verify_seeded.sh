#!/bin/bash
# usage: verify_seeded.sh <deliver-dir-of-one-mutation> <seeded-id>     e.g. /tmp/mut-C13/deliver/m1 C13-m1
# Confirms in a scratch worktree (/tmp/mutverify) that the change compiles, passes the pinned suite, that its
# demonstration fails with it and passes without it; on success stores it as /verif/seeded/<id>/.
set -u
SRC="$1"; ID="$2"
WT=${WT:-/tmp/mutverify}
export CARGO_TARGET_DIR=$WT/target CARGO_NET_OFFLINE=true
LOG=/verif/out/seeded_verify_$ID.log
mkdir -p /verif/out
exec > "$LOG" 2>&1
if [ ! -d $WT ]; then git -C /repo worktree add --detach $WT HEAD || exit 9; fi
cd $WT && git checkout -q --detach "$(git -C /repo rev-parse HEAD)" && git checkout -- . && git clean -fdq -e target
git apply "$SRC/patch.diff" || { echo "RESULT $ID patch-does-not-apply"; exit 1; }
echo "== full suite with the change"
cargo nextest run --workspace --no-fail-fast --tool-config-file pb:/w/lib/nextest.toml --profile pb --test-threads 8 --offline 2>&1 | tail -8
SUITE=${PIPESTATUS[0]}
if [ "$SUITE" != 0 ]; then
  echo "== suite failed once; second run (the pinned suite has wall-clock latency tests that flake under load)"
  cargo nextest run --workspace --no-fail-fast --tool-config-file pb:/w/lib/nextest.toml --profile pb --test-threads 8 --offline 2>&1 | tail -8
  SUITE=${PIPESTATUS[0]}
fi
DEMO=vx_demo_$(echo $ID | tr -c 'A-Za-z0-9' '_')
cp "$SRC/demo.rs" engine/tests/$DEMO.rs
echo "== demo with the change"
cargo test --offline -p kyrodb-engine --test $DEMO 2>&1 | tail -15
WITH=${PIPESTATUS[0]}
git checkout -- . 
echo "== demo without the change"
cargo test --offline -p kyrodb-engine --test $DEMO 2>&1 | tail -6
WITHOUT=${PIPESTATUS[0]}
rm -f engine/tests/$DEMO.rs
echo "RESULT $ID suite_exit=$SUITE demo_with_change_exit=$WITH demo_without_change_exit=$WITHOUT"
if [ "$SUITE" = 0 ] && [ "$WITH" != 0 ] && [ "$WITHOUT" = 0 ]; then
  mkdir -p /verif/seeded/$ID
  cp "$SRC/patch.diff" "$SRC/demo.rs" /verif/seeded/$ID/
  python3 - "$SRC/meta.json" /verif/seeded/$ID/meta.json "$ID" <<'PY'
import json, sys
try: m = json.load(open(sys.argv[1]))
except Exception: m = {}
m["id"] = sys.argv[3]
m["confirmed_by_maintainer"] = {"repo_head": __import__("subprocess").check_output(["git", "-C", "/repo", "rev-parse", "--short", "HEAD"]).decode().strip(),
  "commands": ["git apply patch.diff", "cargo nextest run --workspace --no-fail-fast --tool-config-file pb:/w/lib/nextest.toml --profile pb --test-threads 8 --offline  (exit 0: whole pinned suite passes with the change)",
               "cargo test --offline -p kyrodb-engine --test <demo>  with the change: FAILS", "same without the change: passes"]}
json.dump(m, open(sys.argv[2], "w"), indent=1)
PY
  echo "KEPT $ID"
else
  echo "DISCARDED $ID"
fi
