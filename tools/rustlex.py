"""Small Rust lexer + item/brace utilities (stdlib only).

Only what the extractor needs: skip strings / raw strings / chars / lifetimes / comments correctly,
match braces, find `fn` items by `Type::name` path, find struct/enum/const/type items by name, and
enumerate loops inside a function body.
"""
import re

IDENT_START = set("abcdefghijklmnopqrstuvwxyzABCDEFGHIJKLMNOPQRSTUVWXYZ_")
IDENT_CONT = IDENT_START | set("0123456789")


class Tok:
    __slots__ = ("kind", "text", "start", "end")

    def __init__(self, kind, text, start, end):
        self.kind, self.text, self.start, self.end = kind, text, start, end

    def __repr__(self):
        return "Tok(%s,%r,%d)" % (self.kind, self.text, self.start)


def lex(src):
    """Return list of tokens.  kinds: ws, comment, doc, str, char, lifetime, ident, num, punct."""
    toks = []
    i, n = 0, len(src)
    while i < n:
        c = src[i]
        if c in " \t\r\n":
            j = i + 1
            while j < n and src[j] in " \t\r\n":
                j += 1
            toks.append(Tok("ws", src[i:j], i, j))
            i = j
            continue
        if c == "/" and i + 1 < n and src[i + 1] == "/":
            j = src.find("\n", i)
            if j < 0:
                j = n
            text = src[i:j]
            kind = "doc" if (text.startswith("///") and not text.startswith("////")) or text.startswith("//!") else "comment"
            toks.append(Tok(kind, text, i, j))
            i = j
            continue
        if c == "/" and i + 1 < n and src[i + 1] == "*":
            depth, j = 1, i + 2
            while j < n and depth > 0:
                if src.startswith("/*", j):
                    depth += 1
                    j += 2
                elif src.startswith("*/", j):
                    depth -= 1
                    j += 2
                else:
                    j += 1
            text = src[i:j]
            kind = "doc" if (text.startswith("/**") and not text.startswith("/***") and text != "/**/") or text.startswith("/*!") else "comment"
            toks.append(Tok(kind, text, i, j))
            i = j
            continue
        # raw strings / byte strings / raw identifiers
        m = re.compile(r'(?:br|rb|r|c|cr)(#*)"').match(src, i)
        if m and (i == 0 or src[i - 1] not in IDENT_CONT):
            hashes = m.group(1)
            if src[i:m.end()].replace("#", "").rstrip('"') in ("r", "br", "cr"):
                close = '"' + hashes
                j = src.find(close, m.end())
                j = n if j < 0 else j + len(close)
                toks.append(Tok("str", src[i:j], i, j))
                i = j
                continue
        if c == '"' or (c in "bc" and i + 1 < n and src[i + 1] == '"'):
            j = i + (2 if c in "bc" else 1)
            while j < n:
                if src[j] == "\\":
                    j += 2
                    continue
                if src[j] == '"':
                    j += 1
                    break
                j += 1
            toks.append(Tok("str", src[i:j], i, j))
            i = j
            continue
        if c == "'" or (c == "b" and i + 1 < n and src[i + 1] == "'"):
            k = i + (1 if c == "b" else 0)
            # char literal or lifetime
            if k + 1 < n and src[k + 1] == "\\":
                j = k + 2
                while j < n and src[j] != "'":
                    j += 1
                j += 1
                toks.append(Tok("char", src[i:j], i, j))
                i = j
                continue
            if k + 2 < n and src[k + 2] == "'" and src[k + 1] != "'":
                toks.append(Tok("char", src[i:k + 3], i, k + 3))
                i = k + 3
                continue
            # multi-byte char literal e.g. 'é'
            m2 = re.compile(r"'[^'\\\n]'").match(src, k)
            if m2:
                toks.append(Tok("char", src[i:m2.end()], i, m2.end()))
                i = m2.end()
                continue
            if c == "'":
                j = i + 1
                while j < n and src[j] in IDENT_CONT:
                    j += 1
                toks.append(Tok("lifetime", src[i:j], i, j))
                i = j
                continue
        if c in IDENT_START:
            j = i + 1
            while j < n and src[j] in IDENT_CONT:
                j += 1
            toks.append(Tok("ident", src[i:j], i, j))
            i = j
            continue
        if c.isdigit():
            j = i + 1
            while j < n and (src[j] in IDENT_CONT or (src[j] == "." and j + 1 < n and src[j + 1].isdigit())):
                j += 1
            toks.append(Tok("num", src[i:j], i, j))
            i = j
            continue
        toks.append(Tok("punct", c, i, i + 1))
        i += 1
    return toks


OPEN = {"(": ")", "[": "]", "{": "}"}
CLOSE = {")": "(", "]": "[", "}": "{"}


def code_toks(toks):
    return [t for t in toks if t.kind not in ("ws", "comment", "doc")]


def match_close(ct, idx):
    """ct: code tokens; idx at an opening bracket token.  Return index of the matching close."""
    depth = 0
    for j in range(idx, len(ct)):
        t = ct[j]
        if t.kind == "punct":
            if t.text in OPEN:
                depth += 1
            elif t.text in CLOSE:
                depth -= 1
                if depth == 0:
                    return j
    raise ValueError("unbalanced bracket at offset %d" % ct[idx].start)


class Item:
    def __init__(self, kind, name, ctx, start, end, sig_start, body_open, body_close):
        self.kind = kind          # fn / struct / enum / const / static / type / impl / trait / mod
        self.name = name
        self.ctx = ctx            # enclosing impl type name / trait name / mod path, e.g. "HnswBackend"
        self.start = start        # offset of first attribute/doc/pub token
        self.end = end            # offset after item
        self.sig_start = sig_start  # offset of the first keyword after attrs / docs (incl. pub)
        self.body_open = body_open  # offset of '{' or None
        self.body_close = body_close


ITEM_KW = ("fn", "struct", "enum", "const", "static", "type", "impl", "trait", "mod", "union")


def _impl_target(ct, i, j_open):
    """tokens between `impl` (index i) and the body `{` (index j_open): return the self type's last
    path identifier and the trait name if `impl Trait for Type`."""
    seg = ct[i + 1:j_open]
    # strip generics right after impl
    k = 0
    if seg and seg[0].text == "<":
        depth = 0
        while k < len(seg):
            if seg[k].text == "<":
                depth += 1
            elif seg[k].text == ">" and not (k > 0 and seg[k - 1].text == "-"):
                depth -= 1
                if depth == 0:
                    k += 1
                    break
            k += 1
    seg = seg[k:]
    # cut at `where`
    for w, t in enumerate(seg):
        if t.kind == "ident" and t.text == "where":
            seg = seg[:w]
            break
    trait = None
    for w, t in enumerate(seg):
        if t.kind == "ident" and t.text == "for":
            trait_seg, seg = seg[:w], seg[w + 1:]
            names = [x.text for x in _top_idents(trait_seg)]
            trait = names[-1] if names else None
            break
    names = [x.text for x in _top_idents(seg)]
    return (names[-1] if names else None), trait


def _top_idents(seg):
    out, depth = [], 0
    for t in seg:
        if t.text == "<":
            depth += 1
        elif t.text == ">":
            depth -= 1
        elif depth == 0 and t.kind == "ident" and t.text not in ("dyn", "mut", "const", "unsafe"):
            out.append(t)
    return out


def scan_items(src, toks=None):
    """Return all items (nested in impl/mod/trait blocks too) with their context."""
    toks = toks or lex(src)
    ct = code_toks(toks)
    # map code-token index -> first preceding attr/doc offset
    items = []

    def first_prefix_offset(ci):
        """walk backwards over attributes (#[..]) / visibility / qualifiers belonging to item at ct[ci]."""
        j = ci
        while j > 0:
            p = ct[j - 1]
            if p.kind == "ident" and p.text in ("pub", "async", "unsafe", "const", "extern", "default", "crate", "super", "in", "self"):
                j -= 1
                continue
            if p.kind == "str" and j >= 2 and ct[j - 2].text == "extern":
                j -= 1
                continue
            if p.text == ")":
                # pub(crate) / pub(in path)
                k = j - 1
                depth = 0
                while k >= 0:
                    if ct[k].text == ")":
                        depth += 1
                    elif ct[k].text == "(":
                        depth -= 1
                        if depth == 0:
                            break
                    k -= 1
                if k >= 1 and ct[k - 1].text == "pub":
                    j = k - 1
                    continue
                break
            if p.text == "]":
                k = j - 1
                depth = 0
                while k >= 0:
                    if ct[k].text == "]":
                        depth += 1
                    elif ct[k].text == "[":
                        depth -= 1
                        if depth == 0:
                            break
                    k -= 1
                if k >= 1 and ct[k - 1].text == "#":
                    j = k - 1
                    continue
                if k >= 2 and ct[k - 1].text == "!" and ct[k - 2].text == "#":
                    break
                break
            break
        return j

    def walk(lo, hi, ctx):
        i = lo
        while i < hi:
            t = ct[i]
            if t.kind == "ident" and t.text in ITEM_KW:
                kw = t.text
                # exclude `fn` used as type (fn(..) -> ..), `const` in generics / raw ptr, `impl Trait` in types,
                # `type` inside where etc.: require next token to be ident (name) or for impl: anything
                nxt = ct[i + 1] if i + 1 < len(ct) else None
                if kw == "impl":
                    # must be at item position: previous code token is one of ; } ] { or start or unsafe/default
                    prev = ct[i - 1] if i > 0 else None
                    if prev is not None and not (prev.text in (";", "}", "]", "{") or (prev.kind == "ident" and prev.text in ("unsafe", "default"))):
                        i += 1
                        continue
                    j = i + 1
                    while j < hi and ct[j].text != "{":
                        if ct[j].text in ("(", "["):
                            j = match_close(ct, j)
                        j += 1
                    if j >= hi:
                        i += 1
                        continue
                    close = match_close(ct, j)
                    ty, trait = _impl_target(ct, i, j)
                    ps = first_prefix_offset(i)
                    it = Item("impl", ty, ctx, ct[ps].start, ct[close].end, ct[ps].start, ct[j].start, ct[close].start)
                    it.trait = trait
                    items.append(it)
                    walk(j + 1, close, ty)
                    i = close + 1
                    continue
                if nxt is None or nxt.kind != "ident":
                    i += 1
                    continue
                if kw == "const" and nxt.text in ("fn", "unsafe", "extern", "async"):
                    i += 1
                    continue
                if kw in ("const", "static") and nxt.text == "mut":
                    nxt = ct[i + 2]
                prev = ct[i - 1] if i > 0 else None
                if prev is not None and prev.text in ("*", "<", ",", "&", "(", ":", "="):
                    # `*const T`, `<const N: usize>`, `dyn Fn`, `: fn(..)`
                    i += 1
                    continue
                name = nxt.text
                ps = first_prefix_offset(i)
                # find end: first `;` or `{...}` at bracket depth 0 (angle brackets ignored)
                j = i + 1
                body_open = body_close = None
                while j < hi:
                    tx = ct[j].text
                    if ct[j].kind == "punct" and tx in ("(", "["):
                        j = match_close(ct, j) + 1
                        continue
                    if ct[j].kind == "punct" and tx == "{":
                        if kw in ("const", "static", "type"):
                            j = match_close(ct, j) + 1
                            continue
                        close = match_close(ct, j)
                        body_open, body_close = ct[j].start, ct[close].start
                        j = close
                        break
                    if ct[j].kind == "punct" and tx == ";":
                        break
                    j += 1
                if j >= hi:
                    j = hi - 1
                end_tok = ct[j]
                end = end_tok.end
                # struct Foo { .. } has no trailing ; ; tuple struct `struct A(u8);` ends at ;
                it = Item(kw, name, ctx, ct[ps].start, end, ct[ps].start, body_open, body_close)
                it.trait = None
                items.append(it)
                if kw in ("mod", "trait") and body_open is not None:
                    # descend
                    oi = next(k for k in range(i, hi) if ct[k].start == body_open)
                    walk(oi + 1, j, name if kw == "trait" else ctx)
                i = j + 1
                continue
            if t.kind == "punct" and t.text == "{":
                # a block not belonging to a recognised item (e.g. macro_rules body): skip
                i = match_close(ct, i) + 1
                continue
            i += 1

    walk(0, len(ct), None)
    return items


def find_fn(src, path, nth=None, trait=None):
    """path = 'Type::name' or 'name' (free fn).  Returns Item.  Raises LookupError if not unique."""
    items = scan_items(src)
    if "::" in path:
        ty, name = path.rsplit("::", 1)
    else:
        ty, name = None, path
    impl_traits = {}
    for it in items:
        if it.kind == "impl":
            impl_traits[(it.start, it.end)] = it
    cands = []
    for it in items:
        if it.kind == "fn" and it.name == name and it.ctx == ty and it.body_open is not None:
            if trait is not None:
                enc = [im for im in items if im.kind == "impl" and im.start <= it.start and it.end <= im.end]
                if not enc or enc[-1].trait != trait:
                    continue
            cands.append(it)
    # ignore fns inside #[cfg(test)] mod tests: ctx None but nested in a mod named tests
    if len(cands) > 1:
        mods = [m for m in items if m.kind == "mod" and m.name in ("tests", "test") and m.body_open is not None]
        c2 = [c for c in cands if not any(m.start <= c.start and c.end <= m.end for m in mods)]
        if c2:
            cands = c2
    if nth is not None:
        if nth - 1 < len(cands):
            return cands[nth - 1]
        raise LookupError("fn %s #%d not found" % (path, nth))
    if len(cands) != 1:
        raise LookupError("fn %s: %d candidates" % (path, len(cands)))
    return cands[0]


def find_item(src, kind, name, ctx="*"):
    items = scan_items(src)
    cands = [it for it in items if it.kind == kind and it.name == name and (ctx == "*" or it.ctx == ctx)]
    if len(cands) > 1:
        mods = [m for m in items if m.kind == "mod" and m.name in ("tests", "test") and m.body_open is not None]
        c2 = [c for c in cands if not any(m.start <= c.start and c.end <= m.end for m in mods)]
        if c2:
            cands = c2
    if len(cands) != 1:
        raise LookupError("%s %s: %d candidates" % (kind, name, len(cands)))
    return cands[0]


def strip_prefix(text):
    """Drop doc comments, attributes and visibility in front of an item text.  Returns (text, dropped)."""
    toks = lex(text)
    dropped = []
    i = 0
    ct = toks
    out_start = 0
    while i < len(ct):
        t = ct[i]
        if t.kind in ("ws",):
            i += 1
            continue
        if t.kind in ("doc", "comment"):
            dropped.append(t.text.strip())
            i += 1
            out_start = t.end
            continue
        if t.text == "#":
            # attribute
            j = i + 1
            while ct[j].kind == "ws":
                j += 1
            if ct[j].text == "[":
                depth = 0
                k = j
                while k < len(ct):
                    if ct[k].kind == "punct" and ct[k].text == "[":
                        depth += 1
                    elif ct[k].kind == "punct" and ct[k].text == "]":
                        depth -= 1
                        if depth == 0:
                            break
                    k += 1
                dropped.append(text[t.start:ct[k].end])
                i = k + 1
                out_start = ct[k].end
                continue
        if t.kind == "ident" and t.text == "pub":
            j = i + 1
            while j < len(ct) and ct[j].kind == "ws":
                j += 1
            if j < len(ct) and ct[j].text == "(":
                k = j
                while ct[k].text != ")":
                    k += 1
                dropped.append(text[t.start:ct[k].end])
                i = k + 1
                out_start = ct[k].end
            else:
                dropped.append("pub")
                i += 1
                out_start = t.end
            continue
        break
    return text[out_start:].lstrip("\n").lstrip(" \t"), dropped


def split_fn(text):
    """text of a fn item (after strip_prefix).  Return (sig, body) where body starts at '{'."""
    toks = lex(text)
    ct = code_toks(toks)
    i = 0
    while i < len(ct):
        t = ct[i]
        if t.kind == "punct" and t.text in ("(", "["):
            i = match_close(ct, i) + 1
            continue
        if t.kind == "punct" and t.text == "{":
            return text[:t.start], text[t.start:]
        i += 1
    raise ValueError("no body")


def name_return(sig, retname="r"):
    """`-> T` => `-> (r: T)` at the top level of the signature (not inside parameter types).
    A where-clause after the return type is preserved."""
    toks = lex(sig)
    ct = code_toks(toks)
    i = 0
    depth = 0
    arrow = None
    angle = 0
    while i < len(ct):
        t = ct[i]
        if t.kind == "punct" and t.text in ("(", "["):
            i = match_close(ct, i) + 1
            continue
        if t.text == "-" and i + 1 < len(ct) and ct[i + 1].text == ">" and ct[i + 1].start == t.end:
            arrow = i
            break
        i += 1
    if arrow is None:
        return sig, False
    start = ct[arrow + 1].end
    # find `where` at depth 0 after arrow
    j = arrow + 2
    end = len(sig)
    adepth = 0
    while j < len(ct):
        t = ct[j]
        if t.kind == "punct" and t.text in ("(", "["):
            j = match_close(ct, j) + 1
            continue
        if t.text == "<":
            adepth += 1
        elif t.text == ">" and not (ct[j - 1].text == "-" and ct[j - 1].end == t.start):
            adepth -= 1
        elif t.kind == "ident" and t.text == "where" and adepth == 0:
            end = t.start
            break
        j += 1
    ty = sig[start:end].strip()
    if ty.startswith("(") and re.match(r"\(\s*\w+\s*:", ty):
        return sig, False
    return sig[:start] + " (" + retname + ": " + ty + ")\n" + ("    " + sig[end:] if end < len(sig) else ""), True


LOOP_KW = ("for", "while", "loop")


def find_loops(body):
    """Return list of dicts for each loop in `body` text in textual order:
       {kw, kw_start, head_end (offset of '{'), close (offset of matching '}'), label}"""
    toks = lex(body)
    ct = code_toks(toks)
    loops = []
    for i, t in enumerate(ct):
        if t.kind == "ident" and t.text in LOOP_KW:
            prev = ct[i - 1] if i > 0 else None
            if t.text == "for" and prev is not None and (prev.text in ("<",) or (prev.kind == "ident" and prev.text in ("impl",))):
                continue
            if t.text == "for" and i + 1 < len(ct) and ct[i + 1].text == "<":
                continue  # for<'a> HRTB
            # find the block `{`: first `{` at bracket depth 0 that is not a struct-literal (rust forbids those in heads)
            j = i + 1
            ok = True
            while j < len(ct):
                tx = ct[j]
                if tx.kind == "punct" and tx.text in ("(", "["):
                    j = match_close(ct, j) + 1
                    continue
                if tx.kind == "punct" and tx.text == "{":
                    break
                if tx.kind == "punct" and tx.text == ";":
                    ok = False
                    break
                if tx.kind == "punct" and tx.text == "|" and t.text != "loop":
                    # closure in head, e.g. `for x in v.iter().filter(|y| {..})`: skip its braces if any
                    pass
                j += 1
            if not ok or j >= len(ct):
                continue
            close = match_close(ct, j)
            label = None
            if prev is not None and prev.text == ":" and i >= 2 and ct[i - 2].kind == "lifetime":
                label = ct[i - 2].text
            loops.append({"kw": t.text, "kw_start": t.start, "head_end": ct[j].start, "close": ct[close].start,
                          "label": label, "label_start": ct[i - 2].start if label else None})
    return loops


def jump_tokens(body_text, lo, hi):
    """offsets of `continue` / `break` tokens in body_text[lo:hi] that belong to the loop whose body is
    [lo,hi) (i.e. not nested in an inner loop or closure body... closures cannot contain them anyway)."""
    inner = [l for l in find_loops(body_text) if l["head_end"] > lo and l["close"] < hi]
    toks = lex(body_text)
    out = []
    for k, t in enumerate(toks):
        if t.kind == "ident" and t.text in ("continue", "break") and lo < t.start < hi:
            if any(l["head_end"] < t.start < l["close"] for l in inner):
                continue
            # labelled?
            nx = next((x for x in toks[k + 1:] if x.kind != "ws"), None)
            labelled = nx is not None and nx.kind == "lifetime"
            out.append((t.text, t.start, t.end, labelled))
    return out
