#!/usr/bin/env python3
"""Regenerate /verif/MANIFEST.json from the claims table below and the units present on disk."""
import glob
import json
import os
import re

VERIF = os.path.dirname(os.path.dirname(os.path.abspath(__file__)))

BASELINE_OFF = ("cd /repo && cargo nextest run --workspace --no-fail-fast --tool-config-file pb:/w/lib/nextest.toml --profile pb "
                "--test-threads 8 --offline || (cd /repo && cargo test --workspace --no-fail-fast --offline)")

# property -> (claim text, level note, technique, design section)
CLAIMS = {
}

# properties whose units are being repaired right now (not claimed until their check exits 0 on the unchanged tree again)
HOLD = set(l.strip() for l in open(os.path.join(VERIF, "tools", "hold.txt")) if l.strip() and not l.startswith("#")) if os.path.exists(os.path.join(VERIF, "tools", "hold.txt")) else set()

NOT_APPLICABLE = {
    "C05": "linearizability quantifies over thread interleavings: Kani has no threads and Verus would need the code rewritten into its "
           "permission/atomic-invariant types (a model, not the code); the sequential core is covered under C04 (DESIGN.md 6)",
    "C08": "deadlock freedom is a whole-program lock-order/liveness property over schedules; no per-function contract expresses it without a ghost "
           "held-lock set threaded through every signature (DESIGN.md 6)",
    "C09": "races between snapshot/compaction and writers are schedules; the snapshot RwLock protocol is a concurrent-separation-logic invariant out of "
           "reach of both installed verifiers; its sequential content is proved under C01/C02 (DESIGN.md 6)",
    "C16": "statistical recall floor of an approximate algorithm over floating-point data: no contract expresses 'mean recall >= 0.80' (DESIGN.md 6)",
}


def units_serving():
    serves = {}
    for p in sorted(glob.glob(os.path.join(VERIF, "units", "*.vrs")) + glob.glob(os.path.join(VERIF, "units", "*.kani"))):
        name = os.path.basename(p).rsplit(".", 1)[0]
        for ln in open(p):
            if ln.startswith("//@serves") or ln.startswith("serves"):
                for pr in ln.split()[1:]:
                    serves.setdefault(pr, []).append(name)
    return serves


def main():
    import claims
    CLAIMS.update(claims.CLAIMS)
    serves = units_serving()
    props = [json.loads(l)["id"] for l in open(os.path.join(VERIF, "properties.jsonl"))]
    checks, na = [], []
    for p in props:
        if p in CLAIMS and serves.get(p) and p not in HOLD:
            c = CLAIMS[p]
            checks.append({
                "property_id": p,
                "quick_cmd": "./check %s --tier quick" % p,
                "thorough_cmd": "./check %s --tier thorough" % p,
                "evidence_file": "/verif/evidence/%s.json" % p,
                "replay_cmd_template": "./check --replay {path}",
                "engine": "contracts",
                "level_claimed": {"category": "proof", "text": c["text"] + "  Units: " + ", ".join(serves[p]) + ".", "design_ref": c.get("design", "DESIGN.md section 5")},
                "level_note": c["note"],
                "technique": c.get("technique", "contract-based deductive verification (Verus) of functions re-extracted from /repo on every run"),
            })
        elif p in NOT_APPLICABLE:
            na.append({"property_id": p, "reason": NOT_APPLICABLE[p]})
        else:
            na.append({"property_id": p, "reason": ("units exist but are being repaired after the fix: commits; not claimed until the check exits 0 again" if p in HOLD else
                                                    "no unit built yet for this property (see DESIGN.md section 5 for the plan); not claimed")})
    m = {
        "version": 1,
        "setup_cmd": "python3 tools/selfcheck.py",
        "hooks": {"guard": "kyrodb_kyrodb_verif", "enable": "none needed: functions are extracted from the source text, no hook is compiled into /repo",
                  "baseline_off_cmd": BASELINE_OFF, "source_commits": [], "add_only": True},
        "engines": [{"name": "contracts", "path": "/verif/check", "serves_properties": [c["property_id"] for c in checks],
                     "kind_free_text": "python driver: extracts real functions from /repo, applies declared rewrites, splices contracts from units/*.vrs, "
                                       "runs Verus (deductive, unbounded) or Kani (loop-free complete / bounded stand-ins), classifies every diagnostic"}],
        "checks": checks,
        "notes": "exit 0 = all obligations discharged (known findings printed), 1 = VIOLATION, 2 = undecided (lost anchor, unsupported construct, solver limit). See DESIGN.md.",
        "not_applicable": na,
    }
    with open(os.path.join(VERIF, "MANIFEST.json"), "w") as f:
        json.dump(m, f, indent=1)
    print("claimed:", [c["property_id"] for c in checks], "not applicable:", [x["property_id"] for x in na])


if __name__ == "__main__":
    import sys
    sys.path.insert(0, os.path.dirname(os.path.abspath(__file__)))
    main()
