#!/usr/bin/env python3
"""MANIFEST.setup_cmd: verify that the tools the checks need are present (builds nothing, fetches nothing)."""
import os
import shutil
import subprocess
import sys

ok = True
for tool in ("verus", "cargo-kani", "cbmc", "cargo", "python3"):
    p = shutil.which(tool)
    print("%-12s %s" % (tool, p or "MISSING"))
    ok = ok and bool(p)
try:
    v = subprocess.run(["verus", "--version"], stdout=subprocess.PIPE, stderr=subprocess.STDOUT, timeout=60).stdout.decode()
    print(v.strip().split("\n")[0])
except Exception as e:
    print("verus --version failed:", e)
    ok = False
os.makedirs(os.path.join(os.path.dirname(os.path.dirname(os.path.abspath(__file__))), "out"), exist_ok=True)
if not os.path.isdir(os.environ.get("VERIF_REPO", "/repo") + "/engine/src"):
    print("repo sources missing")
    ok = False
sys.exit(0 if ok else 1)
