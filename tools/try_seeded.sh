#!/bin/bash
# usage: try_seeded.sh <seeded-id> [tier]   — run the property's check against the seeded change applied to a scratch
# worktree (/tmp/mutverify; /repo itself is not touched while helpers are extracting from it).  Prints one summary line.
ID="$1"; TIER="${2:-quick}"
PROP=$(python3 -c "import json;print(json.load(open('/verif/seeded/$ID/meta.json'))['property'])")
WT=${WT:-/tmp/mutverify}
[ -d $WT ] || git -C /repo worktree add --detach $WT HEAD >/dev/null 2>&1
cd $WT && git checkout -q --detach "$(git -C /repo rev-parse HEAD)" && git checkout -- . && git apply /verif/seeded/$ID/patch.diff || { echo "$ID patch does not apply"; exit 9; }
cd /verif && VERIF_REPO=$WT VERIF_EVIDENCE_DIR=/verif/out/evidence_seeded ./check $PROP --tier $TIER > /verif/out/seeded_try_$ID.log 2>&1
RC=$?
cd $WT && git checkout -- .
echo "$ID property=$PROP exit=$RC $(grep -c '^VIOLATION' /verif/out/seeded_try_$ID.log) violation line(s); failed: $(grep '^FAILED obligation' /verif/out/seeded_try_$ID.log | head -3 | tr '\n' ' ')$(grep '^UNDECIDED' /verif/out/seeded_try_$ID.log | head -2 | cut -c1-200 | tr '\n' ' ')"
