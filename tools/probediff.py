#!/usr/bin/env python3
"""developer helper: diff a real function (as the extractor sees it) against the text of a probe/generated file.
usage: probediff.py <repo-relative file> <Type::fn> <probe.rs> [start-regex-in-probe]"""
import difflib, re, sys, os
sys.path.insert(0, os.path.dirname(os.path.abspath(__file__)))
import rustlex
rel, path, probe = sys.argv[1:4]
src = open(os.path.join('/repo', rel)).read()
it = rustlex.find_fn(src, path)
real = rustlex.strip_prefix(src[it.start:it.end])[0].split('\n')
ptxt = open(probe).read()
name = path.split('::')[-1]
pat = sys.argv[4] if len(sys.argv) > 4 else r'^\s*(pub )?fn %s\b' % re.escape(name)
m = re.search(pat, ptxt, re.M)
pi = rustlex.scan_items(ptxt)
cand = [x for x in pi if x.kind == 'fn' and x.name == name and x.body_open is not None]
if cand:
    ptext = ptxt[cand[0].start:cand[0].end]
else:
    ptext = ptxt[m.start():]
for l in difflib.unified_diff([x.strip() for x in real], [x.strip() for x in ptext.split('\n')], lineterm='', n=0):
    print(l)
