#!/usr/bin/env python3
"""Regenerate the table of built units in DESIGN.md (between the markers <!-- UNITS-BEGIN --> and <!-- UNITS-END -->)."""
import glob, os, re, sys
sys.path.insert(0, os.path.dirname(os.path.abspath(__file__)))
import gen
V = gen.VERIF
rows = []
for p in sorted(glob.glob(V + "/units/*.vrs") + glob.glob(V + "/units/*.kani")):
    name = os.path.basename(p).rsplit(".", 1)[0]
    try:
        g = gen.generate(p)
    except Exception as e:
        rows.append((name, "?", "", "generation failed: %s" % e, 0, 0, 0)); continue
    fns = [e.name for e in g.extracted if e.kind in ("fn", "region", "expr")]
    ncl = sum(len([c for c in e.clauses if c[1] != "requires"]) for e in g.extracted)
    nb = sum(1 for b in g.breaks if not b["harmless"]); nh = sum(1 for b in g.breaks if b["harmless"])
    nhar = len(g.meta.get("harnesses", []))
    rows.append((name, g.meta.get("backend", "verus"), " ".join(g.meta.get("serves", [])), ", ".join(f.replace("|", "/") for f in fns)[:400], ncl + nhar, nb, nh))
out = ["| unit | back end | serves | real functions / regions under contract | clauses + harnesses | seeded breaks | harmless edits |", "|---|---|---|---|---|---|---|"]
for r in rows:
    out.append("| `%s` | %s | %s | %s | %d | %d | %d |" % r)
out.append("")
out.append("%d units, %d contract clauses / harnesses, %d seeded breaks, %d harmless edits (counted from the templates; obligations per run are in evidence/*.json)." % (
    len(rows), sum(r[4] for r in rows), sum(r[5] for r in rows), sum(r[6] for r in rows)))
d = open(V + "/DESIGN.md").read()
a, b = d.index("<!-- UNITS-BEGIN -->"), d.index("<!-- UNITS-END -->")
d = d[:a] + "<!-- UNITS-BEGIN -->\n" + "\n".join(out) + "\n" + d[b:]
open(V + "/DESIGN.md", "w").write(d)
print(out[-1])
