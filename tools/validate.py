#!/usr/bin/env python3
"""validate MANIFEST.json and evidence/*.json against the schemas (needs jsonschema: run with python3-vt)."""
import glob, json, sys
import jsonschema
m = json.load(open('/verif/MANIFEST.json'))
jsonschema.validate(m, json.load(open('/root/.vp/MANIFEST.schema.json')))
print('MANIFEST ok: %d checks, %d n/a' % (len(m['checks']), len(m.get('not_applicable', []))))
s = json.load(open('/root/.vp/EVIDENCE.schema.json'))
for f in sorted(glob.glob('/verif/evidence/*.json')):
    e = json.load(open(f))
    jsonschema.validate(e, s)
    c = e['coverage']
    print('%s ok: %d/%d' % (f, c.get('discharged', -1), c.get('obligations', -1)))
