#!/bin/sh
# build (offline) and run the replay crate against the engine in ${VERIF_REPO:-/repo}; usage: replay_build.sh <scenario>
set -e
REPO="${VERIF_REPO:-/repo}"
V=/verif
D="$V/out/replay_crate$(echo "$REPO" | tr '/' '_')"
mkdir -p "$D/src"
sed "s|@REPO@|$REPO|" "$V/replay/Cargo.toml.in" > "$D/Cargo.toml"
cp "$V/replay/src/main.rs" "$D/src/main.rs"
[ -f "$D/Cargo.lock" ] || cp "$REPO/Cargo.lock" "$D/Cargo.lock"
cd "$D"
CARGO_NET_OFFLINE=true CARGO_TARGET_DIR="$D/target" cargo build --offline -q 2>"$D/build.log" || { tail -30 "$D/build.log"; exit 3; }
exec "$D/target/debug/vx_replay" "$@"
