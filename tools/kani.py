"""Kani back end: generate a harness crate from a `.kani` unit template and run each harness.

Template = same directive language as Verus units (`//@fn`, `//@item`, ... pull real code from /repo) plus

    //@backend kani
    //@harness NAME complete|bounded [timeout=SEC] [thorough=1] [bound=free_text_without_spaces] [expect=fail:<finding>]
    //@kaniflags -Z function-contracts -Z stubbing ...
    //@file engine/src/rate_limiter.rs as rate_limiter <<<      byte-identical copy of a real file as module
    ... text appended to the copy (harness module that needs private items) ...
    //@ >>>
    //@dep anyhow = "1"                                        dependency line for the generated Cargo.toml

`complete` harnesses are loop-free over the full input domain (a proof, counted as an obligation);
`bounded` ones are stand-ins with a stated bound, reported separately and never counted as proved.
"""
import json
import os
import re
import shutil
import subprocess
import time

import gen
from verus import Obligation

VERIF = gen.VERIF
OUT = os.path.join(VERIF, "out")


class KaniResult:
    def __init__(self, unit):
        self.unit = unit
        self.obligations = []
        self.undecided = []
        self.solver_ms = 0
        self.wall_s = 0.0
        self.gen = None
        self.meta = {}
        self.cmd = ""
        self.trusted = []
        self.canaries = {}
        self.functions = []
        self.outfile = None
        self.verified = 0
        self.errors = 0

    def failed(self):
        return [o for o in self.obligations if o.status == "FAILED"]


def load_spec(path):
    serves = []
    for ln in open(path):
        if ln.startswith("//@serves"):
            serves = ln.split()[1:]
    return {"serves": serves}


def parse_harness(line):
    opts, words = gen.parse_opts(line)
    return {"name": words[0], "mode": words[1] if len(words) > 1 else "bounded", "timeout": int(opts.get("timeout", "180")),
            "thorough": opts.get("thorough") == "1", "bound": opts.get("bound", "").replace("_", " "), "expect": opts.get("expect", ""),
            "covers": int(opts.get("covers", "-1"))}


def run_unit(path, tier="quick", overlay=None, tag=""):
    """One generated harness crate (and cargo target directory) per unit and tag: concurrent invocations of ./check (two
    properties served by the same Kani unit, run in parallel) must not write the same crate at the same time, so the whole
    run of a unit holds an exclusive file lock.  Waiting for the lock is not counted in any harness timeout."""
    import fcntl
    unit = os.path.basename(path).rsplit(".", 1)[0]
    os.makedirs(os.path.join(OUT, "kani"), exist_ok=True)
    lockpath = os.path.join(OUT, "kani", unit + (("__" + tag) if tag else "") + ".lock")
    with open(lockpath, "w") as lf:
        fcntl.flock(lf, fcntl.LOCK_EX)
        try:
            return _run_unit_locked(path, tier, overlay, tag)
        finally:
            fcntl.flock(lf, fcntl.LOCK_UN)


def _run_unit_locked(path, tier="quick", overlay=None, tag=""):
    t0 = time.time()
    unit = os.path.basename(path).rsplit(".", 1)[0]
    res = KaniResult(unit)
    try:
        g = gen.generate(path, overlay)
    except gen.GenError as e:
        res.undecided.append("generation: %s" % e)
        res.wall_s = time.time() - t0
        return res
    except Exception as e:
        res.undecided.append("generation crashed: %r" % e)
        res.wall_s = time.time() - t0
        return res
    res.gen = g
    res.meta = g.meta
    crate = os.path.join(OUT, "kani", unit + (("__" + tag) if tag else ""))
    src = os.path.join(crate, "src")
    os.makedirs(src, exist_ok=True)
    os.makedirs(os.path.join(crate, ".cargo"), exist_ok=True)
    with open(os.path.join(crate, ".cargo", "config.toml"), "w") as f:
        f.write("[net]\noffline = true\n")
    deps = "\n".join(g.meta.get("deps", []))
    with open(os.path.join(crate, "Cargo.toml"), "w") as f:
        f.write('[package]\nname = "vxk_%s"\nversion = "0.0.0"\nedition = "2021"\n\n[lib]\npath = "src/lib.rs"\n\n[dependencies]\n%s\n\n'
                '[lints.rust]\nunexpected_cfgs = { level = "allow" }\n\n[workspace]\n' % (re.sub(r"\W", "_", unit), deps))
    if deps:
        try:
            shutil.copy(os.path.join(gen.REPO, "Cargo.lock"), os.path.join(crate, "Cargo.lock"))
        except OSError:
            pass
    with open(os.path.join(src, "lib.rs"), "w") as f:
        f.write(g.text)
    res.outfile = os.path.join(src, "lib.rs")
    for spec, appended in g.meta.get("files", []):
        m = re.match(r"(\S+)\s+as\s+(\w+)", spec)
        if not m:
            res.undecided.append("bad //@file line: %s" % spec)
            continue
        rel, mod = m.group(1), m.group(2)
        try:
            text = gen.read_source(rel, overlay)
        except gen.GenError as e:
            res.undecided.append(str(e))
            continue
        with open(os.path.join(src, mod + ".rs"), "w") as f:
            f.write(text)
            if appended:
                f.write("\n// ---- appended by /verif (harness module; the text above is a byte-identical copy of /repo/%s)\n" % rel)
                f.write(appended + "\n")
        import hashlib
        res.functions.append({"unit": unit, "function": "whole file " + rel, "file": rel, "kind": "file", "sha256_16": hashlib.sha256(text.encode()).hexdigest()[:16],
                              "clauses": 0, "dropped_by_extraction": []})
    if res.undecided:
        res.wall_s = time.time() - t0
        return res
    flags = g.meta.get("kaniflags", [])
    harnesses = [parse_harness(h) for h in g.meta.get("harnesses", [])]
    env = dict(os.environ)
    env["CARGO_NET_OFFLINE"] = "true"
    env["CARGO_TARGET_DIR"] = os.path.join(OUT, "kani-target", unit + (("__" + tag) if tag else ""))
    import concurrent.futures as cf

    def one(h):
        if h["thorough"] and tier != "thorough":
            return h, None, 0.0
        cmd = ["cargo", "kani"] + flags + ["--harness", h["name"]] + ([] if os.environ.get("VERIF_KANI_SUBSTRING") else [])
        t1 = time.time()
        rc, out = run_group(cmd, crate, env, h["timeout"] * (2 if tier == "thorough" else 1))
        if rc is None:
            out = "TIMEOUT\n" + out[-2000:]
        return h, out, time.time() - t1

    # first harness alone (it compiles the crate), the rest in parallel
    outs = []
    if harnesses:
        outs.append(one(harnesses[0]))
        with cf.ThreadPoolExecutor(max_workers=int(os.environ.get("VERIF_KANI_JOBS", "6"))) as ex:
            outs += list(ex.map(one, harnesses[1:]))
    res.cmd = "cargo kani %s --harness <name>  (crate generated from %s)" % (" ".join(flags), os.path.basename(path))
    for h, out, dt in outs:
        kind = "kani-complete" if h["mode"] == "complete" else "bounded"
        o = Obligation("%s/%s" % (unit, h["name"]), h["name"], kind,
                       "Kani harness %s (%s%s)" % (h["name"], h["mode"], (", bound: " + h["bound"]) if h["bound"] else ""))
        if out is None:
            continue
        res.solver_ms += int(dt * 1000)
        m_ver = re.search(r"VERIFICATION:- (SUCCESSFUL|FAILED)", out)
        failed_checks = re.findall(r"Check \d+: (\S+)\n\s+- Status: FAILURE\n\s+- Description: \"([^\"]*)\"(?:\n\s+- Location: (\S+))?", out)
        n_checks = re.search(r"\*\* (\d+) of (\d+) failed", out)
        covers = re.search(r"\*\* (\d+) of (\d+) cover properties satisfied", out)
        unwind_fail = [c for c in failed_checks if "unwind" in c[0] or "unwinding assertion" in c[1]]
        float_noise = [c for c in failed_checks if ".NaN." in c[0] or c[1].startswith("NaN on") or "floating-point" in c[1]]
        real_fail = [c for c in failed_checks if c not in unwind_fail and c not in float_noise]
        o.detail = ""
        if out.startswith("TIMEOUT"):
            o.status = "undecided"
            res.undecided.append("harness %s timed out after %ds" % (h["name"], h["timeout"]))
        elif m_ver is None:
            o.status = "undecided"
            res.undecided.append("harness %s: no verification result (compile error?): %s" % (h["name"], out[-1500:]))
        elif m_ver.group(1) == "SUCCESSFUL":
            if covers and covers.group(1) != covers.group(2):
                o.status = "undecided"
                res.undecided.append("harness %s: only %s of %s cover properties satisfied (vacuity guard)" % (h["name"], covers.group(1), covers.group(2)))
            elif h["covers"] >= 0 and (not covers or int(covers.group(2)) != h["covers"]):
                o.status = "undecided"
                res.undecided.append("harness %s: expected %d cover properties, saw %s" % (h["name"], h["covers"], covers.group(2) if covers else "none"))
            else:
                o.status = "discharged"
                o.detail = "checks: %s, covers: %s, %.1fs" % (n_checks.group(2) if n_checks else "?", covers.group(0) if covers else "none", dt)
        else:
            if real_fail:
                o.status = "FAILED"
                o.detail = "\n".join("%s: %s @ %s" % c for c in real_fail[:10])
                # seeded-break variants only need the verdict; the (slow) concrete playback is for real violations
                cex = None if tag.startswith(("b", "h")) and tag[1:].isdigit() else playback(crate, env, flags, h)
                if cex:
                    o.counterexample = cex
                    o.detail += "\nconcrete values (kani --concrete-playback=print): " + json.dumps(cex)[:1500]
                only_asserts = all(".assertion." in c[0] for c in real_fail)
                if only_asserts and cex and cex.get("native_failed") is False:
                    # CBMC's model of a float intrinsic (sqrt, ...) disagrees with the machine: not a violation
                    o.status = "undecided"
                    res.undecided.append("harness %s: Kani counterexample does not reproduce natively on the real text (over-approximated intrinsic?): %s"
                                         % (h["name"], json.dumps(cex["values"])[:300]))
            elif float_noise and not unwind_fail:
                # only Kani's NaN / float-overflow instrumentation fired: IEEE special values are legal here
                o.status = "discharged"
                o.detail = "only float NaN/overflow instrumentation checks failed (ignored by check class): %d" % len(float_noise)
                if covers and covers.group(1) != covers.group(2):
                    o.status = "undecided"
                    res.undecided.append("harness %s: only %s of %s cover properties satisfied" % (h["name"], covers.group(1), covers.group(2)))
            elif unwind_fail:
                o.status = "undecided"
                res.undecided.append("harness %s: unwinding assertion failed (bound too small)" % h["name"])
            else:
                # failed cover only or unsupported construct
                o.status = "undecided"
                res.undecided.append("harness %s: FAILED without a failing check: %s" % (h["name"], out[-800:]))
        res.obligations.append(o)
    res.trusted = ["kani: CBMC bit-precise semantics of the compiled MIR; stubs named in the harness file (#[kani::stub])"]
    for ex in g.extracted:
        if ex.kind in ("fn", "region", "expr"):
            pass
    res.wall_s = time.time() - t0
    res.verified = sum(1 for o in res.obligations if o.status == "discharged")
    res.errors = len(res.failed())
    return res


def run_group(cmd, cwd, env, timeout):
    """run cmd in its own process group; on timeout kill the whole group (cargo -> kani-driver -> cbmc).  -> (rc|None, output)"""
    import signal
    p = subprocess.Popen(cmd, cwd=cwd, env=env, stdout=subprocess.PIPE, stderr=subprocess.STDOUT, start_new_session=True)
    try:
        out, _ = p.communicate(timeout=timeout)
        return p.returncode, out.decode("utf-8", "replace")
    except subprocess.TimeoutExpired:
        try:
            os.killpg(p.pid, signal.SIGKILL)
        except OSError:
            pass
        try:
            out, _ = p.communicate(timeout=10)
        except Exception:
            out = b""
        return None, out.decode("utf-8", "replace")


def playback(crate, env, flags, h):
    """re-run a failed harness with concrete playback; insert the generated unit tests into the crate and execute them
    natively (`cargo kani playback`) against the same extracted real text.  Returns the values and whether the native
    run fails too."""
    cmd = ["cargo", "kani"] + flags + ["-Z", "concrete-playback", "--concrete-playback=print", "--harness", h["name"]]
    rc, out = run_group(cmd, crate, env, h["timeout"] * 2)
    if rc is None:
        return None
    tests = re.findall(r"```\n(.*?)```", out, re.S)
    if not tests:
        return None
    body = tests[0]
    vecs = re.findall(r"//\s*(.*?)\n\s*vec!\[([^\]]*)\]", body)
    cex = {"harness": h["name"], "values": [{"value": v.strip(), "bytes": b.strip()} for v, b in vecs], "playback_test": body[:3000],
           "replayed_natively": None}
    if "stubbing" in flags:
        # kani::stub replacements are not applied by `cargo kani playback`: a native run would execute different code
        cex["replayed_natively"] = "not attempted: the harness uses kani::stub (stubs are not applied in a native playback run); the concrete values above are Kani's"
        return cex
    try:
        run_group(["cargo", "kani"] + flags + ["-Z", "concrete-playback", "--concrete-playback=inplace", "--harness", h["name"]], crate, env, h["timeout"] * 2)
        rc2, o2 = run_group(["cargo", "kani", "playback", "-Z", "concrete-playback"] + [f for f in flags if f not in ("-Z", "concrete-playback")] +
                            ["--", "kani_concrete_playback_" + h["name"]], crate, env, 900)
        m = re.search(r"test result: (\w+)\. (\d+) passed; (\d+) failed", o2)
        if m:
            cex["replayed_natively"] = "native run of the playback tests against the extracted real text: %s passed, %s failed" % (m.group(2), m.group(3))
            cex["native_failed"] = int(m.group(3)) > 0
        else:
            cex["replayed_natively"] = "playback run gave no test result: " + o2[-400:]
    except subprocess.TimeoutExpired:
        cex["replayed_natively"] = "playback timed out"
    return cex
