"""Kani back end (filled in below)."""


def load_spec(path):
    raise NotImplementedError


def run_unit(path, tier="quick", overlay=None, tag=""):
    raise NotImplementedError
