#!/usr/bin/env python3
"""Run every seeded change under /verif/seeded against its property's check (tools/try_seeded.sh) and write seeded/RESULTS.md.
usage: seeded_table.py [--run]   (--run re-runs the checks; otherwise only the existing out/seeded_try_*.log files are tabulated)"""
import glob, json, os, re, subprocess, sys
V = "/verif"
rows = []
for d in sorted(glob.glob(V + "/seeded/*/")):
    sid = os.path.basename(d.rstrip("/"))
    meta = json.load(open(d + "meta.json"))
    if "--run" in sys.argv:
        subprocess.run([V + "/tools/try_seeded.sh", sid], stdout=subprocess.DEVNULL)
    log = V + "/out/seeded_try_%s.log" % sid
    if not os.path.exists(log):
        rows.append((sid, meta, "not run", "")); continue
    txt = open(log).read()
    failed = re.findall(r"^FAILED obligation (\S+)", txt, re.M)
    viol = re.findall(r"^VIOLATION .*", txt, re.M)
    if viol:
        rows.append((sid, meta, "caught (exit 1)", ", ".join(failed[:3]) + (" ..." if len(failed) > 3 else "")))
    else:
        und = re.findall(r"^UNDECIDED: (.*)", txt, re.M)
        why = (und[0][:220] if und else ("exit 0: no obligation depends on the changed code" if "holds on everything checked" in txt else "?"))
        rows.append((sid, meta, "MISSED" + (" (undecided, exit 2)" if und else " (exit 0)"), why))
with open(V + "/seeded/RESULTS.md", "w") as f:
    f.write("# Seeded property-breaking changes and what the checks say\n\nEach change was written by an independent helper that saw only the property text and a scratch worktree, "
            "compiles, passes the pinned 547-test suite, and comes with a demonstration that fails with it and passes without it (all confirmed by tools/verify_seeded.sh; see meta.json).\n\n")
    f.write("| id | property | change (file / function) | needs, to manifest | result | failing obligation(s) / reason |\n|---|---|---|---|---|---|\n")
    for sid, m, res, why in rows:
        f.write("| %s | %s | %s (%s) | %s | %s | %s |\n" % (sid, m.get("property"), str(m.get("summary", ""))[:300].replace("|", "/").replace("\n", " "),
                ", ".join(m.get("functions", [])[:3]) if isinstance(m.get("functions"), list) else m.get("functions", ""),
                str(m.get("needs", ""))[:300].replace("|", "/").replace("\n", " "), res, why.replace("|", "/")))
    c = sum(1 for r in rows if r[2].startswith("caught"))
    f.write("\n%d of %d caught.\n" % (c, len(rows)))
print(open(V + "/seeded/RESULTS.md").read()[-600:])
