#!/usr/bin/env python3
"""Add `hh=<hash of the loop header>` to every `//@ loop N ...` directive of the given unit templates that lacks it
(run on the unchanged tree).  A pinned loop is found by its header text even if loops are added before it."""
import re, sys, os
sys.path.insert(0, os.path.dirname(os.path.abspath(__file__)))
import gen
for path in sys.argv[1:]:
    try:
        g = gen.generate(path)
    except Exception as e:
        print(path, "SKIP", e); continue
    pins = {}
    for ex in g.extracted:
        pins.update(getattr(ex, "loop_headers", {}))
    if not pins: continue
    lines = open(path).read().split("\n")
    n = 0
    for lineno, hh in pins.items():
        ln = lines[lineno - 1]
        if not re.match(r"\s*//@\s*loop\b", ln) or "hh=" in ln:
            continue
        if ln.rstrip().endswith("<<<"):
            ln = ln.rstrip()[:-3].rstrip() + " hh=%s <<<" % hh
        else:
            ln = ln.rstrip() + " hh=%s" % hh
        lines[lineno - 1] = ln
        n += 1
    if n:
        open(path, "w").write("\n".join(lines))
    print(path, "pinned", n)
