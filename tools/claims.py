"""Per-property claim texts for MANIFEST.json (what is proved, what is residue)."""

SEQ = ("Trusted: prelude stub contracts (file/lock/log/anyhow/std stand-ins, listed per run in evidence.trusted_base), sequential semantics for "
       "lock-erased bodies, logging macros without side effects, bincode/CRC32/serde as specified by their stubs. ")

CLAIMS = {
    "C01": {
        "text": "Deductive proof (Verus, unbounded) on the real function bodies that each step of the durability argument meets its contract: the WAL replay "
                "loop computes replay(documents, entries, snapshot_seq, snapshot_ts) for every entry list, the recovered counter exceeds every sequence seen. "
                "Crash instants between system calls are covered only through effect-order contracts, not enumerated.",
        "note": SEQ + "Residue: crash points inside third-party code, server main(), statvfs, file creation order outside extracted regions.",
        "design": "DESIGN.md 5 (C01), 4 (theory)",
    },
}
