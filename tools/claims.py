"""Per-property claim texts for MANIFEST.json (what is proved, what is residue)."""

SEQ = ("Trusted: the prelude stub contracts (file / lock / log / anyhow / std stand-ins; every one is listed per run in evidence.coverage.trusted_base), "
       "sequential semantics for lock-erased bodies (the caller owns every lock-protected field for the whole call), logging macros without side "
       "effects, bincode/CRC32/serde as specified by their uninterpreted stubs, 64-bit usize, counters that do not wrap. ")
TECH_V = "contract-based deductive verification (Verus) of functions re-extracted from /repo on every run"
TECH_VK = TECH_V + "; Kani function-level harnesses (complete where loop-free, otherwise labelled bounded) with native counterexample replay"

CLAIMS = {
    "C01": {
        "text": "Deductive proof (Verus, unbounded in inputs and loop iterations) on the real function bodies that every step of the durability argument meets "
                "its contract: WAL framing/fsync/rollback (wal_writer), the reader equals the frame parser and ignores a torn tail (wal_reader + round-trip lemma), "
                "write paths append to the log before any in-memory mutation and change nothing on Err (backend_*), rotation publishes a segment before it is "
                "written (rotate_wal), compaction keeps every non-covered segment and files are unlinked only after the pruned MANIFEST is durable "
                "(compaction, snapshot_publish), temp-file/fsync/rename/dir-fsync order (atomic_publish), replay = replay_spec with sequence skipping "
                "(recover_replay, recover_segments), theory lemmas T1-T4 (theory_durability). Crash instants between system calls are covered through "
                "effect-order capabilities, not enumerated; the composition of the per-function contracts into the whole-history statement is the pure theory, "
                "not one end-to-end theorem about the binary.",
        "note": SEQ + "Residue: crash points inside third-party code, server main() (should_attempt_recovery), statvfs, file creation order outside the extracted "
                      "regions, WalWriter::append glue/retry closure, periodic fsync for intervals > 0.",
        "design": "DESIGN.md 5 (C01), 4 (theory), 7 (F-C01-a fixed)",
    },
    "C02": {
        "text": "Same contracts as C01 read for clean restarts: replay of snapshot + log equals the live view (recover_replay, recover_segments, theory T2/T3/T4), "
                "every write path updates the abstract view exactly as its log entry says (backend_insert/delete/update_metadata/batch_delete over the whole view), "
                "snapshot load checks integrity and alignment (snapshot_load), compaction never drops a non-covered segment (compaction).",
        "note": SEQ + "Residue: compact_tombstones (index rebuild), create_snapshot's live-document collection (iterator chains), HNSW index contents, "
                      "normalisation idempotence beyond the bounded Kani pair check, TieredEngine::recover wrapper.",
        "design": "DESIGN.md 5 (C02)",
    },
    "C03": {
        "text": "For every write path the clause 'Err => the store view is bit-identical' is proved on the real body (backend_*), a failed append is truncated back "
                "(wal_writer, with the exact two-fault corner stated), the engine layer leaves both tiers and the query cache unchanged on a cold-tier error "
                "(engine_write_paths), and the pre-flight rejects everything the index can reject before the log append (preflight: Kani, dimension <= 3, all "
                "f32 bit patterns, parametric in the sum-of-squares kernel; counterexamples replay natively).",
        "note": SEQ + "Residue: errno-level fault injection is represented by stub contracts 'may return Err with any prefix written'; classify_error string matching; "
                      "circuit-breaker timing; retry closure glue; insert's failure clause when the emergency drain runs; dimensions > 3 for the pre-flight pair.",
        "technique": TECH_VK,
        "design": "DESIGN.md 5 (C03), 7 (F-C03-a fixed)",
    },
    "C04": {
        "text": "Every read path (point, bulk, metadata, existence) is proved to return only values whose digest and token match the canonical store, with "
                "metadata taken from the canonical store, scrubbing every non-matching cache/mirror hit, for ARBITRARY cache and mirror contents "
                "(read_paths; backend accessors as functions of the store view; vector_cache/lru; engine write order: engine_write_paths; drain keeps existing "
                "canonical records: drain).",
        "note": SEQ + "Cache strategies behind dyn are stubs that may return anything (which is what the property wants); digest collision-freedom assumed. "
                      "Known finding F-C04-a (drain makes a mirror-only entry durable) is listed in known_findings.txt when the drain unit is present.",
        "design": "DESIGN.md 5 (C04)",
    },
    "C06": {
        "text": "Oversampling bounds and user-distance conversion are proved for all inputs (search_numeric: Kani complete); result mapping/merge/filter units "
                "(backend_map, merge, hot_filter) prove at-most-k, distinct, live, ordered results copied from the inputs.",
        "note": SEQ + "Residue: the reported distance being the TRUE distance (SIMD numerics), HotTier scan and HNSW graph search, async/timed paths. CBMC "
                      "over-approximates sqrt: only sign/NaN facts of the Euclidean conversion are proved.",
        "technique": TECH_VK,
        "design": "DESIGN.md 5 (C06)",
    },
    "C07": {
        "text": "Exact-key hits are proved to be for the bit-identical query, never for a larger k, and never stored across an invalidation (generation guard; "
                "every invalidator bumps the generation before it mutates) on the real get_scoped / insert_with_k_scoped_internal / invalidate_* / clear.",
        "note": SEQ + "Residue: the similarity path find_similar_query (closure over captured state) and its cosine criterion, the pruning bound of "
                      "invalidate_for_insert for SIMD summation order, search-thread/write-thread races.",
        "design": "DESIGN.md 5 (C07), 7 (F-C07-a fixed)",
    },
    "C10": {
        "text": "The id-space partition (global id = tenant<<32 | local; injective, invertible, out-of-range rejected; foreign ids unmap to 0) and the reserved-key "
                "sanitiser are proved on the real functions, with the bit-vector lemma T5.",
        "note": SEQ + "Residue (large): RPC handler wiring, auth interceptor, /usage, query_cache_scope hash injectivity, everything async. The claim is the "
                      "partition and helper functions, not end-to-end isolation.",
        "design": "DESIGN.md 5 (C10)",
    },
    "C11": {
        "text": "The reference matcher equals the recursive matches_spec written from the statement; the filter compiler returns exactly the alive documents that "
                "satisfy matches_spec (or None only for a bare NOT); ids_for_metadata_filter/scan return exactly the live matching ids; the numeric order key is "
                "order-isomorphic to f64 comparison (Kani complete); the filtered delete hands exactly the canonical matches to batch_delete.",
        "note": SEQ + "Residue: index maintenance (insert_doc/remove_doc/replace_doc/rebuild_from keep the accessor contracts) is assumed; BTreeMap::range, roaring; "
                      "proto filter types are hand-written mirrors of the prost output.",
        "technique": TECH_VK,
        "design": "DESIGN.md 5 (C11), 7 (F-C11-a fixed)",
    },
    "C12": {
        "text": "Pruning keeps the keep-set closed under parent_id and unlinks only outside it (prune); restore verifies every archive of the chain before the "
                "target is touched, extracts full-first and never clears without confirmation (restore_order, clear_guard, archive_header) — as far as "
                "those units are present (see Units).",
        "note": SEQ + "Residue: archive content = data directory at backup time; starting from the restored directory yields the collection; backup selection logic.",
        "design": "DESIGN.md 5 (C12), 7 (F-C12-a fixed)",
    },
    "C13": {
        "text": "Strict reader: Ok => zero corrupted frames, every complete frame CRC-checked and decoded, nothing complete dropped (wal_reader); snapshot load checks "
                "magic, size, CRC and version before decode and validates alignment (snapshot_load); Strict && Ok => every manifest segment existed and was read "
                "strictly (recover_segments); a fallback snapshot older than the committed one is accepted only if replay saw every sequence number in between "
                "(recover_strict_gap).",
        "note": SEQ + "CRC32 detecting a given flip is a property of crc32fast (trusted). Known finding F-C13-b (truncation in a non-final segment is read as a torn "
                      "tail) is carried by a failing obligation and listed in known_findings.txt.",
        "design": "DESIGN.md 5 (C13), 7 (F-C13-a fixed, F-C13-b known)",
    },
    "C14": {
        "text": "The four quota operations are proved against the exact counting contract (exists => unchanged; below max => +1; at max => Err unchanged; "
                "reserve/release/decrement saturating; other tenants untouched; count <= max preserved).",
        "note": SEQ + "Residue: concurrency (per-tenant mutex), Bulk*/BatchDelete handlers, the start-up recount in main; handler wiring is not verified.",
        "design": "DESIGN.md 5 (C14)",
    },
    "C15": {
        "text": "Request validators: Ok => every stated limit holds, no panic/overflow (api_validation, Verus); non-finite vectors are refused by the engine's own "
                "pre-flight on every path and refused requests have no effect (preflight Kani bounded dim <= 3; backend_insert Err clause); oversampling never overflows "
                "(search_numeric).",
        "note": SEQ + "Residue: bulk handlers' inline checks, the panic-containment tower layer, tonic decoding limits; lane-wise finiteness in the validator is a bounded Kani check.",
        "technique": TECH_VK,
        "design": "DESIGN.md 5 (C15)",
    },
    "C17": {
        "text": "Unchecked accessors of the packed level-0 store and the visited bitmap are proved in bounds under the representation invariant (Verus, nonlinear "
                "arithmetic); SIMD kernels are checked for out-of-bounds access by Kani up to a stated length bound (bounded, never counted as proved).",
        "note": SEQ + "Residue: that the call sites in the search loops establish dense < len is NOT verified; aliasing/use-after-free beyond Kani's memory model in the bounded runs.",
        "technique": TECH_VK,
        "design": "DESIGN.md 5 (C17)",
    },
    "C18": {
        "text": "KyroDbConfig::validate Ok implies the statement's predicate, for every value of the safety-relevant discrete settings (symbolic) and an enumerated set of "
                "environment/host strings, with cover guards on every accepting class (Kani).",
        "note": "Trusted: CBMC semantics; cheap anyhow stand-in. Residue: KyroDbConfig::load (config crate merge), main calling validate before opening anything; strings are enumerated, not symbolic.",
        "technique": "Kani harnesses over kani::any() on the real validate (strings enumerated), native counterexample replay",
        "design": "DESIGN.md 5 (C18)",
    },
    "C19": {
        "text": "Per-step token-bucket contract proved bit-precisely for every f64/u32 state and elapsed time (Kani complete: 0 <= tokens <= capacity, admitted <=> refilled >= 1, "
                "refund bounded), the refill amount pinned structurally (token_bucket_shape, Verus) and the window bound as lemma T6 over mathematical arithmetic.",
        "note": "Trusted: CBMC IEEE-754 semantics; Instant/Duration stubs. Residue: RateLimiter::check_limit (tenant-then-global order, refund) through Arc<Mutex> in a HashMap, thread safety, caller clock; T6 treats machine arithmetic as mathematical.",
        "technique": TECH_VK,
        "design": "DESIGN.md 5 (C19)",
    },
    "C20": {
        "text": "LruIndex is proved against its recency-order model (all operations), VectorCache keeps keys(cache) = keys(lru) and len <= capacity after insert, the "
                "engine's insert keeps the recent-write tier within its hard limit, evicted content stays readable through the canonical store (read_paths).",
        "note": SEQ + "Residue: SemanticAdapter's IndexMap store, learned-cache internals behind dyn CacheStrategy; VectorCache::new(0) is rejected by Config::validate only.",
        "design": "DESIGN.md 5 (C20)",
    },
}
