#!/bin/bash
# usage: tools/stability_sweep.sh [seeds...]   — runs every Verus unit once per z3 seed and lists obligations whose verdict changes
# (stability sweep, not a registered command; output: out/stability_<seed>.log)
cd /verif
for seed in "${@:-3 7}"; do
  : > out/stability_$seed.log
  for u in $(ls units/*.vrs | xargs -n1 basename | sed 's/\.vrs$//'); do
    VERIF_SMT_SEED=$seed VERIF_EVIDENCE_DIR=/verif/out/evidence_stab ./check --unit $u 2>&1 | grep "FAILED\|UNDECIDED\|undecided" | sed "s/^/$u: /" >> out/stability_$seed.log
  done
  echo "seed $seed: $(wc -l < out/stability_$seed.log) non-discharged lines"
done
