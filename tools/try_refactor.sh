#!/bin/bash
# usage: try_refactor.sh <patch.diff> [WT]  — apply a semantics-preserving edit to a scratch worktree and run every property whose units
# extract from a changed file; prints one line per property.  exit 1 on such an edit would be a FALSE ALARM of the machinery.
P="$1"; WT=${2:-/tmp/refacwt}
[ -d $WT ] || git -C /repo worktree add --detach $WT HEAD >/dev/null 2>&1
cd $WT && git checkout -q --detach "$(git -C /repo rev-parse HEAD)" && git checkout -- . && git apply "$P" || { echo "$(basename $P) patch does not apply"; exit 9; }
FILES=$(git diff --name-only)
cd /verif
PROPS=$(python3 - $FILES <<'PY'
import sys,re,glob
files=set(sys.argv[1:])
props=set()
for u in glob.glob('/verif/units/*.vrs')+glob.glob('/verif/units/*.kani'):
    t=open(u).read()
    used=set(re.findall(r'^//@(?:fn|region|expr|item|file)\s+(\S+)', t, re.M))
    if used & files:
        m=re.search(r'^//@serves (.*)$', t, re.M)
        if m: props|=set(m.group(1).split())
print(' '.join(sorted(props)))
PY
)
tag=$(basename $P .diff)
for pr in $PROPS; do
  ( VERIF_REPO=$WT VERIF_EVIDENCE_DIR=/verif/out/evidence_refac ./check $pr > /verif/out/refac_${tag}_$pr.log 2>&1; echo "$tag $pr exit=$? $(grep -c '^VIOLATION' /verif/out/refac_${tag}_$pr.log) violation(s) $(grep '^FAILED obligation' /verif/out/refac_${tag}_$pr.log | head -2 | tr '\n' ' ')$(grep '^UNDECIDED' /verif/out/refac_${tag}_$pr.log | head -1 | cut -c1-160)" ) &
done
wait
cd $WT && git checkout -- .
