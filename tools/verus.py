"""Run Verus on a generated unit file and classify every diagnostic (DESIGN.md Appendix B)."""
import json
import os
import re
import subprocess
import time

import gen

VERIF = gen.VERIF
OUT = os.path.join(VERIF, "out")

FAIL_PATTERNS = [
    r"postcondition not satisfied",
    r"unable to prove (pre|post)-?condition of closure",
    r"precondition not satisfied",
    r"precondition not met",       # native slice / Vec indexing: "precondition not met: index in bounds for this access"
    r"invariant not satisfied",
    r"assertion failed",
    r"possible arithmetic underflow/overflow",
    r"possible division by zero",
    r"possible bit shift underflow/overflow",
    r"loop ensures not satisfied",
    r"decreases not satisfied",
    r"unable to prove assertion",
    r"assertion not satisfied",
    r"recommendation not met",   # only when promoted to error
    r"constructed value may fail to meet its declared type invariant",
    r"may be out of range",
    r"value may be out of range of the target type",
]
UNDECIDED_PATTERNS = [r"rlimit", r"Resource limit", r"could not prove termination", r"timed? ?out"]

VERUS_FORBIDDEN = [r"\bassume\s*\(", r"\badmit\s*\(", r"#\[verifier::external\]", r"rlimit\s*\(\s*infinity"]


class Obligation:
    def __init__(self, oid, fn, kind, text):
        self.id, self.fn, self.kind, self.text = oid, fn, kind, text
        self.status = "unknown"     # discharged | FAILED | undecided
        self.detail = ""

    def to_json(self):
        return {"id": self.id, "fn": self.fn, "kind": self.kind, "text": self.text[:400], "status": self.status, "detail": self.detail[:2000]}


class UnitResult:
    def __init__(self, unit):
        self.unit = unit
        self.obligations = []
        self.undecided = []      # reasons
        self.notes = []
        self.solver_ms = 0
        self.total_ms = 0
        self.verified = 0
        self.errors = 0
        self.raw_errors = []
        self.gen = None
        self.outfile = None
        self.cmd = ""
        self.wall_s = 0.0
        self.fn_times = {}
        self.trusted = []
        self.canaries = {}

    def failed(self):
        return [o for o in self.obligations if o.status == "FAILED"]


def scan_trusted(g):
    """List every trusted stub in the generated text: external_body fns/structs, assume_specification,
    axioms (external_body proof fns), uninterp spec fns."""
    txt = g.text
    out = []
    for m in re.finditer(r"assume_specification\s*(?:<[^\[]*>)?\s*\[\s*([^\]]+?)\s*\]", txt, re.S):
        out.append("assume_specification " + re.sub(r"\s+", " ", m.group(1)))
    for m in re.finditer(r"#\[verifier::external_body\]\s*(?:#\[[^\]]*\]\s*)*((?:pub(?:\([a-z]+\))?\s+)?(?:broadcast\s+)?(?:proof\s+)?(?:fn|struct)\s+\w+)", txt):
        out.append("external_body " + re.sub(r"\s+", " ", m.group(1)))
    for m in re.finditer(r"\buninterp\s+spec\s+fn\s+(\w+)", txt):
        out.append("uninterpreted spec fn " + m.group(1))
    seen = []
    for x in out:
        if x not in seen:
            seen.append(x)
    return seen


def run_unit(template, overlay=None, tag="", tier="quick", keep=True, timeout=600, rlimit=None):
    """Generate + verify one unit.  Returns UnitResult."""
    t0 = time.time()
    unit = os.path.basename(template).rsplit(".", 1)[0]
    res = UnitResult(unit)
    try:
        g = gen.generate(template, overlay)
    except gen.GenError as e:
        res.undecided.append("generation: %s" % e)
        res.wall_s = time.time() - t0
        return res
    except Exception as e:  # lexer trouble on mutated text etc.
        res.undecided.append("generation crashed: %r" % e)
        res.wall_s = time.time() - t0
        return res
    res.gen = g
    for pat in VERUS_FORBIDDEN:
        if re.search(pat, g.text):
            res.undecided.append("forbidden construct %s in generated text" % pat)
    os.makedirs(OUT, exist_ok=True)
    unique = os.environ.get("VERIF_UNIQUE_OUT", "0") == "1"     # property checks: concurrent runs must not share generated files
    stem = unit + (("__" + tag) if tag else "") + ("__p%d" % os.getpid() if unique else "")
    outfile = os.path.join(OUT, "gen", stem + ".rs")
    os.makedirs(os.path.dirname(outfile), exist_ok=True)
    with open(outfile, "w") as f:
        f.write(g.text)
    res.outfile = outfile
    cmd = ["verus", outfile, "--crate-name", "vx_" + re.sub(r"\W", "_", unit), "--output-json", "--time", "--error-format=json",
           "--multiple-errors", "50", "--triggers-mode", "silent", "--num-threads", "2"]
    if rlimit:
        cmd += ["--rlimit", str(rlimit)]
    if os.environ.get("VERIF_SMT_SEED"):
        # stability sweeps only (not used by registered commands): a proof that depends on the solver's seed is brittle
        sd = os.environ["VERIF_SMT_SEED"]
        cmd += ["--smt-option", "smt.random_seed=" + sd, "--smt-option", "sat.random_seed=" + sd]
    res.cmd = " ".join(cmd)
    env = dict(os.environ)
    env["CARGO_NET_OFFLINE"] = "true"
    import signal
    pr = subprocess.Popen(cmd, stdout=subprocess.PIPE, stderr=subprocess.PIPE, env=env, cwd=os.path.join(OUT, "gen"), start_new_session=True)
    try:
        so, se = pr.communicate(timeout=timeout)
    except subprocess.TimeoutExpired:
        try:
            os.killpg(pr.pid, signal.SIGKILL)
        except OSError:
            pass
        res.undecided.append("verus timed out after %ds" % timeout)
        res.wall_s = time.time() - t0
        return res
    res.wall_s = time.time() - t0
    stdout = so.decode("utf-8", "replace")
    stderr = se.decode("utf-8", "replace")
    try:
        oj = json.loads(stdout[stdout.index("{"):]) if "{" in stdout else None
    except Exception:
        oj = None
    diags = []
    for ln in stderr.split("\n"):
        ln = ln.strip()
        if ln.startswith("{"):
            try:
                diags.append(json.loads(ln))
            except Exception:
                pass
    classify(res, g, oj, diags, stderr)
    res.trusted = scan_trusted(g)
    if (not keep or unique) and not res.failed() and not res.undecided:
        try:
            os.unlink(outfile)
        except OSError:
            pass
    return res


def _fn_success(oj):
    """-> {short fn name: (success, time_micros, mode)} from the function breakdown."""
    out = {}
    if not oj:
        return out
    try:
        mods = oj["times-ms"]["smt"]["smt-run-module-times"]
    except Exception:
        return out
    for m in mods:
        for fb in m.get("function-breakdown", []):
            name = fb["function"]
            short = name.split("::", 1)[1] if "::" in name else name
            ok = fb.get("success", False)
            mode = fb.get("mode:", fb.get("mode", ""))
            prev = out.get(short)
            if prev:
                out[short] = (prev[0] and ok, prev[1] + fb.get("time-micros", 0), mode)
            else:
                out[short] = (ok, fb.get("time-micros", 0), mode)
    return out


def classify(res, g, oj, diags, stderr):
    # 1. all obligations from clauses
    obl = {}
    for ex in g.extracted:
        if ex.kind not in ("fn", "region", "expr"):
            continue
        for cid, kind, txt in ex.clauses:
            if kind in ("requires", "recommends", "returns"):
                continue
            o = Obligation(cid, ex.name, kind, txt)
            obl[cid] = o
            res.obligations.append(o)
        sid = "%s/safety+callsites" % ex.name
        o = Obligation(sid, ex.name, "implicit", "no overflow / index in bounds / unwrap on Some / every callee precondition at its call site")
        obl[sid] = o
        res.obligations.append(o)
    fn_ok = _fn_success(oj)
    res.fn_times = {k: v[1] / 1000.0 for k, v in fn_ok.items()}
    if oj:
        vr = oj.get("verification-results", {})
        res.verified = vr.get("verified", 0)
        res.errors = vr.get("errors", 0)
        try:
            res.solver_ms = oj["times-ms"]["smt"]["total"]
            res.total_ms = oj["times-ms"]["total"]
        except Exception:
            pass
        if vr.get("encountered-vir-error"):
            res.undecided.append("verus VIR error (unsupported construct or ill-formed spec)")
    else:
        res.undecided.append("no verus JSON output (rustc error?)")
    # 2. diagnostics
    hint_failures = []
    clause_failed_fns = set()
    canary_failed = set()
    for d in diags:
        if d.get("level") != "error":
            continue
        msg = d.get("message", "")
        if msg.startswith("aborting due to"):
            continue
        spans = d.get("spans", [])
        infos = []
        for s in spans:
            if not s.get("file_name", "").endswith(os.path.basename(res.outfile)):
                infos.append((s, None))
                continue
            infos.append((s, g.origin_at(s["line_start"], s["column_start"])))
        prim = next(((s, o) for s, o in infos if s.get("is_primary")), (None, None))
        rendered = d.get("rendered", "") or msg
        if any(re.search(p, msg) for p in UNDECIDED_PATTERNS):
            res.undecided.append("solver gave up: %s" % msg)
            continue
        if d.get("code") or not any(re.search(p, msg) for p in FAIL_PATTERNS):
            res.undecided.append("verifier/rustc error (not a proof failure): %s" % rendered.strip()[:600])
            continue
        # canary?
        if prim[1] is not None and prim[1].get("t") == "canary":
            canary_failed.add(prim[1]["canary"])
            continue
        clause = next((o for s, o in infos if o is not None and o.get("t") == "clause" and not s.get("is_primary")), None)
        if clause is None:
            clause = next((o for s, o in infos if o is not None and o.get("t") == "clause"), None)
        fn = None
        for s, o in infos:
            if o is not None and o.get("fn"):
                fn = o["fn"]
                if s.get("is_primary"):
                    break
        res.raw_errors.append(rendered)
        if clause is not None and clause["id"] in obl and clause["kind"] != "requires":
            o = obl[clause["id"]]
            o.status = "FAILED"
            o.detail = rendered
            clause_failed_fns.add(o.fn)
            continue
        if clause is not None and clause["kind"] == "requires":
            # a contracted real function's precondition failed at a call site inside another extracted fn
            callfn = prim[1].get("fn") if prim[1] else None
            oid = "%s/callpre:%s" % (callfn or "?", clause["id"])
            o = Obligation(oid, callfn or "?", "callsite-precondition", clause["text"])
            o.status, o.detail = "FAILED", rendered
            res.obligations.append(o)
            clause_failed_fns.add(callfn)
            continue
        po = prim[1]
        if po is not None and po.get("t") == "hint" and "assertion" in msg:
            hint_failures.append((po.get("fn"), rendered))
            continue
        if po is not None and po.get("t") in ("src", "sig", "hint"):
            # implicit obligation or stub precondition at a call site in real code
            sec = next((s for s, o in infos if not s.get("is_primary")), None)
            what = msg
            if sec is not None and sec.get("text"):
                what += ": " + sec["text"][0]["text"].strip()
            line_txt = prim[0]["text"][0]["text"].strip() if prim[0].get("text") else ""
            oid = "%s/%s@%s" % (po.get("fn"), re.sub(r"\s+", "-", what)[:160], re.sub(r"\s+", "_", line_txt)[:80])
            o = Obligation(oid, po.get("fn"), "implicit", what + " at `" + line_txt + "`")
            o.status, o.detail = "FAILED", rendered
            res.obligations.append(o)
            sid = "%s/safety+callsites" % po.get("fn")
            if sid in obl:
                obl[sid].status = "FAILED"
                obl[sid].detail = "see " + oid
            clause_failed_fns.add(po.get("fn"))
            continue
        # failure located in hand-written template text (lemma / spec fn)
        line_txt = prim[0]["text"][0]["text"].strip() if prim[0] and prim[0].get("text") else ""
        encl = None
        if prim[0] is not None:
            upto = g.text[:g.line_starts[min(prim[0]["line_start"], len(g.line_starts)) - 1]]
            mm = None
            for mm in re.finditer(r"\bproof\s+fn\s+(\w+)", upto):
                pass
            # the failing line belongs to the nearest preceding proof fn if no other fn starts in between
            if mm is not None and not re.search(r"\n\s*(?:pub\s+)?(?:open\s+|closed\s+)?(?:spec\s+|exec\s+)?fn\s+\w+", upto[mm.end():]):
                encl = mm.group(1)
        if encl is not None:
            oid = "lemma/" + encl
            if any(ob.id == oid for ob in res.obligations):
                continue
            o = Obligation(oid, "(template)", "lemma", "proof fn %s: %s at `%s`" % (encl, msg, line_txt))
            o.status, o.detail = "FAILED", rendered
            res.obligations.append(o)
            continue
        oid = "template/%s@%s" % (re.sub(r"\s+", "-", msg)[:60], re.sub(r"\s+", "_", line_txt)[:80])
        o = Obligation(oid, "(template)", "lemma", msg + " at `" + line_txt + "`")
        o.status, o.detail = "FAILED", rendered
        res.obligations.append(o)
    # hint failures: undecided unless a clause of the same fn failed too
    for fn, rendered in hint_failures:
        if fn not in clause_failed_fns:
            res.undecided.append("proof-hint assertion failed in %s with no failing clause: %s" % (fn, rendered.strip()[:400]))
    # 3. per-function success => discharged
    for ex in g.extracted:
        if ex.kind not in ("fn", "region", "expr"):
            continue
        m = re.search(r"\bfn\s+(\w+)", ex.sig or "")
        fname = m.group(1) if m else ex.name.split("::")[-1]
        cands = [k for k in fn_ok if k == fname or k.endswith("::" + fname)]
        ok = bool(cands) and all(fn_ok[k][0] for k in cands)
        n_failed_here = sum(1 for o in res.obligations if o.fn == ex.name and o.status == "FAILED")
        for o in res.obligations:
            if o.fn == ex.name and o.status == "unknown":
                if ok:
                    o.status = "discharged"
                elif 0 < n_failed_here < 40 and not any("solver gave up" in u for u in res.undecided):
                    # --multiple-errors: Verus keeps going after each failing obligation (assuming it) and reports every
                    # further one; a clause it did not name was proved
                    o.status = "discharged"
                    o.detail = "function has other failing obligations; this one was not reported among them"
                else:
                    o.status = "undecided"
        if not ok and not any(o.status == "FAILED" for o in res.obligations if o.fn == ex.name):
            if not cands:
                res.undecided.append("function %s was not checked by verus (no query recorded)" % ex.name)
            else:
                res.undecided.append("function %s did not verify but no diagnostic names a failing obligation" % ex.name)
        if ex.canary:
            cc = [k for k in fn_ok if k == ex.canary or k.endswith("::" + ex.canary)]
            failed = ex.canary in canary_failed or (cc and not all(fn_ok[k][0] for k in cc))
            res.canaries[ex.canary] = bool(failed)
            if not failed:
                res.undecided.append("vacuity canary %s verified: precondition of %s is contradictory (or canary not checked)" % (ex.canary, ex.name))
    # 4. lemmas: proof fns of the template (not canaries, not vstd)
    known_fns = set()
    for ex in g.extracted:
        m = re.search(r"\bfn\s+(\w+)", ex.sig or "")
        if m:
            known_fns.add(m.group(1))
    for k, (ok, us, mode) in sorted(fn_ok.items()):
        short = k.split("::")[-1]
        if short.endswith("__vx_canary") or short in known_fns:
            continue
        if mode == "proof":
            if any(ob.id in ("lemma/" + k, "lemma/" + short) for ob in res.obligations):
                continue
            o = Obligation("lemma/" + k, "(template)", "lemma", "proof fn " + k)
            o.status = "discharged" if ok else "FAILED"
            if not ok:
                o.detail = "lemma no longer verifies"
                # avoid double counting with template/ obligation above
            res.obligations.append(o)
        elif not ok and mode in ("exec", "spec"):
            # hand-written exec helper (e.g. a stub wrapper) failing
            if not any(ob.status == "FAILED" for ob in res.obligations):
                res.undecided.append("template function %s did not verify" % k)
    if res.errors and not res.failed() and not res.undecided and set(res.canaries.values()) != {True}:
        res.undecided.append("verus reported %d errors that were not classified" % res.errors)
    expected_err = len(res.canaries)
    if oj and res.errors > expected_err and not res.failed() and not res.undecided:
        res.undecided.append("verus reported %d errors, %d expected from canaries, none classified" % (res.errors, expected_err))
