"""Unit template expansion: extract real code from /repo, apply declared rewrites, splice contracts.

A unit is `units/<name>.vrs`: a Verus source template whose `//@` lines are directives.  Everything
else is copied verbatim (hand-written, trusted-or-proved Verus text: stubs, spec functions, lemmas).
See DESIGN.md section 2 and Appendix A for the directive list.
"""
import hashlib
import os
import re

import rustlex

VERIF = os.path.dirname(os.path.dirname(os.path.abspath(__file__)))
REPO = os.environ.get("VERIF_REPO", "/repo")

REWRITE_CLASSES = {
    "lock-erasure", "component-erasure", "continue-desugar", "break-continue-desugar", "drain-full", "hoist-item",
    "enumerate-desugar", "refpat-desugar", "asref-param", "closure-param-desugar", "closure-contract", "std-rename",
    "async-strip", "ghost-field", "proof-hint", "region-call", "abstract-expr", "iter-name", "type-ascription",
    "derive-normalise", "attr-strip", "self-mut", "generic-bound", "macro-arg", "trait-method-path", "move-out",
}


class GenError(Exception):
    """Anchor lost / rewrite mismatch / lookup failure => the unit is undecided (exit 2), never a violation."""


class Chunk:
    __slots__ = ("text", "origin")

    def __init__(self, text, origin):
        self.text, self.origin = text, origin


def parse_regex_arg(s):
    """parse `/re/ rest` -> (re, rest)"""
    s = s.lstrip()
    if not s.startswith("/"):
        raise GenError("expected /regex/: %r" % s)
    i = 1
    out = []
    while i < len(s):
        if s[i] == "\\" and i + 1 < len(s) and s[i + 1] == "/":
            out.append("/")
            i += 2
            continue
        if s[i] == "/":
            return "".join(out), s[i + 1:].strip()
        out.append(s[i])
        i += 1
    raise GenError("unterminated regex: %r" % s)


def parse_quoted(s):
    s = s.lstrip()
    if not s.startswith('"'):
        raise GenError('expected "string": %r' % s)
    i = 1
    out = []
    while i < len(s):
        c = s[i]
        if c == "\\" and i + 1 < len(s):
            n = s[i + 1]
            out.append({"n": "\n", "t": "\t", '"': '"', "\\": "\\"}.get(n, "\\" + n))
            i += 2
            continue
        if c == '"':
            return "".join(out), s[i + 1:].strip()
        out.append(c)
        i += 1
    raise GenError("unterminated string: %r" % s)


def parse_opts(rest):
    opts = {}
    words = []
    for w in rest.split():
        if "=" in w and re.match(r"^[a-z_]+=", w):
            k, v = w.split("=", 1)
            opts[k] = v
        else:
            words.append(w)
    return opts, words


class Directive:
    def __init__(self, kind, args, heredoc, lineno):
        self.kind, self.args, self.heredoc, self.lineno = kind, args, heredoc, lineno


class Block:
    def __init__(self, kind, args, lineno):
        self.kind, self.args, self.lineno = kind, args, lineno
        self.subs = []


def parse_template(path):
    """-> (meta dict, list of parts) where a part is ('text', str, lineno) or ('block', Block) or ('include', file)."""
    lines = open(path).read().split("\n")
    meta = {"unit": os.path.basename(path).rsplit(".", 1)[0], "serves": [], "backend": "verus", "expect": {}}
    parts = []
    i = 0
    cur = None
    buf = []
    buf_line = 1

    def flush():
        nonlocal buf
        if buf:
            parts.append(("text", "\n".join(buf) + "\n", buf_line))
            buf = []

    while i < len(lines):
        ln = lines[i]
        st = ln.strip()
        if st.startswith("//@"):
            body = st[3:].strip()
            if not body:
                i += 1
                continue
            word = body.split()[0]
            rest = body[len(word):].strip()
            heredoc = None
            dline = i + 1
            if rest.endswith("<<<"):
                rest = rest[:-3].strip()
                j = i + 1
                hd = []
                while j < len(lines) and lines[j].strip() not in ("//@>>>", "//@ >>>", "//@  >>>", ">>>"):
                    hd.append(lines[j])
                    j += 1
                if j >= len(lines):
                    raise GenError("%s:%d: unterminated heredoc" % (path, i + 1))
                heredoc = "\n".join(hd)
                i = j
            if cur is None:
                if word == "unit":
                    meta["unit"] = rest
                elif word == "serves":
                    meta["serves"] = rest.split()
                elif word == "backend":
                    meta["backend"] = rest
                elif word == "note":
                    meta.setdefault("notes", []).append(rest)
                elif word == "assume":
                    meta.setdefault("assumptions", []).append(rest)
                elif word == "residue":
                    meta.setdefault("residue", []).append(rest)
                elif word == "trusted":
                    meta.setdefault("trusted", []).append(rest)
                elif word == "known":
                    meta.setdefault("known", []).append(rest)
                elif word == "include":
                    flush()
                    parts.append(("include", rest, i + 1))
                    buf_line = i + 2
                elif word == "stub":
                    flush()
                    parts.append(("stub", rest, i + 1))
                    buf_line = i + 2
                elif word == "assumed":
                    flush()
                    parts.append(("assumed", rest, i + 1, heredoc))
                    buf_line = i + 2
                elif word in ("fn", "item", "region", "expr"):
                    flush()
                    cur = Block(word, rest, i + 1)
                elif word == "lemma":
                    meta.setdefault("lemmas", []).append(rest)
                elif word == "harness":
                    meta.setdefault("harnesses", []).append(rest)
                elif word == "kaniflags":
                    meta.setdefault("kaniflags", []).extend(rest.split())
                elif word == "dep":
                    meta.setdefault("deps", []).append(rest)
                elif word == "file":
                    meta.setdefault("files", []).append((rest, heredoc or ""))
                else:
                    raise GenError("%s:%d: unknown directive %s" % (path, i + 1, word))
            else:
                if word == "end":
                    parts.append(("block", cur, cur.lineno))
                    cur = None
                    buf_line = i + 2
                else:
                    cur.subs.append(Directive(word, rest, heredoc, dline))
            i += 1
            continue
        if cur is not None:
            if st:
                raise GenError("%s:%d: text inside a directive block" % (path, i + 1))
            i += 1
            continue
        if not buf:
            buf_line = i + 1
        buf.append(ln)
        i += 1
    if cur is not None:
        raise GenError("%s: block at line %d not closed" % (path, cur.lineno))
    flush()
    return meta, parts


SECTION_KW = ("requires", "ensures", "invariant_except_break", "invariant", "decreases", "recommends", "returns", "no_unwind", "opens_invariants")


def split_clauses(spec_text):
    """Split a spec block (requires/ensures/invariant ... text) into [(kind, clause_text)].
    Clauses are separated by top-level commas."""
    out = []
    toks = rustlex.lex(spec_text)
    kind = None
    depth = 0
    cur_start = None
    bar_open = False
    angle = 0
    i = 0
    ct = toks
    n = len(ct)
    pieces = []  # (kind, start, end)

    def close(end):
        nonlocal cur_start
        if cur_start is not None and kind is not None:
            txt = spec_text[cur_start:end].strip()
            if txt:
                pieces.append((kind, txt))
        cur_start = None

    while i < n:
        t = ct[i]
        if t.kind in ("ws", "comment", "doc"):
            i += 1
            continue
        if depth == 0 and t.kind == "ident" and t.text in SECTION_KW:
            # keyword position: start of clause (cur_start None or only whitespace so far)
            if cur_start is None or not spec_text[cur_start:t.start].strip():
                close(t.start)
                kind = t.text
                cur_start = t.end
                i += 1
                continue
        if t.kind == "punct":
            if t.text in "([{":
                depth += 1
            elif t.text in ")]}":
                depth -= 1
            elif t.text == "<" and (angle > 0 or (i >= 2 and ct[i - 1].text == ":" and ct[i - 2].text == ":")):
                # turbofish / nested generic arguments: `Map::<int, Set<u64>>`
                angle += 1
            elif t.text == ">" and angle > 0 and not (i >= 1 and ct[i - 1].text in ("-", "=") and ct[i - 1].end == t.start):
                angle -= 1
            elif t.text == "," and depth == 0 and angle > 0:
                pass
            elif t.text == "," and depth == 0:
                # commas inside closure parameter lists `|a: int, b: int|` : detect by bar parity
                seg = spec_text[cur_start:t.start] if cur_start is not None else ""
                if _open_bar(seg):
                    i += 1
                    continue
                close(t.start)
                cur_start = t.end
                i += 1
                continue
        if cur_start is None:
            cur_start = t.start
        i += 1
    close(len(spec_text))
    return pieces


def _open_bar(seg):
    """True if seg ends inside a quantifier/closure parameter list, e.g. `forall|i: int` (odd number of
    single `|` that start a binder)."""
    # find last binder start
    m = None
    for m in re.finditer(r"(forall|exists|choose)\s*\|", seg):
        pass
    last = m.end() if m else None
    if last is None:
        # plain closure `|a, b| ..` in spec (rare)
        return False
    tail = seg[last:]
    # binder closes at next single `|` (not `||`)
    k = 0
    while k < len(tail):
        if tail[k] == "|":
            return False
        k += 1
    return True


def render_clauses(pieces, idbase, indent="        "):
    """-> list of Chunk, and list of (id, kind, text)"""
    chunks = []
    ids = []
    last_kind = None
    counters = {}
    for kind, txt in pieces:
        if kind != last_kind:
            chunks.append(Chunk("%s%s\n" % (indent[:-4], kind), {"t": "speckw"}))
            last_kind = kind
        counters[kind] = counters.get(kind, 0) + 1
        cid = "%s/%s#%d" % (idbase, kind, counters[kind])
        chunks.append(Chunk("%s%s,\n" % (indent, txt), {"t": "clause", "id": cid, "kind": kind, "text": txt}))
        ids.append((cid, kind, txt))
    return chunks, ids


def pubify_struct(text):
    """make every field of a struct `pub` (Verus treats a struct with a private field as opaque in `open spec fn`s)."""
    toks = rustlex.code_toks(rustlex.lex(text))
    ins = []
    depth = 0
    opener = None
    for i, t in enumerate(toks):
        if t.kind == "punct" and t.text in "([{<":
            if t.text == "<":
                if depth >= 1:
                    depth += 1
                continue
            depth += 1
            if depth == 1:
                opener = t.text
                if i + 1 < len(toks) and toks[i + 1].text not in (")", "}"):
                    ins.append(toks[i + 1].start)
        elif t.kind == "punct" and t.text in ")]}>":
            if t.text == ">":
                if depth > 1 and toks[i - 1].text != "-":
                    depth -= 1
                continue
            depth -= 1
        elif t.kind == "punct" and t.text == "," and depth == 1:
            if i + 1 < len(toks) and toks[i + 1].text not in (")", "}"):
                ins.append(toks[i + 1].start)
    for off in sorted(ins, reverse=True):
        text = text[:off] + "pub " + text[off:]
    return text


class Extracted:
    """One extracted function / region / item with its insertions."""

    def __init__(self, name, file, text, sha, kind):
        self.name, self.file, self.text, self.sha, self.kind = name, file, text, sha, kind
        self.rewrites = []     # (class, pattern, replacement, count)
        self.dropped = []
        self.clauses = []      # (id, kind, text)
        self.breaks = []       # (from, to, kills)
        self.harmless = []
        self.has_requires = False
        self.sig = None
        self.canary = None


def read_source(relfile, overlay):
    if overlay and relfile in overlay:
        return overlay[relfile]
    p = os.path.join(REPO, relfile)
    try:
        return open(p).read()
    except OSError as e:
        raise GenError("cannot read %s: %s" % (p, e))


def region_raw_text(unit, region, overlay):
    _, parts = parse_template(os.path.join(VERIF, "units", unit + ".vrs"))
    for p in parts:
        if p[0] == "block" and p[1].kind == "region":
            o2, w2 = parse_opts(p[1].args)
            if len(w2) >= 3 and w2[2] == region:
                ex, _ = expand_block(p[1], overlay, [], "verus")
                return ex.text
    raise GenError("region %s not found in unit %s" % (region, unit))


def apply_rw(text, d, ex):
    """d: Directive rw / rwlit.  returns new text"""
    args = d.args
    cls = args.split()[0]
    if cls not in REWRITE_CLASSES:
        raise GenError("line %d: unknown rewrite class %s" % (d.lineno, cls))
    rest = args[len(cls):].strip()
    if d.kind == "rw":
        pat, rest = parse_regex_arg(rest)
        if not rest.startswith("->"):
            raise GenError("line %d: expected ->" % d.lineno)
        if d.heredoc is not None:
            repl = d.heredoc
            rest2 = rest[2:].strip()
        else:
            repl, rest2 = parse_quoted(rest[2:])
        opts, _ = parse_opts(rest2)
        try:
            rx = re.compile(pat, re.M | (re.S if opts.get("dotall") else 0))
        except re.error as e:
            raise GenError("line %d: bad regex %s" % (d.lineno, e))
        if cls == "region-call" and "same" in opts:
            # the replaced text must be the text that unit U proves as region R (modular step, DESIGN.md 2.2)
            u2, r2 = opts["same"].split(":", 1)
            other = region_raw_text(u2, r2, getattr(ex, "overlay", None))
            for mm in rx.finditer(text):
                norm = lambda t: [l.strip() for l in t.strip().split("\n")]
                if norm(mm.group(0)) != norm(other):
                    raise GenError("region-call in %s: the replaced text is not the text proved as %s in unit %s" % (ex.name, r2, u2))
        new, cnt = rx.subn(repl, text)
    else:
        frm, rest = parse_quoted(rest)
        if not rest.startswith("->"):
            raise GenError("line %d: expected ->" % d.lineno)
        if d.heredoc is not None:
            to = d.heredoc
            rest2 = rest[2:].strip()
        else:
            to, rest2 = parse_quoted(rest[2:])
        opts, _ = parse_opts(rest2)
        cnt = text.count(frm)
        new = text.replace(frm, to)
        pat, repl = frm, to
    want = opts.get("n", "1")
    ok = (cnt >= 1) if want == "+" else (cnt >= 0 if want == "*" else cnt == int(want))
    if not ok:
        raise GenError("rewrite (%s) %r in %s matched %d times, expected %s (template line %d)" % (cls, pat, ex.name, cnt, want, d.lineno))
    if cnt:
        ex.rewrites.append({"class": cls, "pattern": pat, "replacement": repl, "count": cnt})
    return new


def desugar_continue(text, loop_no, with_break, ex):
    """continue-desugar / break-continue-desugar on the loop_no-th loop (1-based, textual order) of text."""
    loops = rustlex.find_loops(text)
    if loop_no > len(loops):
        raise GenError("%s: desugar: loop %d not found" % (ex.name, loop_no))
    lp = loops[loop_no - 1]
    if lp["kw"] == "loop":
        raise GenError("%s: desugar on `loop`" % ex.name)
    lo, hi = lp["head_end"], lp["close"]
    jumps = rustlex.jump_tokens(text, lo, hi)
    if any(j[3] for j in jumps):
        raise GenError("%s: labelled jump in desugared loop" % ex.name)
    has_break = any(j[0] == "break" for j in jumps)
    has_cont = any(j[0] == "continue" for j in jumps)
    if not has_cont:
        raise GenError("%s: loop %d has no `continue` (desugar not applicable)" % (ex.name, loop_no))
    if has_break and not with_break:
        raise GenError("%s: loop %d has `break`; use break-continue desugar" % (ex.name, loop_no))
    body = text[lo + 1:hi]
    # rewrite jumps inside body (offsets relative)
    edits = []
    for kw, s, e, _ in jumps:
        if kw == "continue":
            edits.append((s - lo - 1, e - lo - 1, "break"))
        else:
            edits.append((s - lo - 1, e - lo - 1, "{ vx_done = true; break }"))
    for s, e, r in sorted(edits, reverse=True):
        body = body[:s] + r + body[e:]
    if with_break and has_break:
        new_loop_body = "{ if !vx_done {\nloop /*vx:inner*/\n{" + body + " break; } } }"
        pre = "let mut vx_done = false;\n"
        start = lp["label_start"] if lp["label"] else lp["kw_start"]
        new = text[:start] + pre + text[start:lo] + new_loop_body + text[hi + 1:]
        cls = "break-continue-desugar"
    else:
        new_loop_body = "{\nloop /*vx:inner*/\n{" + body + " break; } }"
        new = text[:lo] + new_loop_body + text[hi + 1:]
        cls = "continue-desugar"
    ex.rewrites.append({"class": cls, "pattern": "loop %d" % loop_no, "replacement": "for P in E { loop { B[continue:=break]; break } }", "count": 1})
    return new


def find_anchor(text, d, ex):
    pat, rest = parse_regex_arg(d.args)
    opts, _ = parse_opts(rest)
    try:
        ms = list(re.finditer(pat, text, re.M))
    except re.error as e:
        raise GenError("line %d: bad regex %s" % (d.lineno, e))
    if "k" in opts:
        k = int(opts["k"])
        if k > len(ms) or k < 1:
            raise GenError("anchor %r in %s: match %d of %d not found (template line %d)" % (pat, ex.name, k, len(ms), d.lineno))
        m = ms[k - 1]
        if "of" in opts and int(opts["of"]) != len(ms):
            raise GenError("anchor %r in %s: %d matches, expected %s" % (pat, ex.name, len(ms), opts["of"]))
    else:
        if len(ms) != 1:
            raise GenError("anchor %r in %s matched %d times, expected 1 (template line %d)" % (pat, ex.name, len(ms), d.lineno))
        m = ms[0]
    return m, opts


def line_end(text, off):
    j = text.find("\n", off)
    return len(text) if j < 0 else j + 1


def line_start(text, off):
    j = text.rfind("\n", 0, off)
    return j + 1


def stmt_end(text, off):
    """offset just after the end of the statement that contains offset `off`: the first `;` at bracket
    depth 0 relative to `off`, or the `}` closing a block-statement (followed by newline)."""
    toks = rustlex.lex(text[off:])
    depth = 0
    for t in toks:
        if t.kind != "punct":
            continue
        if t.text in "([{":
            depth += 1
        elif t.text in ")]}":
            depth -= 1
            if depth < 0:
                return off + t.start
            if depth == 0 and t.text == "}":
                # block statement ends here unless followed by `;`, `else`, `.`, `?`, or `)`
                rest = text[off + t.end:]
                m = re.match(r"\s*(else\b|\.|\?|;|,|\))", rest)
                if m:
                    if m.group(1) == ";":
                        return line_end(text, off + t.end + m.end() - 1)
                    continue
                return line_end(text, off + t.end - 1)
        elif t.text == ";" and depth == 0:
            return line_end(text, off + t.start)
    return len(text)


def process_fn_like(ex, sig, body, subs, idbase, ret_default="r"):
    """Common part for fn / region / expr: rewrites were already applied on ex.text; here we build chunks:
    signature + header clauses + body with insertions."""
    insertions = []   # (offset in body, order, [Chunk])
    order = 0
    header_chunks = []
    attrs = []
    loops = None
    for d in subs:
        if d.kind == "spec":
            pieces = split_clauses(d.heredoc or "")
            ch, ids = render_clauses(pieces, idbase)
            header_chunks += ch
            ex.clauses += ids
            if any(k == "requires" for _, k, _ in ids):
                ex.has_requires = True
        elif d.kind == "attr":
            attrs.append(d.args)
        elif d.kind == "begin":
            order += 1
            insertions.append((1, order, [Chunk("\n" + (d.heredoc or d.args) + "\n", {"t": "hint", "fn": ex.name, "line": d.lineno})]))
        elif d.kind == "loop":
            if loops is None:
                loops = rustlex.find_loops(body)
            opts, words = parse_opts(d.args)
            n = int(words[0])
            if n > len(loops) or n < 1:
                raise GenError("%s: loop %d not found (%d loops) (template line %d)" % (ex.name, n, len(loops), d.lineno))
            lp = loops[n - 1]
            if "hh" in opts:
                # pinned loop header: robust against loops added/removed before this one by a harmless refactor
                def _hh(l):
                    return hashlib.sha256(re.sub(r"\s+", " ", body[l["kw_start"]:l["head_end"]]).strip().encode()).hexdigest()[:8]
                if _hh(lp) != opts["hh"]:
                    if os.environ.get("VERIF_PIN_STRICT"):
                        raise GenError("%s: loop %d: pinned header hash %s does not match ordinal (template line %d)" % (ex.name, n, opts["hh"], d.lineno))
                    cands = [l for l in loops if _hh(l) == opts["hh"]]
                    if len(cands) == 1:
                        lp = cands[0]
                        n = loops.index(lp) + 1
                    # else: the header text itself was edited (e.g. a range bound): keep the ordinal — the pin only helps
                    # when loops were added or removed before this one, it must never hide an edit of the loop it names
            ex.loop_headers = getattr(ex, "loop_headers", {})
            ex.loop_headers[d.lineno] = hashlib.sha256(re.sub(r"\s+", " ", body[lp["kw_start"]:lp["head_end"]]).strip().encode()).hexdigest()[:8]
            if "kw" in opts and opts["kw"] != lp["kw"]:
                raise GenError("%s: loop %d is `%s`, spec expects `%s`" % (ex.name, n, lp["kw"], opts["kw"]))
            if "iter" in opts:
                if lp["kw"] != "for":
                    raise GenError("%s: loop %d is not a for loop" % (ex.name, n))
                m = re.compile(r"\bin\b").search(body, lp["kw_start"], lp["head_end"])
                # first ` in ` after the pattern: patterns cannot contain the keyword `in`
                if not m:
                    raise GenError("%s: loop %d: no `in`" % (ex.name, n))
                order += 1
                insertions.append((m.end(), order, [Chunk(" %s:" % opts["iter"], {"t": "rewrite", "class": "iter-name"})]))
                ex.rewrites.append({"class": "iter-name", "pattern": "loop %d" % n, "replacement": "for P in %s: E" % opts["iter"], "count": 1})
            if d.heredoc:
                pieces = split_clauses(d.heredoc)
                ch, ids = render_clauses(pieces, "%s/loop%d" % (idbase, n), indent="                ")
                ex.clauses += ids
                order += 1
                insertions.append((lp["head_end"], order, [Chunk("\n", {"t": "speckw"})] + ch))
        elif d.kind in ("after", "before", "after-stmt"):
            m, opts = find_anchor(body, d, ex)
            if d.kind == "after":
                off = line_end(body, m.end() - 1 if m.end() > m.start() else m.end())
            elif d.kind == "after-stmt":
                off = stmt_end(body, m.start())
            else:
                off = line_start(body, m.start())
            order += 1
            insertions.append((off, order, [Chunk((d.heredoc or "") + "\n", {"t": "hint", "fn": ex.name, "line": d.lineno})]))
            ex.rewrites.append({"class": "proof-hint", "pattern": d.args, "replacement": "(ghost text, template line %d)" % d.lineno, "count": 1})
        elif d.kind in ("rw", "rwlit", "desugar", "break", "harmless", "ret", "start", "until", "wrap", "prologue", "epilogue", "pick", "derive", "strip-derive"):
            pass
        else:
            raise GenError("template line %d: unknown sub-directive %s" % (d.lineno, d.kind))
    # assemble
    chunks = []
    for a in attrs:
        chunks.append(Chunk(a + "\n", {"t": "template"}))
    chunks.append(Chunk(sig.rstrip() + "\n", {"t": "sig", "fn": ex.name}))
    chunks += header_chunks
    pos = 0
    for off, _, chs in sorted(insertions, key=lambda x: (x[0], x[1])):
        if off > pos:
            chunks.append(Chunk(body[pos:off], {"t": "src", "fn": ex.name, "file": ex.file}))
            pos = off
        chunks += chs
    chunks.append(Chunk(body[pos:], {"t": "src", "fn": ex.name, "file": ex.file}))
    chunks.append(Chunk("\n", {"t": "template"}))
    return chunks


def make_canary(ex, sig, subs, idbase):
    """A copy of the signature + requires with body `assert(false)`: must FAIL, else the precondition is vacuous."""
    req = []
    for d in subs:
        if d.kind in ("spec", "wrap"):
            for kind, txt in split_clauses(_spec_part(d.heredoc or "")):
                if kind == "requires":
                    req.append(txt)
    if not req:
        return None
    m = re.search(r"\bfn\s+(\w+)", sig)
    if not m:
        return None
    cname = m.group(1) + "__vx_canary"
    csig = sig[:m.start(1)] + cname + sig[m.end(1):]
    # drop the named return: canary returns nothing useful; keep type so the text stays mechanical
    text = csig.rstrip() + "\n    requires\n" + "".join("        %s,\n" % r for r in req) + "{ proof { assert(false); } vx_unreached() }\n"
    ex.canary = cname
    return Chunk(text, {"t": "canary", "fn": ex.name, "canary": cname})


def _spec_part(wrap_text):
    """for `wrap` heredocs: the text after the signature (from first requires/ensures keyword)."""
    m = re.search(r"^\s*(requires|ensures)\b", wrap_text, re.M)
    return wrap_text[m.start():] if m else ""


def expand_block(b, overlay, unit_breaks, backend="verus"):
    opts, words = parse_opts(b.args)
    if b.kind == "item":
        relfile, kind, name = words[0], words[1], words[2]
        src = read_source(relfile, overlay)
        try:
            it = rustlex.find_item(src, kind, name, opts.get("ctx", "*"))
        except LookupError as e:
            raise GenError(str(e))
        raw = src[it.start:it.end]
        ex = Extracted(name, relfile, raw, hashlib.sha256(raw.encode()).hexdigest()[:16], kind)
        text, dropped = rustlex.strip_prefix(raw)
        # inner attributes / docs on fields and variants
        text2 = re.sub(r"^[ \t]*///.*\n", "", text, flags=re.M)
        text2 = re.sub(r"^[ \t]*#\[(?:serde|default|doc|allow|cfg_attr|deprecated)[^\n]*\]\s*\n", "", text2, flags=re.M)
        text2 = re.sub(r"\bpub(\([a-z:\s]+\))? ", "", text2)
        if kind == "struct":
            text2 = pubify_struct(text2)
        ex.dropped = [x for x in dropped if not x.startswith("//")]
        derive = None
        for d in b.subs:
            if d.kind in ("rw", "rwlit"):
                text2 = apply_rw(text2, d, ex)
            elif d.kind == "derive":
                derive = d.args
            elif d.kind == "attr":
                pass
            else:
                raise GenError("template line %d: bad sub-directive %s in item" % (d.lineno, d.kind))
        chunks = []
        for d in b.subs:
            if d.kind == "attr":
                chunks.append(Chunk(d.args + "\n", {"t": "template"}))
        if derive is not None:
            chunks.append(Chunk("#[derive(%s)]\n" % derive, {"t": "template"}))
            ex.rewrites.append({"class": "derive-normalise", "pattern": "derive list", "replacement": derive, "count": 1})
        chunks.append(Chunk("pub " + text2 + "\n", {"t": "src", "fn": name, "file": relfile}))
        return ex, chunks
    if b.kind == "fn":
        relfile, path = words[0], words[1]
        src = read_source(relfile, overlay)
        try:
            it = rustlex.find_fn(src, path, int(opts["nth"]) if "nth" in opts else None, opts.get("trait"))
        except LookupError as e:
            raise GenError(str(e))
        raw = src[it.start:it.end]
        if "as" in words:
            opts["as"] = words[words.index("as") + 1]
        name = opts.get("as", path.split("::")[-1])
        shown = path if "as" not in opts else ("::".join(path.split("::")[:-1] + [name]))
        ex = Extracted(shown, relfile, raw, hashlib.sha256(raw.encode()).hexdigest()[:16], "fn")
        ex.overlay = overlay
        text, dropped = rustlex.strip_prefix(raw)
        ex.dropped = [x for x in dropped if not x.startswith("//")]
        for d in b.subs:
            if d.kind == "break":
                _collect_break(d, ex, unit_breaks, relfile)
            elif d.kind == "harmless":
                _collect_break(d, ex, unit_breaks, relfile, harmless=True)
        for d in b.subs:
            if d.kind in ("rw", "rwlit"):
                text = apply_rw(text, d, ex)
            elif d.kind == "desugar":
                o2, w2 = parse_opts(d.args)
                text = desugar_continue(text, int(o2["loop"]), w2[0] == "break-continue", ex)
        if "as" in opts:
            text = re.sub(r"\bfn\s+%s\b" % re.escape(path.split("::")[-1]), "fn " + name, text, count=1)
        sig, body = rustlex.split_fn(text)
        ret = "r"
        for d in b.subs:
            if d.kind == "ret":
                ret = d.args.strip()
        if ret != "-":
            sig, _ = rustlex.name_return(sig, ret)
        ex.sig = sig
        has_loops = bool(rustlex.find_loops(body))
        chunks = []
        if has_loops and backend == "verus":
            chunks.append(Chunk("#[verifier::exec_allows_no_decreases_clause]\n", {"t": "template"}))
        idbase = shown
        chunks += process_fn_like(ex, sig, body, b.subs, idbase)
        can = make_canary(ex, sig, b.subs, idbase)
        if can:
            chunks.append(can)
        return ex, chunks
    if b.kind == "region":
        relfile, path, name = words[0], words[1], words[2]
        src = read_source(relfile, overlay)
        try:
            it = rustlex.find_fn(src, path, int(opts["nth"]) if "nth" in opts else None, opts.get("trait"))
        except LookupError as e:
            raise GenError(str(e))
        ftext = src[it.start:it.end]
        ex = Extracted("%s@%s" % (path, name), relfile, "", "", "region")
        ex.overlay = overlay
        start = end = None
        wrap = prologue = epilogue = ""
        for d in b.subs:
            if d.kind == "start":
                m, o2 = find_anchor(ftext, d, ex)
                start = (m, o2)
            elif d.kind == "until":
                end = d
            elif d.kind == "wrap":
                wrap = d.heredoc or ""
            elif d.kind == "prologue":
                prologue = d.heredoc or ""
            elif d.kind == "epilogue":
                epilogue = d.heredoc or ""
        if start is None or end is None or not wrap:
            raise GenError("region %s: needs start, end, wrap" % name)
        s_off = line_start(ftext, start[0].start())
        if end.args.strip() == "matching-brace":
            ob = ftext.find("{", start[0].start())
            ct = rustlex.code_toks(rustlex.lex(ftext))
            idx = next((k for k, t in enumerate(ct) if t.start >= start[0].start() and t.text == "{" and t.kind == "punct"), None)
            if idx is None:
                raise GenError("region %s: no `{` after start" % name)
            close = rustlex.match_close(ct, idx)
            e_off = line_end(ftext, ct[close].start)
        elif end.args.strip() == "statement":
            e_off = stmt_end(ftext, start[0].start())
        else:
            pat, rest = parse_regex_arg(end.args)
            m2 = re.compile(pat, re.M).search(ftext, start[0].end())
            if not m2:
                raise GenError("region %s: end anchor %r not found" % (name, pat))
            o3, _ = parse_opts(rest)
            e_off = line_start(ftext, m2.start()) if o3.get("exclusive") else line_end(ftext, m2.end() - 1)
        raw = ftext[s_off:e_off]
        ex.text = raw
        ex.sha = hashlib.sha256(raw.encode()).hexdigest()[:16]
        text = raw
        for d in b.subs:
            if d.kind == "break":
                _collect_break(d, ex, unit_breaks, relfile)
            elif d.kind == "harmless":
                _collect_break(d, ex, unit_breaks, relfile, harmless=True)
        for d in b.subs:
            if d.kind in ("rw", "rwlit"):
                text = apply_rw(text, d, ex)
            elif d.kind == "desugar":
                o2, w2 = parse_opts(d.args)
                text = desugar_continue(text, int(o2["loop"]), w2[0] == "break-continue", ex)
        # wrap: signature part and clause part
        mm = re.search(r"^\s*(requires|ensures)\b", wrap, re.M)
        sigtext = wrap[:mm.start()] if mm else wrap
        spectext = wrap[mm.start():] if mm else ""
        ex.sig = sigtext
        body = "{\n" + (prologue + "\n" if prologue else "") + "/*vx:region-begin*/\n" + text + "/*vx:region-end*/\n" + (epilogue + "\n" if epilogue else "") + "}\n"
        subs = [Directive("spec", "", spectext, b.lineno)] + [d for d in b.subs if d.kind not in ("wrap",)]
        chunks = [Chunk("#[verifier::exec_allows_no_decreases_clause]\n", {"t": "template"})] if backend == "verus" else []
        chunks += process_fn_like(ex, sigtext, body, subs, name)
        ex.rewrites.append({"class": "region-wrap", "pattern": "wrapper signature/prologue/epilogue (hand-written, template line %d)" % b.lineno,
                            "replacement": (sigtext.strip() + " | " + prologue.strip() + " | " + epilogue.strip())[:400], "count": 1})
        can = make_canary(ex, sigtext, [Directive("spec", "", spectext, b.lineno)], name)
        if can:
            chunks.append(can)
        return ex, chunks
    if b.kind == "expr":
        relfile, path, name = words[0], words[1], words[2]
        src = read_source(relfile, overlay)
        try:
            it = rustlex.find_fn(src, path, int(opts["nth"]) if "nth" in opts else None, opts.get("trait"))
        except LookupError as e:
            raise GenError(str(e))
        ftext = src[it.start:it.end]
        ex = Extracted("%s@%s" % (path, name), relfile, "", "", "expr")
        wrap = ""
        pick = None
        for d in b.subs:
            if d.kind == "pick":
                pick, _ = find_anchor(ftext, d, ex)
            elif d.kind == "wrap":
                wrap = d.heredoc or ""
        if pick is None or not wrap:
            raise GenError("expr %s: needs pick and wrap" % name)
        raw = pick.group(1)
        ex.text = raw
        ex.sha = hashlib.sha256(raw.encode()).hexdigest()[:16]
        text = raw
        for d in b.subs:
            if d.kind == "break":
                _collect_break(d, ex, unit_breaks, relfile)
            elif d.kind == "harmless":
                _collect_break(d, ex, unit_breaks, relfile, harmless=True)
        for d in b.subs:
            if d.kind in ("rw", "rwlit"):
                text = apply_rw(text, d, ex)
        mm = re.search(r"^\s*(requires|ensures)\b", wrap, re.M)
        sigtext = wrap[:mm.start()] if mm else wrap
        spectext = wrap[mm.start():] if mm else ""
        ex.sig = sigtext
        body = "{\n" + text + "\n}\n"
        subs = [Directive("spec", "", spectext, b.lineno)] + [d for d in b.subs if d.kind not in ("wrap",)]
        chunks = process_fn_like(ex, sigtext, body, subs, name)
        ex.rewrites.append({"class": "region-wrap", "pattern": "expression wrapper (hand-written, template line %d)" % b.lineno, "replacement": sigtext.strip()[:300], "count": 1})
        return ex, chunks
    raise GenError("unknown block kind %s" % b.kind)


def _collect_break(d, ex, unit_breaks, relfile, harmless=False):
    frm, rest = parse_quoted(d.args)
    if not rest.startswith("->"):
        raise GenError("line %d: expected ->" % d.lineno)
    to, rest2 = parse_quoted(rest[2:])
    kills = None
    m = re.match(r"kills\s+(\S+)", rest2)
    if m:
        kills = m.group(1)
    unit_breaks.append({"fn": ex.name, "file": relfile, "from": frm, "to": to, "kills": kills, "harmless": harmless, "line": d.lineno,
                        "raw": ex.text})


def contract_stub(args, overlay, meta, lineno):
    """`//@stub UNIT Type::fn [as=NAME]`: emit an external_body stub of a function whose contract is PROVED in another unit:
    the signature is re-extracted from /repo (with that unit's declared rewrites), the clauses are that unit's `spec` text.
    This is the modular step done mechanically: the callee is seen through the contract proved elsewhere."""
    opts, words = parse_opts(args)
    if len(words) < 2:
        raise GenError("template line %d: //@stub UNIT Type::fn" % lineno)
    unit, path = words[0], words[1]
    tpath = os.path.join(VERIF, "units", unit + ".vrs")
    try:
        _, parts = parse_template(tpath)
    except OSError as e:
        raise GenError("stub: cannot read unit %s: %s" % (unit, e))
    blk = None
    allparts = list(parts)
    # look into the unit's includes as well (contracts proved on functions extracted by a shared prelude)
    for p in parts:
        if p[0] == "include":
            try:
                allparts += parse_template(os.path.join(VERIF, "prelude", p[1]))[1]
            except OSError:
                pass
    want_as = opts.get("of")
    for p in allparts:
        if p[0] == "block" and p[1].kind in ("region", "expr"):
            o2, w2 = parse_opts(p[1].args)
            if len(w2) >= 3 and w2[2] == path:      # addressed by the wrapper name
                blk = p[1]
                break
        if p[0] == "block" and p[1].kind == "fn":
            o2, w2 = parse_opts(p[1].args)
            if "as" in w2:
                o2["as"] = w2[w2.index("as") + 1]
            if len(w2) >= 2 and w2[1] == path and (want_as is None or o2.get("as") == want_as) and (want_as is not None or "as" not in o2):
                blk = p[1]
                break
    if blk is None:
        raise GenError("stub: unit %s has no //@fn block for %s (template line %d)" % (unit, path, lineno))
    ex, _ = expand_block(blk, overlay, [], meta.get("backend", "verus"))
    sig = ex.sig
    if "as" in opts:
        sig = re.sub(r"\bfn\s+\w+", "fn " + opts["as"], sig, count=1)
    out = ["#[verifier::external_body]\n", sig.rstrip() + "\n"]
    last = None
    for cid, kind, txt in ex.clauses:
        if kind.startswith("invariant") or "/loop" in cid:
            continue
        if kind != last:
            out.append("    %s\n" % kind)
            last = kind
        out.append("        %s,\n" % txt)
    out.append("{ unimplemented!() }\n")
    meta.setdefault("contract_stubs", []).append("%s (contract proved in unit %s)" % (path, unit))
    return Chunk("".join(out), {"t": "template", "line": lineno, "stub_of": "%s::%s" % (unit, path)})


def assumed_wrapper(args, meta, lineno, extra=None):
    """`//@assumed PRELUDE_FILE Type::fn [calls=NAME] [as=WRAPPER]`: take the contract that a HAND-WRITTEN external_body stub in
    prelude/PRELUDE_FILE assumes for Type::fn and emit a wrapper `fn <fn>__as_assumed(params) requires A ensures B { recv.<calls>(args) }`.
    Together with `//@stub UNIT Type::fn as=<calls>` (the contract PROVED in UNIT) the verifier then checks that the assumed contract
    follows from the proved one: the stub is no longer trusted, it is implied."""
    opts, words = parse_opts(args)
    if len(words) < 2:
        raise GenError("template line %d: //@assumed PRELUDE_FILE Type::fn" % lineno)
    pfile, path = words[0], words[1]
    try:
        text = open(os.path.join(VERIF, "prelude", pfile)).read()
    except OSError as e:
        raise GenError("assumed: %s" % e)
    ty, name = path.rsplit("::", 1) if "::" in path else (None, path)
    # locate `impl Ty {` ... and inside it `fn name(`
    start = 0
    if ty:
        mi = re.search(r"^impl(?:<[^>]*>)?\s+%s\b[^{\n]*\{" % re.escape(ty), text, re.M)
        cands = []
        for mi in re.finditer(r"^impl(?:<[^>]*>)?\s+%s\b[^{\n]*\{" % re.escape(ty), text, re.M):
            cands.append(mi.end())
        if not cands:
            raise GenError("assumed: no `impl %s` in %s" % (ty, pfile))
    else:
        cands = [0]
    found = None
    for c in cands:
        m = re.compile(r"\bfn\s+%s\s*(<[^(]*>)?\(" % re.escape(name)).search(text, c)
        if m:
            found = m
            break
    if not found:
        raise GenError("assumed: no fn %s in %s" % (path, pfile))
    end = text.find("{ unimplemented!() }", found.start())
    if end < 0:
        raise GenError("assumed: stub %s in %s does not end with `{ unimplemented!() }`" % (path, pfile))
    item = text[found.start():end]
    msp = re.search(r"\n?\s*\b(requires|ensures)\b", item)
    sig = item[:msp.start()] if msp else item
    spec = item[msp.start():] if msp else ""
    # parameters
    po = sig.index("(", sig.index(name))
    ct = rustlex.code_toks(rustlex.lex(sig[po:]))
    close = rustlex.match_close(ct, 0)
    ptext = sig[po + 1:po + ct[close].start]
    params, depth, cur = [], 0, ""
    for ch in ptext:
        if ch in "([{<":
            depth += 1
        elif ch in ")]}>":
            depth -= 1
        if ch == "," and depth == 0:
            params.append(cur.strip())
            cur = ""
        else:
            cur += ch
    if cur.strip():
        params.append(cur.strip())
    recv = None
    argnames = []
    for prm in params:
        if re.match(r"^&?\s*(mut\s+)?self$", prm):
            recv = "self"
            continue
        argnames.append(re.match(r"(?:mut\s+)?(\w+)\s*:", prm).group(1))
    calls = opts.get("calls", name + "__proved")
    wname = opts.get("as", name + "__as_assumed")
    wsig = re.sub(r"\bfn\s+%s\b" % re.escape(name), "fn " + wname, sig, count=1)
    wsig = re.sub(r"^\s*(pub(\([a-z]+\))?\s+)", "", wsig)
    call = ("%s.%s(%s)" % (recv, calls, ", ".join(argnames))) if recv else ("%s%s(%s)" % ((ty + "::") if ty else "", calls, ", ".join(argnames)))
    ex = Extracted("%s (assumed in prelude/%s)" % (path, pfile), "prelude/" + pfile, item, hashlib.sha256(item.encode()).hexdigest()[:16], "fn")
    ex.sig = wsig
    pieces = split_clauses(spec)
    # optional heredoc: EXTRA preconditions of the wrapper (invariants of the composition that the environment's stub leaves implicit).
    # Only `requires` clauses are accepted; each one is recorded as an assumption of the unit and guarded by a vacuity canary.
    xreq, xens = [], []
    if "skip" in opts:
        # clauses of the hand stub that NO abstraction function can discharge (e.g. a history variable): left out of the wrapper
        # and listed in the evidence as still trusted
        skip = set(int(x) for x in opts["skip"].split(","))
        kept, k = [], 0
        for kind, txt in pieces:
            if kind == "ensures":
                k += 1
                if k in skip:
                    meta.setdefault("trusted", []).append("NOT implied (still trusted): %s ensures#%d of prelude/%s: %s" % (path, k, pfile, re.sub(r"\s+", " ", txt)[:300]))
                    continue
            kept.append((kind, txt))
        pieces = kept
    if opts.get("selfmut") == "1":
        # the PROVED function takes `&mut self` (lock erasure: it bumps statistics) while the environment's stub takes `&self`:
        # the wrapper takes `&mut self` and every `self` of the assumed clauses reads the PRE-state
        wsig = re.sub(r"&\s*self\b", "&mut self", wsig, count=1)
        pieces = [(k, re.sub(r"(?<![\w(.])self\b(?!\s*\))", "old(self)", t)) for k, t in pieces]
        meta.setdefault("assumptions", []).append("implication %s: the environment's `&self` stub is checked against a `&mut self` function (statistics are bumped); its clauses read the pre-state" % path)
    if extra:
        for kind, txt in split_clauses(extra):
            if kind == "requires":
                xreq.append((kind, txt))
                meta.setdefault("assumptions", []).append("implication %s: wrapper precondition `%s`" % (path, re.sub(r"\s+", " ", txt)))
            elif kind == "ensures":
                xens.append((kind, txt))      # extra obligations (e.g. the frame a `&self` stub claims implicitly)
            else:
                raise GenError("assumed: the heredoc of //@assumed may hold `requires` / `ensures` clauses only (template line %d)" % lineno)
    pieces = xreq + [p for p in pieces if p[0] == "requires"] + [p for p in pieces if p[0] != "requires"] + xens
    ch, ids = render_clauses(pieces, "%s/assumed" % path)
    ex.clauses += ids
    chunks = [Chunk(wsig.rstrip() + "\n", {"t": "sig", "fn": ex.name})] + ch + [Chunk("{ %s }\n" % call, {"t": "src", "fn": ex.name, "file": "prelude/" + pfile})]
    allreq = [t for k, t in pieces if k == "requires"]
    if allreq:
        can = make_canary(ex, wsig, [Directive("spec", "", "requires " + ", ".join(allreq) + ",", lineno)], path)
        if can is not None:
            chunks.append(can)
    meta.setdefault("implied_stubs", []).append("%s of prelude/%s" % (path, pfile))
    return ex, chunks


class Generated:
    def __init__(self):
        self.meta = None
        self.chunks = []
        self.extracted = []
        self.breaks = []
        self.text = ""
        self.offsets = []   # start offset of each chunk

    def origin_at(self, line, col):
        """1-based line/col -> chunk origin"""
        if line < 1 or line > len(self.line_starts):
            return None
        off = self.line_starts[line - 1] + max(col - 1, 0)
        import bisect
        k = bisect.bisect_right(self.offsets, off) - 1
        if k < 0:
            return None
        return self.chunks[k].origin


def generate(template_path, overlay=None):
    meta, parts = parse_template(template_path)
    g = Generated()
    g.meta = meta

    def emit(parts, incl, depth):
        for p in parts:
            if p[0] == "text":
                g.chunks.append(Chunk(p[1], {"t": "prelude" if incl else "template", "file": incl, "line": p[2]}))
            elif p[0] == "include":
                if depth > 4:
                    raise GenError("include nesting too deep at %s" % p[1])
                f = os.path.join(VERIF, "prelude", p[1])
                try:
                    imeta, iparts = parse_template(f)
                except OSError as e:
                    raise GenError("include %s: %s" % (p[1], e))
                if p[1] in meta.setdefault("includes", []):
                    continue   # include once
                meta["includes"].append(p[1])
                for k in ("assumptions", "residue", "trusted", "notes"):
                    for x in imeta.get(k, []):
                        if x not in meta.setdefault(k, []):
                            meta[k].append(x)
                emit(iparts, p[1], depth + 1)
            elif p[0] == "stub":
                g.chunks.append(contract_stub(p[1], overlay, meta, p[2]))
            elif p[0] == "assumed":
                ex, chunks = assumed_wrapper(p[1], meta, p[2], p[3] if len(p) > 3 else None)
                g.extracted.append(ex)
                g.chunks += chunks
            else:
                ex, chunks = expand_block(p[1], overlay, g.breaks, meta.get("backend", "verus"))
                g.extracted.append(ex)
                g.chunks += chunks

    emit(parts, None, 0)
    off = 0
    for c in g.chunks:
        g.offsets.append(off)
        off += len(c.text)
    g.text = "".join(c.text for c in g.chunks)
    g.line_starts = [0]
    for m in re.finditer("\n", g.text):
        g.line_starts.append(m.end())
    return g
