// The concrete representation of engine/src/lru_index.rs `LruIndex<K>` and its abstraction (inside verus!): shared by unit
// `lru_index` (which proves the method contracts against it) and unit `implied_lru` (which checks that the opaque client stubs
// of lru_contracts.rs follow from those proved contracts).  `wf()`/`order()` here are the OPEN definitions of what
// lru_contracts.rs declares as `uninterp spec fn`.
//@include lru_model.rs
//@item engine/src/lru_index.rs struct LruNode
//@ derive Clone, Copy
//@end
//@item engine/src/lru_index.rs struct LruIndex
//@end

pub open spec fn prev_of<K>(o: Seq<K>, i: int) -> Option<K> { if i == 0 { None } else { Some(o[i - 1]) } }
pub open spec fn next_of<K>(o: Seq<K>, i: int) -> Option<K> { if i == o.len() - 1 { None } else { Some(o[i + 1]) } }

// every element of `o` except position `skip` has a node whose links agree with `o`
pub open spec fn links_ok<K>(nodes: Map<K, LruNode<K>>, o: Seq<K>, skip: int) -> bool {
    &&& lru_nodup(o)
    &&& forall|i: int| 0 <= i < o.len() && i != skip ==> #[trigger] nodes.contains_key(o[i])
    &&& forall|i: int| 0 <= i < o.len() && i != skip ==> (#[trigger] nodes[o[i]]).prev == prev_of(o, i)
    &&& forall|i: int| 0 <= i < o.len() && i != skip ==> (#[trigger] nodes[o[i]]).next == next_of(o, i)
}
// the concrete state (nodes, head, tail) represents the recency order `o` (oldest first)
pub open spec fn st_wf<K>(nodes: Map<K, LruNode<K>>, head: Option<K>, tail: Option<K>, o: Seq<K>) -> bool {
    &&& links_ok(nodes, o, -1)
    &&& head == first_of(o)
    &&& tail == last_of(o)
    &&& forall|k: K| nodes.contains_key(k) ==> o.contains(k)
}
pub open spec fn is_order<K>(nodes: Map<K, LruNode<K>>, head: Option<K>, tail: Option<K>, o: Seq<K>) -> bool {
    &&& st_wf(nodes, head, tail, o)
    &&& forall|o2: Seq<K>| #[trigger] st_wf(nodes, head, tail, o2) ==> o2 == o
}

impl<K> LruIndex<K>
where
    K: Eq + Hash + Copy,
{
    // abstract view: `order()` is the recency order (oldest first), `keys()` its set; `wf()` = the links represent some order
    pub open spec fn wf(&self) -> bool { exists|o: Seq<K>| st_wf(self.nodes@, self.head, self.tail, o) }
    pub open spec fn order(&self) -> Seq<K> { choose|o: Seq<K>| st_wf(self.nodes@, self.head, self.tail, o) }
    pub open spec fn keys(&self) -> Set<K> { self.order().to_set() }

    // the fact the stub file `lru_contracts.rs` states as `lemma_wf_order`
    pub proof fn lemma_wf_order(&self)
        requires self.wf(),
        ensures lru_nodup(self.order()),
    {}
}
