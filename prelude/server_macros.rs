// `format!` yields an opaque String (DESIGN.md 2.1: format arguments are dropped; assumption: formatting has no side effects)
macro_rules! format { ($($t:tt)*) => { String::new() } }
