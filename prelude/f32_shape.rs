// f32 as an opaque carrier with UNINTERPRETED operations (inside verus!): pins the SHAPE of float code, not its numerics.
// Verus gives native f32 operators no usable specification (`a + b` has an unprovable precondition and no determinism), so
// the units that include this file rewrite `f32` into the newtype F32 { v: f32 } (std-rename) in the code under contract.
// Every operator / method below is an external_body stub whose result is the uninterpreted function of the operand values.
//@trusted f32 is replaced by the newtype F32 { v: f32 }: `+` `+=` `-` `*` `/` are the uninterpreted fadd / fsub / fmul / fdiv of the operand values, `<` `<=` `>` `>=` are read off ONE uninterpreted comparison fcmp (fle = Less or Equal, fge = Greater or Equal, so NaN compares false both ways), `.sqrt()` `.max(x)` `.powi(n)` `.clamp(lo, hi)` `.is_finite()` are the uninterpreted fsqrt / fmax / fpowi / fclamp / ffinite; float literals stay native f32 literals (vx_f32(c) wraps the literal c)
use core::cmp::Ordering as FOrd;
pub uninterp spec fn fadd(a: f32, b: f32) -> f32;
pub uninterp spec fn fsub(a: f32, b: f32) -> f32;
pub uninterp spec fn fmul(a: f32, b: f32) -> f32;
pub uninterp spec fn fdiv(a: f32, b: f32) -> f32;
pub uninterp spec fn fsqrt(a: f32) -> f32;
pub uninterp spec fn fmax(a: f32, b: f32) -> f32;
pub uninterp spec fn fpowi(a: f32, n: i32) -> f32;
pub uninterp spec fn fclamp(a: f32, lo: f32, hi: f32) -> f32;
pub uninterp spec fn ffinite(a: f32) -> bool;
pub uninterp spec fn fcmp(a: f32, b: f32) -> Option<FOrd>;
pub open spec fn fle(a: f32, b: f32) -> bool { fcmp(a, b) == Some(FOrd::Less) || fcmp(a, b) == Some(FOrd::Equal) }
pub open spec fn flt(a: f32, b: f32) -> bool { fcmp(a, b) == Some(FOrd::Less) }
pub open spec fn fgt(a: f32, b: f32) -> bool { fcmp(a, b) == Some(FOrd::Greater) }
pub open spec fn fge(a: f32, b: f32) -> bool { fcmp(a, b) == Some(FOrd::Greater) || fcmp(a, b) == Some(FOrd::Equal) }

#[derive(Clone, Copy)]
pub struct F32 { pub v: f32 }
#[verifier::external_body] pub fn vx_f32(x: f32) -> (r: F32) ensures r.v == x { unimplemented!() }

impl core::ops::Add<F32> for F32 {
    type Output = F32;
    #[verifier::external_body] fn add(self, rhs: F32) -> (r: F32) ensures r.v == fadd(self.v, rhs.v) { unimplemented!() }
}
impl vstd::std_specs::ops::AddSpecImpl<F32> for F32 {
    open spec fn obeys_add_spec() -> bool { false }
    open spec fn add_req(self, rhs: F32) -> bool { true }
    open spec fn add_spec(self, rhs: F32) -> F32 { self }
}
impl core::ops::AddAssign<F32> for F32 {
    #[verifier::external_body] fn add_assign(&mut self, rhs: F32) ensures final(self).v == fadd(old(self).v, rhs.v) { unimplemented!() }
}
impl vstd::std_specs::ops::AddAssignSpecImpl<F32> for F32 {
    open spec fn obeys_add_assign_spec() -> bool { false }
    open spec fn add_assign_req(&self, rhs: F32) -> bool { true }
    open spec fn add_assign_spec(&self, rhs: F32) -> &Self { self }
}
impl core::ops::Sub<F32> for F32 {
    type Output = F32;
    #[verifier::external_body] fn sub(self, rhs: F32) -> (r: F32) ensures r.v == fsub(self.v, rhs.v) { unimplemented!() }
}
impl vstd::std_specs::ops::SubSpecImpl<F32> for F32 {
    open spec fn obeys_sub_spec() -> bool { false }
    open spec fn sub_req(self, rhs: F32) -> bool { true }
    open spec fn sub_spec(self, rhs: F32) -> F32 { self }
}
// `1.0 - x`: native literal on the left
impl core::ops::Sub<F32> for f32 {
    type Output = F32;
    #[verifier::external_body] fn sub(self, rhs: F32) -> (r: F32) ensures r.v == fsub(self, rhs.v) { unimplemented!() }
}
impl vstd::std_specs::ops::SubSpecImpl<F32> for f32 {
    open spec fn obeys_sub_spec() -> bool { false }
    open spec fn sub_req(self, rhs: F32) -> bool { true }
    open spec fn sub_spec(self, rhs: F32) -> F32 { rhs }
}
impl core::ops::Mul<F32> for F32 {
    type Output = F32;
    #[verifier::external_body] fn mul(self, rhs: F32) -> (r: F32) ensures r.v == fmul(self.v, rhs.v) { unimplemented!() }
}
impl vstd::std_specs::ops::MulSpecImpl<F32> for F32 {
    open spec fn obeys_mul_spec() -> bool { false }
    open spec fn mul_req(self, rhs: F32) -> bool { true }
    open spec fn mul_spec(self, rhs: F32) -> F32 { self }
}
impl core::ops::Div<F32> for F32 {
    type Output = F32;
    #[verifier::external_body] fn div(self, rhs: F32) -> (r: F32) ensures r.v == fdiv(self.v, rhs.v) { unimplemented!() }
}
impl vstd::std_specs::ops::DivSpecImpl<F32> for F32 {
    open spec fn obeys_div_spec() -> bool { false }
    open spec fn div_req(self, rhs: F32) -> bool { true }
    open spec fn div_spec(self, rhs: F32) -> F32 { self }
}
impl PartialEq<F32> for F32 {
    #[verifier::external_body] fn eq(&self, o: &F32) -> (r: bool) ensures r == (fcmp(self.v, o.v) == Some(FOrd::Equal)) { unimplemented!() }
}
impl PartialOrd<F32> for F32 {
    #[verifier::external_body] fn partial_cmp(&self, o: &F32) -> (r: Option<FOrd>) ensures r == fcmp(self.v, o.v) { unimplemented!() }
}
impl PartialEq<f32> for F32 {
    #[verifier::external_body] fn eq(&self, o: &f32) -> (r: bool) ensures r == (fcmp(self.v, *o) == Some(FOrd::Equal)) { unimplemented!() }
}
impl PartialOrd<f32> for F32 {
    #[verifier::external_body] fn partial_cmp(&self, o: &f32) -> (r: Option<FOrd>) ensures r == fcmp(self.v, *o) { unimplemented!() }
}
impl F32 {
    #[verifier::external_body] pub fn sqrt(self) -> (r: F32) ensures r.v == fsqrt(self.v) { unimplemented!() }
    #[verifier::external_body] pub fn max(self, other: f32) -> (r: F32) ensures r.v == fmax(self.v, other) { unimplemented!() }
    #[verifier::external_body] pub fn powi(self, n: i32) -> (r: F32) ensures r.v == fpowi(self.v, n) { unimplemented!() }
    #[verifier::external_body] pub fn clamp(self, lo: f32, hi: f32) -> (r: F32) ensures r.v == fclamp(self.v, lo, hi) { unimplemented!() }
    #[verifier::external_body] pub fn is_finite(self) -> (r: bool) ensures r == ffinite(self.v) { unimplemented!() }
}
