// Vocabulary of the contracts of the similarity path of the query cache (inside verus!, after a query-cache environment --
// qcache_lru_real_env.rs or qcache_core_env.rs -- and qcache_hit_spec.rs).  Shared by unit qcache_similar (which PROVES
// QueryHashCache::find_similar_query / get_scoped against it on the real text) and by unit implied_qcache (which sees get_scoped through the
// generated stub `//@stub qcache_similar QueryHashCache::get_scoped`).  Pure spec text and one uninterpreted function; nothing here is an axiom
// (the stub that USES `others` -- vx_other_writers -- lives in unit qcache_similar).
// ---- the keys for_each_recent(limit, f) hands to f: the first min(limit, len) keys in MRU order (order() is oldest first)
pub open spec fn recent_seq<K>(o: Seq<K>, limit: int) -> Seq<K> {
    Seq::new(imin(limit, o.len() as int) as nat, |i: int| o[o.len() - 1 - i])
}

// lock-erasure: what other threads did to the cache state between the read-locked scan and the write lock
pub uninterp spec fn others(s: QueryCacheState) -> QueryCacheState;
// same cached entries, query vectors, statistics, reverse index and LRU key set: only the recency order may differ
pub open spec fn same_entries(a: QueryCacheState, b: QueryCacheState) -> bool {
    &&& a.cache == b.cache
    &&& a.query_embeddings == b.query_embeddings
    &&& a.query_embedding_stats == b.query_embedding_stats
    &&& a.doc_to_query_keys == b.doc_to_query_keys
    &&& a.lru.keys() == b.lru.keys()
}
// a similarity hit answered from state s (the state the write-locked look-up saw), leaving state fin
pub open spec fn sim_hit(s: QueryCacheState, fin: QueryCacheState, scope: u64, qk: QueryCacheKey, k: usize, m: QueryCacheKey, res: Seq<SearchResult>) -> bool {
    &&& m.scope == scope
    &&& m != qk
    &&& s.cache@.contains_key(m)
    &&& s.cache@[m].requested_k >= k
    &&& res == s.cache@[m].results@.take(imin(k as int, s.cache@[m].results@.len() as int))
    &&& fin.lru.order() == lru_touch(s.lru.order(), m)
}
// what the read-locked scan established about the key it picked (in the state s0 the scan ran on)
pub open spec fn scan_ok(s0: QueryCacheState, scanned: Seq<QueryCacheKey>, scope: u64, qk: QueryCacheKey, k: usize, m: QueryCacheKey) -> bool {
    &&& m.scope == scope
    &&& m != qk
    &&& scanned.contains(m)
    &&& s0.cache@.contains_key(m)
    &&& s0.cache@[m].requested_k >= k
    &&& s0.query_embeddings@.contains_key(m)
}
pub open spec fn scanned_keys(c: QueryHashCache) -> Seq<QueryCacheKey> {
    recent_seq(c.state.lru.order(), imin(c.similarity_scan_limit as int, c.state.lru.order().len() as int))
}
