// Digest invariant of the DocumentStore (inside verus!, after backend_env.rs).  Pure spec text, nothing here is trusted.
// Shared by the backend write-path units (which PROVE that every write path preserves it: clause
// `old(self).doc_store.digests_ok() ==> final(self).doc_store.digests_ok()`) and by the implication unit implied_cold_tier
// (which needs it to derive the engine-level claim "a fetched vector matches the digest of its coherence token").
//@include store_tokens_spec.rs
// every document's token digest is the digest of its vector (exact f32 bit patterns); v = store view, t = store tokens
pub open spec fn digests_match(v: Map<u64, (Seq<f32>, Map<String, String>)>, t: Map<u64, (u64, VectorIntegrityDigest)>) -> bool {
    forall|d: u64| #[trigger] v.contains_key(d) ==> t[d].1 == spec_digest(v[d].0)
}
impl DocumentStore {
    // for every live d: digests[slot(d)] == spec_digest(embeddings[slot(d)]); stated over the two abstract maps so that it
    // carries over to any store with the same view and the same tokens (compaction moves the slots)
    pub open spec fn digests_ok(&self) -> bool { digests_match(self@, self.tokens()) }
}
