// `LruIndex<K>` as seen by its client units (inside verus!): an opaque struct whose methods are external_body stubs.
// Every requires/ensures below is, clause for clause, the contract that unit `lru_index` (units/lru_index.vrs) proves
// for the real method of engine/src/lru_index.rs against the same model (`lru_model.rs`).  Unit `implied_lru` machine-checks that
// each stub contract below FOLLOWS from the proved one (//@assumed); keep the `impl` header on one line (the tool locates it by it).
// Not stubbed: `detach` (private) and `for_each_recent` (not under contract in unit lru_index).
//@include lru_model.rs
//@trusted LruIndex<K> stub contracts (with_capacity, len, contains, clear, insert_new, touch, remove, pop_lru, lemma_wf_order) = implied by the contracts discharged in unit lru_index (checked by unit implied_lru); what stays trusted is the opaque struct itself
#[verifier::external_body]
#[verifier::reject_recursive_types(K)]
pub struct LruIndex<K>
where
    K: Eq + Hash + Copy,
{
    _p: core::marker::PhantomData<K>,
}

impl<K> LruIndex<K> where K: Eq + Hash + Copy {
    // abstract view: `order()` is the recency order (oldest first), `keys()` its set; `wf()` = the links represent some order
    pub uninterp spec fn wf(&self) -> bool;
    pub uninterp spec fn order(&self) -> Seq<K>;
    pub open spec fn keys(&self) -> Set<K> { self.order().to_set() }

    #[verifier::external_body]
    pub proof fn lemma_wf_order(&self)
        requires self.wf(),
        ensures lru_nodup(self.order()),
    {}

    #[verifier::external_body]
    pub fn with_capacity(capacity: usize) -> (r: Self)
        ensures r.wf(), r.order() == Seq::<K>::empty(),
    { unimplemented!() }

    #[verifier::external_body]
    pub fn len(&self) -> (r: usize)
        requires self.wf(), obeys_key_model::<K>(),
        ensures r == self.order().len(), r == self.keys().len(),
    { unimplemented!() }

    #[verifier::external_body]
    pub fn contains(&self, key: K) -> (r: bool)
        requires self.wf(), obeys_key_model::<K>(),
        ensures r == self.order().contains(key), r == self.keys().contains(key),
    { unimplemented!() }

    #[verifier::external_body]
    pub fn clear(&mut self)
        ensures final(self).wf(), final(self).order() == Seq::<K>::empty(), final(self).keys() == Set::<K>::empty(),
    { unimplemented!() }

    #[verifier::external_body]
    pub fn insert_new(&mut self, key: K)
        requires old(self).wf(), obeys_key_model::<K>(), eq_is_structural::<K>(),
        ensures
            final(self).wf(),
            final(self).order() == lru_insert(old(self).order(), key),
            final(self).keys() == old(self).keys().insert(key),
    { unimplemented!() }

    #[verifier::external_body]
    pub fn touch(&mut self, key: K) -> (r: bool)
        requires old(self).wf(), obeys_key_model::<K>(), eq_is_structural::<K>(),
        ensures
            final(self).wf(),
            r == old(self).order().contains(key),
            final(self).order() == lru_touch(old(self).order(), key),
            final(self).keys() == old(self).keys(),
    { unimplemented!() }

    #[verifier::external_body]
    pub fn remove(&mut self, key: K) -> (r: bool)
        requires old(self).wf(), obeys_key_model::<K>(), eq_is_structural::<K>(),
        ensures
            final(self).wf(),
            r == old(self).order().contains(key),
            final(self).order() == lru_remove(old(self).order(), key),
            final(self).keys() == old(self).keys().remove(key),
    { unimplemented!() }

    #[verifier::external_body]
    pub fn pop_lru(&mut self) -> (r: Option<K>)
        requires old(self).wf(), obeys_key_model::<K>(), eq_is_structural::<K>(),
        ensures
            final(self).wf(),
            r == first_of(old(self).order()),
            final(self).order() == lru_pop(old(self).order()),
            r.is_some() ==> old(self).keys().contains(r.unwrap()) && final(self).keys() == old(self).keys().remove(r.unwrap()),
            r.is_none() ==> old(self).keys() == Set::<K>::empty() && final(self).keys() == old(self).keys(),
    { unimplemented!() }
}
