// Trusted specification of `slice::sort_by` and the f32 comparison it is used with (inside verus!).
//@trusted slice::sort_by: the result is a permutation of the input (same multiset); IF the comparison closure is a consistent total preorder on the elements (deterministic, cmp(b,a) = reverse(cmp(a,b)), `<=` transitive) THEN every earlier element compares not-Greater to every later one.  Nothing is promised about the order otherwise (std: unspecified order, may panic since Rust 1.81)
//@trusted f32::partial_cmp is a function of its two arguments (`obeys_partial_cmp_spec`); the function itself (`partial_cmp_spec`) stays uninterpreted: no IEEE fact (transitivity, NaN) is assumed
pub use core::cmp::Ordering as CmpOrdering;

#[verifier::external_body] pub broadcast proof fn axiom_f32_partial_cmp_is_a_function()
    ensures #[trigger] <f32 as vstd::std_specs::cmp::PartialOrdSpec>::obeys_partial_cmp_spec() {}

pub open spec fn ord_rev(o: CmpOrdering) -> CmpOrdering {
    match o { CmpOrdering::Less => CmpOrdering::Greater, CmpOrdering::Equal => CmpOrdering::Equal, CmpOrdering::Greater => CmpOrdering::Less }
}
/// "a call `f(&a, &b)` may return `o`"
pub open spec fn cl_ens<T, F: FnMut(&T, &T) -> CmpOrdering>(f: F, a: T, b: T, o: CmpOrdering) -> bool { f.ensures((&a, &b), o) }
/// some permitted answer of `f(&a, &b)` is not `Greater`
pub open spec fn closure_le<T, F: FnMut(&T, &T) -> CmpOrdering>(f: F, a: T, b: T) -> bool {
    exists|o: CmpOrdering| #[trigger] cl_ens(f, a, b, o) && o != CmpOrdering::Greater
}
/// the closure behaves as a total preorder on the elements of `s`
pub open spec fn cmp_consistent<T, F: FnMut(&T, &T) -> CmpOrdering>(f: F, s: Seq<T>) -> bool {
    &&& forall|i: int, j: int, o1: CmpOrdering, o2: CmpOrdering| 0 <= i < s.len() && 0 <= j < s.len()
            && #[trigger] cl_ens(f, s[i], s[j], o1) && #[trigger] cl_ens(f, s[i], s[j], o2) ==> o1 == o2
    &&& forall|i: int, j: int, o1: CmpOrdering, o2: CmpOrdering| 0 <= i < s.len() && 0 <= j < s.len()
            && #[trigger] cl_ens(f, s[i], s[j], o1) && #[trigger] cl_ens(f, s[j], s[i], o2) ==> o2 == ord_rev(o1)
    &&& forall|i: int, j: int, l: int, o1: CmpOrdering, o2: CmpOrdering, o3: CmpOrdering| 0 <= i < s.len() && 0 <= j < s.len() && 0 <= l < s.len()
            && #[trigger] cl_ens(f, s[i], s[j], o1) && #[trigger] cl_ens(f, s[j], s[l], o2) && #[trigger] cl_ens(f, s[i], s[l], o3)
            && o1 != CmpOrdering::Greater && o2 != CmpOrdering::Greater ==> o3 != CmpOrdering::Greater
}
pub open spec fn sorted_by_closure<T, F: FnMut(&T, &T) -> CmpOrdering>(f: F, s: Seq<T>) -> bool {
    forall|i: int, j: int| 0 <= i < j < s.len() ==> #[trigger] closure_le(f, s[i], s[j])
}
pub assume_specification<T, F>[<[T]>::sort_by](v: &mut [T], f: F)
    where F: FnMut(&T, &T) -> CmpOrdering
    requires
        forall|a: &T, b: &T| #[trigger] f.requires((a, b)),
    ensures
        final(v)@.to_multiset() == old(v)@.to_multiset(),
        final(v)@.len() == old(v)@.len(),
        cmp_consistent(f, old(v)@) ==> sorted_by_closure(f, final(v)@),
;
