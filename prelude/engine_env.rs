// Shared environment of the TieredEngine read/write path units (inside verus!).
// Canonical state = the abstract view of the cold tier (HnswBackend stub).  The hot tier, the L1a document cache and
// the L1b query cache are stubs with ghost views; NO invariant ties those views to the canonical one, i.e. the
// mirrors may hold anything (stale versions, corrupt payloads, orphans).
//@assume sequential semantics: the caller owns the hot tier, L1a cache, query cache and circuit breakers for the whole call (component-erasure: `Arc<X>` -> `X`, mutating stub methods take `&mut self`)
//@assume the statistics counters of TieredEngineStats never wrap (StatsLock::write grants every counter < u64::MAX / 2)
//@assume 128-bit vector digests are collision-free is NOT assumed: contracts state digest equality only (DESIGN.md T7)
//@trusted cold-tier stub (HnswBackend): token_of/fetch_* are functions of the abstract view; a fetched vector matches the digest of its token (store invariant, to be discharged by the backend_insert / backend_accessors units)
//@trusted L1a stub (CacheStrategy): get_cached/peek_cached return the view's entry for the id; the view is unconstrained ("get_cached returns anything"); insert_cached may refuse and may evict other ids; invalidate removes exactly the id
//@trusted hot-tier stub (HotTier): HashMap view; get_with_coherence/exists/len read it, delete/batch_delete/insert_with_coherence/update_metadata/drain_for_flush update it as named.  Every HotTier stub contract below is IMPLIED by the contract unit hot_tier_ops proves on the real method (checked by unit implied_hot_tier, under `statistics counters do not wrap`); HotTier::scan has no contract
//@trusted query-cache stub (QueryHashCache): view = cached entries with the doc ids they reference; clear empties it; invalidate_doc(d) leaves no entry referencing d and adds nothing.  clear / invalidate_doc / invalidate_for_insert are IMPLIED by the contracts proved on the real query_hash_cache.rs (checked by unit implied_qcache, under the cache-state invariant wf for invalidate_doc)
//@trusted CircuitBreaker stub: `last_open` is a history variable = the answer of the most recent is_open() call; `failures` / `successes` are history counters of the record_failure() / record_success() calls; effect capabilities: record_success() REQUIRES attempt_cap (granted by an is_open() that answered false, consumed by a verdict), record_failure() REQUIRES attempt_cap AND failure_cap (granted only by the failure outcome -- Err / worker panic / timeout -- of a fallible guarded tier operation; no stub of engine_env.rs grants it: a `None` from a point-read fetch is an answer, not a failure)
//@trusted digest_embedding is a function of the exact f32 bit patterns (uninterpreted spec_digest)
use anyhow::{anyhow, Result};
//@include string_axioms.rs

// ---------------------------------------------------------------- coherence.rs
//@item engine/src/coherence.rs struct VectorIntegrityDigest
//@ derive Debug, Clone, Copy, PartialEq, Eq, Structural
//@end
//@item engine/src/coherence.rs struct VectorCoherenceToken
//@ derive Debug, Clone, Copy, PartialEq, Eq, Structural
//@end
pub uninterp spec fn spec_digest(e: Seq<f32>) -> VectorIntegrityDigest;
#[verifier::external_body]
pub fn digest_embedding(e: &[f32]) -> (r: VectorIntegrityDigest) ensures r == spec_digest(e@) { unimplemented!() }

//@fn engine/src/coherence.rs embedding_matches_token
//@ spec <<<
    ensures r == (spec_digest(embedding@) == token.digest)
//@ >>>
//@ break "== token.digest" -> "!= token.digest" kills any
//@ break "digest_embedding(embedding) == token.digest" -> "token.digest == token.digest" kills any
//@ harmless "digest_embedding(embedding) == token.digest" -> "token.digest == digest_embedding(embedding)"
//@end

// ---------------------------------------------------------------- small items of config.rs / persistence.rs / tiered_engine.rs
//@item engine/src/config.rs enum DistanceMetric
//@ derive Debug, Clone, Copy, PartialEq, Eq, Structural
//@end
//@item engine/src/config.rs enum RecoveryMode
//@ derive Debug, Clone, Copy, PartialEq, Eq, Structural
//@end
//@item engine/src/persistence.rs enum FsyncPolicy
//@ derive Debug, Clone, Copy, PartialEq, Eq, Structural
//@end
//@item engine/src/tiered_engine.rs enum PointQueryTier
//@ derive Debug, Clone, Copy, PartialEq, Eq, Structural
//@end
//@item engine/src/tiered_engine.rs enum CanonicalVectorState
//@ derive Debug, Clone, Copy, PartialEq, Eq, Structural
//@end

#[verifier::external_body]
pub struct Instant { _p: core::marker::PhantomData<()> }
impl Instant { #[verifier::external_body] pub fn now() -> Instant { unimplemented!() } }
#[verifier::external_body]
pub struct Duration { _p: core::marker::PhantomData<()> }
#[verifier::external_body]
pub struct Semaphore { _p: core::marker::PhantomData<()> }
#[verifier::external_body]
pub struct AccessLoggerLock { _p: core::marker::PhantomData<()> }
#[verifier::external_body]
pub struct InstantLock { _p: core::marker::PhantomData<()> }
pub struct MetadataFilter { pub x: u8 }
/// semantics of a metadata filter (unit filter_compile / filter_reference prove the real matcher against it)
pub uninterp spec fn matches_spec(f: &MetadataFilter, m: Map<String, String>) -> bool;
/// stands for `crate::metadata_filter::matches`
#[verifier::external_body]
pub fn metadata_filter_matches(f: &MetadataFilter, m: &HashMap<String, String>) -> (r: bool) ensures r == matches_spec(f, m@) { unimplemented!() }

//@item engine/src/vector_cache.rs struct CachedVector
//@end
//@item engine/src/tiered_engine.rs struct TieredEngineConfig
//@end
//@item engine/src/tiered_engine.rs struct TieredEngineStats
//@end

pub type Meta = Map<String, String>;
pub type HotTierMirrorDocument = (u64, Vec<f32>, HashMap<String, String>, VectorCoherenceToken);

// ---------------------------------------------------------------- statistics (mode B guard stub)
#[verifier::external_body]
pub struct StatsGuard { _p: core::marker::PhantomData<()> }
impl StatsGuard { pub uninterp spec fn view(&self) -> TieredEngineStats; }
pub open spec fn stats_small(s: TieredEngineStats) -> bool {
    &&& s.total_queries < u64::MAX / 2 &&& s.total_inserts < u64::MAX / 2
    &&& s.cache_hits < u64::MAX / 2 &&& s.cache_misses < u64::MAX / 2
    &&& s.hot_tier_hits < u64::MAX / 2 &&& s.hot_tier_misses < u64::MAX / 2
    &&& s.cold_tier_searches < u64::MAX / 2 &&& s.circuit_breaker_rejections < u64::MAX / 2
    &&& s.hot_tier_emergency_evictions < u64::MAX / 2 &&& s.hot_tier_flushes < u64::MAX / 2
    &&& s.hot_tier_flush_failures < u64::MAX / 2
}
impl core::ops::Deref for StatsGuard {
    type Target = TieredEngineStats;
    #[verifier::external_body]
    fn deref(&self) -> (r: &TieredEngineStats) ensures *r == self@ { unimplemented!() }
}
impl core::ops::DerefMut for StatsGuard {
    #[verifier::external_body]
    fn deref_mut(&mut self) -> (r: &mut TieredEngineStats) ensures *r == old(self)@, *final(r) == final(self)@ { unimplemented!() }
}
#[verifier::external_body]
pub struct StatsLock { _p: core::marker::PhantomData<()> }
impl StatsLock {
    // assumption: the statistics counters never wrap
    #[verifier::external_body] pub fn write(&self) -> (g: StatsGuard) ensures stats_small(g@) { unimplemented!() }
}

// ---------------------------------------------------------------- circuit breaker
#[verifier::external_body]
pub struct CircuitBreaker { _p: core::marker::PhantomData<()> }
impl CircuitBreaker {
    /// history variable: the answer of the most recent `is_open()` call
    pub uninterp spec fn last_open(&self) -> bool;
    /// history variables: how many times record_failure() / record_success() have been called on this breaker
    pub uninterp spec fn failures(&self) -> nat;
    pub uninterp spec fn successes(&self) -> nat;
    /// effect capability "a guarded attempt is in progress": granted by an `is_open()` that answered false (the caller goes on to
    /// consult the guarded tier), withdrawn by an `is_open()` that answered true, consumed by the verdict (record_success / record_failure)
    pub uninterp spec fn attempt_cap(&self) -> bool;
    /// effect capability "the guarded tier operation FAILED": only the FAILURE outcome of a fallible guarded tier operation may grant it
    /// (in tiered_engine.rs: Err of the timed cold/hot search, JoinError = panic of its worker, timeout).  An answer -- `Some`, `None`
    /// (document not found), an empty result -- is not a failure.  No stub of this file grants it: the point-read tier operations
    /// (get_cached, get_with_coherence, fetch_document_with_coherence, ...) return Option and have no failure outcome
    pub uninterp spec fn failure_cap(&self) -> bool;
    #[verifier::external_body] pub fn is_open(&mut self) -> (r: bool)
        ensures r == final(self).last_open(),
            final(self).failures() == old(self).failures(), final(self).successes() == old(self).successes(),
            final(self).attempt_cap() == !r, final(self).failure_cap() == old(self).failure_cap() { unimplemented!() }
    /// verdict "the tier answered": needs an attempt in progress
    #[verifier::external_body] pub fn record_success(&mut self)
        requires old(self).attempt_cap(),
        ensures final(self).last_open() == old(self).last_open(),
            final(self).successes() == old(self).successes() + 1, final(self).failures() == old(self).failures(),
            !final(self).attempt_cap(), final(self).failure_cap() == old(self).failure_cap() { unimplemented!() }
    /// verdict "the tier failed" (may open the breaker: later lookups are refused): needs an attempt in progress AND the failure capability
    #[verifier::external_body] pub fn record_failure(&mut self)
        requires old(self).attempt_cap(), old(self).failure_cap(),
        ensures final(self).last_open() == old(self).last_open(),
            final(self).failures() == old(self).failures() + 1, final(self).successes() == old(self).successes(),
            !final(self).attempt_cap(), !final(self).failure_cap() { unimplemented!() }
}

// ---------------------------------------------------------------- L1a document cache behind `dyn CacheStrategy`
#[verifier::external_body]
pub struct CacheStrategy { _p: core::marker::PhantomData<()> }
impl CacheStrategy {
    /// observable content: id -> (embedding, coherence token) that a lookup would return.  Unconstrained.
    pub uninterp spec fn view(&self) -> Map<u64, (Seq<f32>, VectorCoherenceToken)>;
    #[verifier::external_body] pub fn get_cached(&mut self, d: u64) -> (r: Option<CachedVector>)
        ensures final(self)@ == old(self)@, r.is_some() == old(self)@.contains_key(d),
            r.is_some() ==> r.unwrap().embedding@ == old(self)@[d].0 && r.unwrap().coherence == old(self)@[d].1 { unimplemented!() }
    #[verifier::external_body] pub fn peek_cached(&self, d: u64) -> (r: Option<CachedVector>)
        ensures r.is_some() == self@.contains_key(d),
            r.is_some() ==> r.unwrap().embedding@ == self@[d].0 && r.unwrap().coherence == self@[d].1 { unimplemented!() }
    #[verifier::external_body] pub fn should_cache(&self, d: u64, e: &[f32]) -> bool { unimplemented!() }
    #[verifier::external_body] pub fn insert_cached(&mut self, c: CachedVector)
        ensures
            forall|d: u64| d != c.doc_id && #[trigger] final(self)@.contains_key(d) ==> old(self)@.contains_key(d) && final(self)@[d] == old(self)@[d],
            final(self)@.contains_key(c.doc_id) ==> final(self)@[c.doc_id] == (c.embedding@, c.coherence)
                || (old(self)@.contains_key(c.doc_id) && final(self)@[c.doc_id] == old(self)@[c.doc_id]),
    { unimplemented!() }
    #[verifier::external_body] pub fn invalidate(&mut self, d: u64) ensures final(self)@ == old(self)@.remove(d) { unimplemented!() }
}

// ---------------------------------------------------------------- L1b query cache
// qc_empty / map_le / QueryHashCache::refs: prelude/qc_view_spec.rs (shared with the implication unit implied_qcache)
//@include qc_view_spec.rs
#[verifier::external_body]
pub struct QueryHashCache { _p: core::marker::PhantomData<()> }
impl QueryHashCache {
    /// cached entries (abstract key) -> doc ids in the cached result
    pub uninterp spec fn view(&self) -> Map<int, Set<u64>>;
    #[verifier::external_body] pub fn clear(&mut self) ensures final(self)@ == qc_empty() { unimplemented!() }
    #[verifier::external_body] pub fn invalidate_doc(&mut self, d: u64) -> (r: usize)
        ensures map_le(final(self)@, old(self)@), !final(self).refs(d),
            forall|x: u64| #[trigger] final(self).refs(x) ==> old(self).refs(x),
            forall|k: int| #[trigger] old(self)@.contains_key(k) && !old(self)@[k].contains(d) ==> final(self)@.contains_key(k) { unimplemented!() }
    #[verifier::external_body] pub fn invalidate_for_insert(&mut self, e: &[f32], m: DistanceMetric) -> (r: usize)
        ensures map_le(final(self)@, old(self)@), forall|x: u64| #[trigger] final(self).refs(x) ==> old(self).refs(x) { unimplemented!() }
}

// ---------------------------------------------------------------- hot tier (recent-write mirror)
#[verifier::external_body]
pub struct HotTier { _p: core::marker::PhantomData<()> }
pub type HotView = Map<u64, (Seq<f32>, Meta, VectorCoherenceToken)>;
pub open spec fn merge_meta(old_m: Meta, new_m: Meta, merge: bool) -> Meta { if merge { old_m.union_prefer_right(new_m) } else { new_m } }
impl HotTier {
    pub uninterp spec fn view(&self) -> HotView;
    #[verifier::external_body] pub fn get_with_coherence(&self, d: u64) -> (r: Option<(Vec<f32>, VectorCoherenceToken)>)
        ensures r.is_some() == self@.contains_key(d), r.is_some() ==> r.unwrap().0@ == self@[d].0 && r.unwrap().1 == self@[d].2 { unimplemented!() }
    #[verifier::external_body] pub fn bulk_fetch_with_coherence(&self, ds: &[u64]) -> (r: Vec<Option<(Vec<f32>, HashMap<String, String>, VectorCoherenceToken)>>)
        ensures r@.len() == ds@.len(),
            forall|i: int| 0 <= i < ds@.len() ==> (#[trigger] r@[i]).is_some() == self@.contains_key(ds@[i]),
            forall|i: int| 0 <= i < ds@.len() && (#[trigger] r@[i]).is_some() ==> r@[i].unwrap().0@ == self@[ds@[i]].0 && r@[i].unwrap().1@ == self@[ds@[i]].1 && r@[i].unwrap().2 == self@[ds@[i]].2 { unimplemented!() }
    #[verifier::external_body] pub fn exists(&self, d: u64) -> (r: bool) ensures r == self@.contains_key(d) { unimplemented!() }
    #[verifier::external_body] pub fn get_metadata(&self, d: u64) -> (r: Option<HashMap<String, String>>)
        ensures r.is_some() == self@.contains_key(d), r.is_some() ==> r.unwrap()@ == self@[d].1 { unimplemented!() }
    #[verifier::external_body] pub fn len(&self) -> (r: usize) ensures self@.dom().finite(), r == self@.len() { unimplemented!() }
    #[verifier::external_body] pub fn delete(&mut self, d: u64) -> (r: bool)
        ensures final(self)@ == old(self)@.remove(d), r == old(self)@.contains_key(d) { unimplemented!() }
    #[verifier::external_body] pub fn batch_delete(&mut self, ds: &[u64]) -> (r: usize)
        ensures final(self)@ == old(self)@.remove_keys(ds@.to_set()) { unimplemented!() }
    #[verifier::external_body] pub fn update_metadata(&mut self, d: u64, m: HashMap<String, String>, merge: bool) -> (r: bool)
        ensures r == old(self)@.contains_key(d),
            !r ==> final(self)@ == old(self)@,
            r ==> final(self)@ == old(self)@.insert(d, (old(self)@[d].0, merge_meta(old(self)@[d].1, m@, merge), old(self)@[d].2)) { unimplemented!() }
    #[verifier::external_body] pub fn drain_for_flush(&mut self) -> (r: Vec<HotTierMirrorDocument>)
        ensures final(self)@ == HotView::empty(), old(self)@.dom().finite(), r@.len() == old(self)@.len() { unimplemented!() }
    #[verifier::external_body] pub fn insert_with_coherence(&mut self, d: u64, e: Vec<f32>, m: HashMap<String, String>, c: VectorCoherenceToken)
        ensures final(self)@ == old(self)@.insert(d, (e@, m@, c)) { unimplemented!() }
    // ids whose *mirror* metadata satisfies the predicate (no contract: the result is only used as a candidate list)
    #[verifier::external_body] pub fn scan<F: Fn(&HashMap<String, String>) -> bool>(&self, f: F) -> (r: Vec<u64>) { unimplemented!() }
}

// ---------------------------------------------------------------- cold tier = canonical store
#[verifier::external_body]
pub struct HnswBackend { _p: core::marker::PhantomData<()> }
pub type ColdView = Map<u64, (Seq<f32>, Meta, VectorCoherenceToken)>;
impl HnswBackend {
    /// canonical collection: id -> (exact vector bits, metadata, coherence token)
    pub uninterp spec fn view(&self) -> ColdView;
    pub open spec fn token_of(&self, d: u64) -> Option<VectorCoherenceToken> { if self@.contains_key(d) { Some(self@[d].2) } else { None } }
    pub open spec fn vec_of(&self, d: u64) -> Seq<f32> { self@[d].0 }
    pub open spec fn meta_of(&self, d: u64) -> Meta { self@[d].1 }
    // ---- readers
    #[verifier::external_body] pub fn exists(&self, d: u64) -> (r: bool) ensures r == self@.contains_key(d) { unimplemented!() }
    #[verifier::external_body] pub fn current_coherence_token(&self, d: u64) -> (r: Option<VectorCoherenceToken>) ensures r == self.token_of(d) { unimplemented!() }
    #[verifier::external_body] pub fn fetch_document_with_coherence(&self, d: u64) -> (r: Option<(Vec<f32>, VectorCoherenceToken)>)
        ensures r.is_some() == self@.contains_key(d),
            r.is_some() ==> r.unwrap().0@ == self@[d].0 && r.unwrap().1 == self@[d].2 && spec_digest(r.unwrap().0@) == r.unwrap().1.digest { unimplemented!() }
    #[verifier::external_body] pub fn fetch_document(&self, d: u64) -> (r: Option<Vec<f32>>)
        ensures r.is_some() == self@.contains_key(d), r.is_some() ==> r.unwrap()@ == self@[d].0 && spec_digest(r.unwrap()@) == self@[d].2.digest { unimplemented!() }
    #[verifier::external_body] pub fn fetch_metadata(&self, d: u64) -> (r: Option<HashMap<String, String>>)
        ensures r.is_some() == self@.contains_key(d), r.is_some() ==> r.unwrap()@ == self@[d].1 { unimplemented!() }
    #[verifier::external_body] pub fn bulk_fetch(&self, ds: &[u64]) -> (r: Vec<Option<(Vec<f32>, HashMap<String, String>)>>)
        ensures r@.len() == ds@.len(),
            forall|i: int| 0 <= i < ds@.len() ==> (#[trigger] r@[i]).is_some() == self@.contains_key(ds@[i]),
            forall|i: int| 0 <= i < ds@.len() && (#[trigger] r@[i]).is_some() ==> r@[i].unwrap().0@ == self@[ds@[i]].0 && r@[i].unwrap().1@ == self@[ds@[i]].1
                && spec_digest(r@[i].unwrap().0@) == self@[ds@[i]].2.digest { unimplemented!() }
    #[verifier::external_body] pub fn ids_for_metadata_filter(&self, f: &MetadataFilter) -> (r: Vec<u64>)
        ensures forall|d: u64| #![trigger r@.contains(d)] #![trigger self@.contains_key(d)] r@.contains(d) <==> (self@.contains_key(d) && matches_spec(f, self@[d].1)) { unimplemented!() }
    // ---- writers (contracts = those proved by the backend_* units over DocumentStore@)
    #[verifier::external_body] pub fn delete(&mut self, d: u64) -> (r: Result<bool>)
        ensures r.is_err() ==> final(self)@ == old(self)@,
            r.is_ok() ==> final(self)@ == old(self)@.remove(d) && r.unwrap() == old(self)@.contains_key(d) { unimplemented!() }
    #[verifier::external_body] pub fn batch_delete(&mut self, ds: &[u64]) -> (r: Result<u64>)
        ensures r.is_err() ==> final(self)@ == old(self)@, r.is_ok() ==> final(self)@ == old(self)@.remove_keys(ds@.to_set()) { unimplemented!() }
    #[verifier::external_body] pub fn update_metadata(&mut self, d: u64, m: HashMap<String, String>, merge: bool) -> (r: Result<bool>)
        ensures r.is_err() ==> final(self)@ == old(self)@,
            r matches Ok(false) ==> final(self)@ == old(self)@ && !old(self)@.contains_key(d),
            r matches Ok(true) ==> old(self)@.contains_key(d)
                && final(self)@ == old(self)@.insert(d, (old(self)@[d].0, merge_meta(old(self)@[d].1, m@, merge), old(self)@[d].2)) { unimplemented!() }
    #[verifier::external_body] pub fn insert(&mut self, d: u64, e: Vec<f32>, m: HashMap<String, String>) -> (r: Result<()>)
        ensures r.is_err() ==> final(self)@ == old(self)@,
            r.is_ok() ==> final(self)@.contains_key(d) && final(self)@[d].0.len() == e@.len() && final(self)@[d].1 == m@
                && final(self)@[d].2.digest == spec_digest(final(self)@[d].0) && final(self)@.remove(d) == old(self)@.remove(d),
            r.is_ok() && preflight_ok(e@) ==> final(self)@[d].0 == e@ { unimplemented!() }
}

/// capability: this exact vector passed the engine's pre-flight (granted only by normalize_in_place_if_needed Ok; same capability as
/// in backend_env.rs).  HnswBackend::insert stores its argument bit for bit only for such a vector (last clause of the stub above;
/// any other accepted vector is stored NORMALISED: same length, digest of the stored vector); exactly what unit implied_cold_tier
/// derives from backend_insert.  The call site of TieredEngine::insert hands over a pre-flighted vector (unit engine_write_paths,
/// proof fn c03_cold_insert_arg_preflighted)
pub uninterp spec fn preflight_ok(v: Seq<f32>) -> bool;
#[verifier::external_body]
fn normalize_in_place_if_needed(distance: DistanceMetric, embedding: &mut Vec<f32>) -> (r: Result<()>)
    ensures final(embedding)@.len() == old(embedding)@.len(), r.is_ok() ==> preflight_ok(final(embedding)@) { unimplemented!() }

// ---------------------------------------------------------------- the engine
//@item engine/src/tiered_engine.rs struct TieredEngine
//@ rw component-erasure /Arc<dyn CacheStrategy>/ -> "CacheStrategy"
//@ rw component-erasure /Arc<(QueryHashCache|HotTier|HnswBackend|CircuitBreaker|Semaphore)>/ -> "\1" n=8
//@ rw lock-erasure /Arc<RwLock<AccessPatternLogger>>/ -> "AccessLoggerLock"
//@ rw lock-erasure /Arc<RwLock<TieredEngineStats>>/ -> "StatsLock"
//@ rw lock-erasure /Arc<RwLock<Instant>>/ -> "InstantLock"
//@end

impl TieredEngine {
    /// `v` is the canonical vector of `d` as far as the 128-bit digest can tell (DESIGN.md T7)
    pub open spec fn canon_ok(&self, d: u64, v: Seq<f32>) -> bool {
        self.cold_tier@.contains_key(d) && spec_digest(v) == self.cold_tier@[d].2.digest
    }
    /// a mirrored (embedding, token) pair is servable: token = canonical token and the payload matches it
    pub open spec fn entry_canonical(&self, d: u64, e: Seq<f32>, t: VectorCoherenceToken) -> bool {
        self.cold_tier@.contains_key(d) && self.cold_tier@[d].2 == t && spec_digest(e) == t.digest
    }
    /// access logging for cache training: no effect on any view
    #[verifier::external_body] fn log_point_access(&self, d: u64) { unimplemented!() }
}
