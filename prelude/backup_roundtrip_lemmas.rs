// (inside verus!, after backup_archive_spec.rs) Round trip writer -> reader, PROVED in every unit that includes this file:
// the bytes write_backup_archive produces (archive_bytes) are read back by the reading side's spec functions (hdr_ok / member_end /
// payload / archive_checksum / member_off / member_name) as exactly the entries that were written.
pub open spec fn off_of(es: Seq<ArchiveEntry>, k: int) -> int { 4 + members_bytes(es, k).len() as int }
pub open spec fn all_members_ok(es: Seq<ArchiveEntry>) -> bool {
    es.len() <= 1_000_000 && forall|i: int| 0 <= i < es.len() ==> member_ok(#[trigger] es[i])
}

proof fn lemma_le32_one(x: u32) ensures u32_le(x).len() == 4, le32(u32_le(x)) == x {
    vstd::bytes::lemma_auto_spec_u32_to_from_le_bytes();
    let s = vstd::bytes::spec_u32_to_le_bytes(x);
    assert(s.len() == 4);
    assert(vstd::bytes::spec_u32_from_le_bytes(s) == x);
}
proof fn lemma_le64_one(x: u64) ensures u64_le(x).len() == 8, le64(u64_le(x)) == x {
    vstd::bytes::lemma_auto_spec_u64_to_from_le_bytes();
    let s = vstd::bytes::spec_u64_to_le_bytes(x);
    assert(s.len() == 8);
    assert(vstd::bytes::spec_u64_from_le_bytes(s) == x);
}
pub proof fn lemma_le_roundtrip()
    ensures
        forall|x: u32| #![trigger u32_le(x)] u32_le(x).len() == 4 && le32(u32_le(x)) == x,
        forall|x: u64| #![trigger u64_le(x)] u64_le(x).len() == 8 && le64(u64_le(x)) == x,
{
    assert forall|x: u32| #![trigger u32_le(x)] u32_le(x).len() == 4 && le32(u32_le(x)) == x by { lemma_le32_one(x); }
    assert forall|x: u64| #![trigger u64_le(x)] u64_le(x).len() == 8 && le64(u64_le(x)) == x by { lemma_le64_one(x); }
}

// the frame of entry k sits at [off_of(k), off_of(k + 1)) of the member area of any longer prefix
pub proof fn lemma_member_at(es: Seq<ArchiveEntry>, n: int, k: int)
    requires 0 <= k < n <= es.len(),
    ensures
        members_bytes(es, k + 1).len() <= members_bytes(es, n).len(),
        members_bytes(es, k + 1).len() == members_bytes(es, k).len() + entry_frame(es[k]).len(),
        members_bytes(es, n).subrange(members_bytes(es, k).len() as int, members_bytes(es, k + 1).len() as int) =~= entry_frame(es[k]),
    decreases n
{
    if n == k + 1 {
    } else {
        lemma_member_at(es, n - 1, k);
        let a = members_bytes(es, n - 1);
        let f = entry_frame(es[n - 1]);
        assert(members_bytes(es, n) == a + f);
        assert((a + f).subrange(members_bytes(es, k).len() as int, members_bytes(es, k + 1).len() as int)
            =~= a.subrange(members_bytes(es, k).len() as int, members_bytes(es, k + 1).len() as int));
    }
}

// what the header reader's spec functions see at the offset of member k
pub proof fn lemma_read_back(es: Seq<ArchiveEntry>, k: int)
    requires 0 <= k < es.len(), member_ok(es[k]),
    ensures
        hdr_ok(archive_bytes(es), off_of(es, k)),
        member_end(archive_bytes(es), off_of(es, k)) == off_of(es, k + 1),
        off_of(es, k + 1) <= archive_bytes(es).len(),
        payload(archive_bytes(es), off_of(es, k)) == entry_payload(es[k]),
        utf8(hdr_name_bytes(archive_bytes(es), off_of(es, k))) == es[k].name@,
{
    broadcast use axiom_str_bytes_roundtrip;
    lemma_le_roundtrip();
    let n = es.len() as int;
    lemma_member_at(es, n, k);
    let b = archive_bytes(es);
    let m = members_bytes(es, n);
    let p = off_of(es, k);
    let e = es[k];
    let nb = str_bytes(e.name@);
    let l = nb.len() as int;
    let d = entry_payload(e);
    let f = entry_frame(e);
    assert(b == u32_le(n as u32) + m);
    assert(u32_le(n as u32).len() == 4);
    assert(f == u32_le(l as u32) + nb + u64_le(d.len() as u64) + d);
    assert(u32_le(l as u32).len() == 4);
    assert(u64_le(d.len() as u64).len() == 8);
    assert(f.len() == 12 + l + d.len());
    assert(b.subrange(p, p + f.len()) =~= f) by {
        assert(b.subrange(p, p + f.len()) =~= m.subrange(p - 4, p - 4 + f.len()));
    }
    assert(b.subrange(p, p + 4) =~= u32_le(l as u32)) by {
        assert(b.subrange(p, p + 4) =~= b.subrange(p, p + f.len()).subrange(0, 4));
        assert(f.subrange(0, 4) =~= u32_le(l as u32));
    }
    assert(l as u32 == l);
    assert(hdr_name_len(b, p) == l);
    assert(b.subrange(p + 4, p + 4 + l) =~= nb) by {
        assert(b.subrange(p + 4, p + 4 + l) =~= b.subrange(p, p + f.len()).subrange(4, 4 + l));
        assert(f.subrange(4, 4 + l) =~= nb);
    }
    assert(b.subrange(p + 4 + l, p + 12 + l) =~= u64_le(d.len() as u64)) by {
        assert(b.subrange(p + 4 + l, p + 12 + l) =~= b.subrange(p, p + f.len()).subrange(4 + l, 12 + l));
        assert(f.subrange(4 + l, 12 + l) =~= u64_le(d.len() as u64));
    }
    assert(d.len() as u64 == d.len());
    assert(hdr_data_len(b, p) == d.len());
    assert(b.subrange(p + 12 + l, p + 12 + l + d.len()) =~= d) by {
        assert(b.subrange(p + 12 + l, p + 12 + l + d.len()) =~= b.subrange(p, p + f.len()).subrange(12 + l, 12 + l + d.len()));
        assert(f.subrange(12 + l, 12 + l + d.len()) =~= d);
    }
}

pub proof fn lemma_fold_written(es: Seq<ArchiveEntry>, k: int)
    requires all_members_ok(es), 0 <= k <= es.len(),
    ensures archive_fold(archive_bytes(es), off_of(es, k), es.len() - k, payload_sum(es, k)) == Some(payload_sum(es, es.len() as int)),
    decreases es.len() - k
{
    if k < es.len() {
        lemma_read_back(es, k);
        lemma_fold_written(es, k + 1);
    }
}

pub proof fn lemma_member_off_written(es: Seq<ArchiveEntry>, i: int)
    requires all_members_ok(es), 0 <= i <= es.len(),
    ensures member_off(archive_bytes(es), i) == off_of(es, i),
    decreases i
{
    if i > 0 {
        lemma_member_off_written(es, i - 1);
        lemma_read_back(es, i - 1);
    }
}

// THE ROUND TRIP: for entries the reading side accepts, the checksum the writer returns is the checksum verify_backup_archive
// recomputes (archive_checksum of unit archive_checksum), and member i of the written bytes is entry i (name and payload) --
// what extract_backup_archive (unit archive_extract: restored(dir, b, i)) writes under child(dir, member_name(b, i))
pub proof fn lemma_archive_roundtrip(es: Seq<ArchiveEntry>)
    ensures
        all_members_ok(es) ==> archive_bytes(es).len() >= 4 && le32(archive_bytes(es).subrange(0, 4)) == es.len(),
        all_members_ok(es) ==> archive_checksum(archive_bytes(es)) == Some(payload_sum(es, es.len() as int)),
        all_members_ok(es) ==> forall|i: int| 0 <= i < es.len() ==> #[trigger] member_name(archive_bytes(es), i) == es[i].name@,
        all_members_ok(es) ==> forall|i: int| 0 <= i < es.len() ==> #[trigger] payload(archive_bytes(es), member_off(archive_bytes(es), i)) == entry_payload(es[i]),
{
    if all_members_ok(es) {
        lemma_le_roundtrip();
        let b = archive_bytes(es);
        let n = es.len() as int;
        assert(b.subrange(0, 4) =~= u32_le(n as u32));
        assert(n as u32 == n);
        lemma_fold_written(es, 0);
        assert(off_of(es, 0) == 4);
        assert forall|i: int| 0 <= i < es.len() implies #[trigger] member_name(b, i) == es[i].name@ by {
            lemma_member_off_written(es, i);
            lemma_read_back(es, i);
        }
        assert forall|i: int| 0 <= i < es.len() implies #[trigger] payload(b, member_off(b, i)) == entry_payload(es[i]) by {
            lemma_member_off_written(es, i);
            lemma_read_back(es, i);
        }
    }
}
