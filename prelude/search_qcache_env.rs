// QueryHashCache stubs of the search path (inside verus!, on top of the opaque `QueryHashCache` of engine_env.rs): invalidation generation,
// cache probe, conditional store.  Hand-written contracts; unit implied_qcache machine-checks (//@assumed) what FOLLOWS from the contracts
// proved on the real query_hash_cache.rs by units qcache_hit / qcache_core (see that unit for the clauses that stay trusted).
/// what the last conditional store was called with
pub struct StoreRec { pub scope: u64, pub query: Seq<f32>, pub results: Seq<SearchResult>, pub k: usize, pub generation: u64 }
impl QueryHashCache {
    pub uninterp spec fn gen(&self) -> u64;
    pub uninterp spec fn last_store(&self) -> StoreRec;
    #[verifier::external_body] pub fn invalidation_generation(&self) -> (r: u64) ensures r == self.gen() { unimplemented!() }
    #[verifier::external_body] pub fn get_scoped(&mut self, scope: u64, q: &[f32], k: usize) -> (r: Option<Vec<SearchResult>>)
        ensures final(self)@ == old(self)@, final(self).gen() == old(self).gen(), final(self).last_store() == old(self).last_store() { unimplemented!() }
    #[verifier::external_body] pub fn insert_with_k_scoped_if_generation(&mut self, scope: u64, q: Vec<f32>, results: Vec<SearchResult>, requested_k: usize, expected_generation: u64) -> (r: bool)
        ensures final(self).last_store() == (StoreRec { scope, query: q@, results: results@, k: requested_k, generation: expected_generation }),
            expected_generation != old(self).gen() ==> final(self)@ == old(self)@ { unimplemented!() }
}
