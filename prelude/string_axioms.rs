// String axioms (trusted; DESIGN.md 2.3): String is opaque to Verus
//@trusted String axioms: a@ == b@ <=> a == b; String obeys the HashMap key model; exec == on String is view equality; clone of a String is equal
#[verifier::external_body] pub broadcast proof fn axiom_string_ext(a: String, b: String)
    ensures #![trigger a@, b@] (a@ == b@) == (a == b) {}
#[verifier::external_body] pub broadcast proof fn axiom_string_key_model() ensures #[trigger] obeys_key_model::<String>() {}
#[verifier::external_body] pub broadcast proof fn axiom_string_eq_spec(a: String, b: String)
    ensures #![trigger a.eq_spec(&b)] (a.eq_spec(&b) == (a@ == b@)) {}
#[verifier::external_body] pub broadcast proof fn axiom_string_obeys_eq()
    ensures #[trigger] <String as vstd::std_specs::cmp::PartialEqSpec>::obeys_eq_spec() {}
#[verifier::external_body] pub broadcast proof fn axiom_string_cloned(a: String, b: String) ensures #[trigger] cloned(a, b) ==> a == b {}
