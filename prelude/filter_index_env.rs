// Environment of the C11 index-side units (inside verus!, after filter_env.rs): RoaringTreemap stub, the real
// MetadataInvertedIndex struct, and contracts of its posting-list accessors in terms of a ghost `meta(d)`.
//@trusted RoaringTreemap is a set of u64: new = empty, clone = same set, |= union, &= intersection, -= difference (roaring crate, not verified)
//@trusted index accessors bitmap_for_exact / bitmap_for_key_presence / bitmap_for_range_lex / bitmap_for_range_numeric return, restricted to alive ids, exactly the ids whose indexed metadata `meta(d)` satisfies the predicate (exact value / key present / String order / f64 order on parseable values); unverified: HashMap/BTreeMap::range/OrderedF64 plumbing
//@residue that insert_doc / remove_doc / replace_doc / rebuild_from / remove_doc_from_all_indexes maintain the accessor contracts and numeric_docs_wf() w.r.t. meta(d) = metadata last indexed for d (entry().or_default() chains over nested HashMap/BTreeMap: outside reach); BTreeMap::range; roaring; OrderedF64 monotonicity is unit ordered_f64
use std::collections::BTreeMap;

#[verifier::external_body]
pub struct RoaringTreemap { _p: core::marker::PhantomData<()> }
impl RoaringTreemap {
    pub uninterp spec fn view(&self) -> Set<u64>;
    #[verifier::external_body]
    pub fn new() -> (r: Self) ensures r@ == Set::<u64>::empty() { unimplemented!() }
}
impl Clone for RoaringTreemap {
    #[verifier::external_body]
    fn clone(&self) -> (r: Self) ensures r@ == self@ { unimplemented!() }
}
impl core::ops::BitOrAssign<RoaringTreemap> for RoaringTreemap {
    #[verifier::external_body]
    fn bitor_assign(&mut self, rhs: RoaringTreemap) ensures final(self)@ == old(self)@.union(rhs@) { unimplemented!() }
}
impl vstd::std_specs::ops::BitOrAssignSpecImpl<RoaringTreemap> for RoaringTreemap {
    open spec fn obeys_bitor_assign_spec() -> bool { false }
    open spec fn bitor_assign_req(&self, rhs: RoaringTreemap) -> bool { true }
    open spec fn bitor_assign_spec(&self, rhs: RoaringTreemap) -> &Self { self }
}
impl core::ops::BitAndAssign<RoaringTreemap> for RoaringTreemap {
    #[verifier::external_body]
    fn bitand_assign(&mut self, rhs: RoaringTreemap) ensures final(self)@ == old(self)@.intersect(rhs@) { unimplemented!() }
}
impl vstd::std_specs::ops::BitAndAssignSpecImpl<RoaringTreemap> for RoaringTreemap {
    open spec fn obeys_bitand_assign_spec() -> bool { false }
    open spec fn bitand_assign_req(&self, rhs: RoaringTreemap) -> bool { true }
    open spec fn bitand_assign_spec(&self, rhs: RoaringTreemap) -> &Self { self }
}
impl<'a> core::ops::SubAssign<&'a RoaringTreemap> for RoaringTreemap {
    #[verifier::external_body]
    fn sub_assign(&mut self, rhs: &'a RoaringTreemap) ensures final(self)@ == old(self)@.difference(rhs@) { unimplemented!() }
}
impl<'a> vstd::std_specs::ops::SubAssignSpecImpl<&'a RoaringTreemap> for RoaringTreemap {
    open spec fn obeys_sub_assign_spec() -> bool { false }
    open spec fn sub_assign_req(&self, rhs: &'a RoaringTreemap) -> bool { true }
    open spec fn sub_assign_spec(&self, rhs: &'a RoaringTreemap) -> &Self { self }
}

//@item engine/src/hnsw_backend.rs struct OrderedF64
//@ derive Clone, Copy
//@end
//@item engine/src/hnsw_backend.rs struct MetadataInvertedIndex
//@end

impl MetadataInvertedIndex {
    /// ghost content of the index: the metadata under which internal id `d` was last indexed
    pub uninterp spec fn meta(&self, d: u64) -> Meta;

    /// invariant of `numeric_docs_by_key` w.r.t. `meta`: for an alive id, membership in the per-key bitmap <=> the
    /// value stored under that key parses as f64 (no bitmap for the key: no alive id has a parseable value there)
    pub open spec fn numeric_docs_wf(&self) -> bool {
        forall|k: String, d: u64| #![trigger self.meta(d).contains_key(k@)]
            self.alive@.contains(d) ==>
                ((self.numeric_docs_by_key@.contains_key(k) && self.numeric_docs_by_key@[k]@.contains(d))
                    <==> (self.meta(d).contains_key(k@) && spec_parse_f64(self.meta(d)[k@]).is_some()))
    }

    #[verifier::external_body]
    fn bitmap_for_exact(&self, key: &str, value: &str) -> (r: RoaringTreemap)
        ensures forall|d: u64| self.alive@.contains(d) ==> (r@.contains(d) <==> (self.meta(d).contains_key(key@) && self.meta(d)[key@] == value@))
    { unimplemented!() }
    #[verifier::external_body]
    fn bitmap_for_key_presence(&self, key: &str) -> (r: RoaringTreemap)
        ensures forall|d: u64| self.alive@.contains(d) ==> (r@.contains(d) <==> self.meta(d).contains_key(key@))
    { unimplemented!() }
    #[verifier::external_body]
    fn bitmap_for_range_lex(&self, key: &str, bound: &crate::proto::range_match::Bound) -> (r: RoaringTreemap)
        ensures forall|d: u64| self.alive@.contains(d) ==> (r@.contains(d) <==>
            (self.meta(d).contains_key(key@) && lex_cmp(*bound, self.meta(d)[key@], bound_str(*bound))))
    { unimplemented!() }
    #[verifier::external_body]
    fn bitmap_for_range_numeric(&self, key: &str, bound: &crate::proto::range_match::Bound, bound_num: f64) -> (r: RoaringTreemap)
        ensures forall|d: u64| self.alive@.contains(d) ==> (r@.contains(d) <==>
            (self.meta(d).contains_key(key@) && spec_parse_f64(self.meta(d)[key@]).is_some()
                && num_cmp(*bound, spec_parse_f64(self.meta(d)[key@]).unwrap(), bound_num)))
    { unimplemented!() }
}

/// S, restricted to alive ids, is exactly the set of ids whose indexed metadata satisfies the reference semantics
pub open spec fn sound(S: Set<u64>, f: &MetadataFilter, index: &MetadataInvertedIndex) -> bool {
    forall|d: u64| #![trigger S.contains(d)] index.alive@.contains(d) ==> (S.contains(d) <==> matches_spec(f, index.meta(d)))
}

/// the filter tree contains a NOT without operand (the only shape the compiler refuses)
pub open spec fn has_bare_not(f: &MetadataFilter) -> bool
    decreases f
{
    match f.filter_type {
        Some(FT::AndFilter(a)) => exists|k: int| 0 <= k < a.filters@.len() && has_bare_not(&(#[trigger] a.filters@[k])),
        Some(FT::OrFilter(o)) => exists|k: int| 0 <= k < o.filters@.len() && has_bare_not(&(#[trigger] o.filters@[k])),
        Some(FT::NotFilter(n)) => match n.filter { Some(sub) => has_bare_not(&*sub), None => true },
        _ => false,
    }
}
