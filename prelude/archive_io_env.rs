// Environment of the units that READ a whole backup archive (archive_checksum, archive_extract).  Included INSIDE the unit's
// verus! block, after prelude/archive_env.rs (crate level).  The two header readers are stubs here whose contracts are generated
// (//@stub) from the clauses proved on their real bodies by unit archive_header.
//@assume the archive file is not modified between File::open and the end of the read (`file_bytes(path)` is a function of the path; reader model: the byte string is constant)
//@trusted File::open(p) Ok + BufReader::new: a reader at position 0 over file_bytes(p)
//@trusted u64::min, usize::try_from(u64) (vstd), <[u8]>::index / index_mut by RangeTo (vstd), Result::unwrap_or
pub assume_specification<T, E>[core::result::Result::<T, E>::unwrap_or](res: core::result::Result<T, E>, d: T) -> (o: T)
    ensures o == (match res { Ok(v) => v, Err(_) => d });
#[verifier::external_body] pub struct FmtMsg { _p: core::marker::PhantomData<()> }
impl FmtMsg { #[verifier::external_body] pub fn mk() -> FmtMsg { unimplemented!() } }
#[verifier::external_body] pub fn vx_min_u64(a: u64, b: u64) -> (r: u64) ensures r == (if a <= b { a } else { b }) { unimplemented!() }
// ---- files
pub type PathBuf = Path;
pub uninterp spec fn file_bytes(p: Seq<char>) -> Seq<u8>;
pub uninterp spec fn file_exists(p: Seq<char>) -> bool;
#[verifier::external_body] pub struct File { _p: core::marker::PhantomData<()> }
impl File {
    pub uninterp spec fn bytes(&self) -> Seq<u8>;
    #[verifier::external_body] pub fn open(p: &Path) -> (r: core::result::Result<File, io::Error>)
        ensures r.is_ok() ==> r.unwrap().bytes() == file_bytes(p@) { unimplemented!() }
}
#[verifier::external_body] pub struct BufReader { _p: core::marker::PhantomData<()> }
impl BufReader {
    pub uninterp spec fn st(&self) -> RdState;
    #[verifier::external_body] pub fn new(f: File) -> (r: BufReader) ensures r.st().bytes == f.bytes(), r.st().pos == 0 { unimplemented!() }
}
impl Read for BufReader {
    open spec fn rd(&self) -> RdState { self.st() }
    #[verifier::external_body] fn read_exact(&mut self, buf: &mut [u8]) -> (r: core::result::Result<(), io::Error>) { unimplemented!() }
}
impl Path {
    #[verifier::external_body] pub fn exists(&self) -> (r: bool) ensures r == file_exists(self@) { unimplemented!() }
}

// ---- callees: contracts GENERATED from the clauses proved in unit archive_header (//@stub: no hand copy)
//@include archive_name_spec.rs
//@stub archive_header read_archive_file_count
//@stub archive_header read_archive_member_header

pub open spec fn member_end(b: Seq<u8>, p: int) -> int { p + 12 + hdr_name_len(b, p) + hdr_data_len(b, p) as int }
pub open spec fn payload(b: Seq<u8>, p: int) -> Seq<u8> { b.subrange(p + 12 + hdr_name_len(b, p), member_end(b, p)) }

//@item engine/src/backup.rs const BACKUP_STREAM_CHUNK_BYTES
//@end
