// (inside verus!, after archive_io_env.rs) What the checksum of a backup archive IS and where its members sit.
// COPY of the definitions that units archive_checksum (wadd / archive_fold / archive_checksum) and archive_extract (member_off /
// member_name) carry in their own templates, so that the units on the WRITING side (backup_archive_write, backup_create) speak
// about the same functions.  The text must stay identical to those two units (they cannot include this file without an edit).
//@assume prelude/archive_checksum_spec.rs repeats, character for character, the spec functions wadd / archive_fold / archive_checksum of units/archive_checksum.vrs and member_off / member_name of units/archive_extract.vrs (hand copy; a maintainer should make the two units include this file)
pub uninterp spec fn crc(b: Seq<u8>) -> u32;
pub open spec fn wadd(a: u32, b: u32) -> u32 { if a + b > u32::MAX { (a + b - 0x1_0000_0000) as u32 } else { (a + b) as u32 } }
// fold over n members starting at offset p; None = malformed / truncated
pub open spec fn archive_fold(b: Seq<u8>, p: int, n: int, acc: u32) -> Option<u32> decreases n {
    if n <= 0 { Some(acc) }
    else if !hdr_ok(b, p) || member_end(b, p) > b.len() { None }
    else { archive_fold(b, member_end(b, p), n - 1, wadd(acc, crc(payload(b, p)))) }
}
pub open spec fn archive_checksum(b: Seq<u8>) -> Option<u32> {
    if b.len() < 4 || le32(b.subrange(0, 4)) > 1_000_000 { None } else { archive_fold(b, 4, le32(b.subrange(0, 4)) as int, 0) }
}
// offset of the i-th member (0-based) of an archive
pub open spec fn member_off(b: Seq<u8>, i: int) -> int decreases i {
    if i <= 0 { 4 } else { member_end(b, member_off(b, i - 1)) }
}
pub open spec fn member_name(b: Seq<u8>, i: int) -> Seq<char> { utf8(hdr_name_bytes(b, member_off(b, i))) }
