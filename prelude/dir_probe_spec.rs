// Vocabulary of the start-up probe `data_dir_has_persisted_documents` (engine/src/bin/kyrodb_server.rs); inside verus!.
// Shared by unit dir_probe (which PROVES the helper's contract over these functions) and unit server_recovery_decision
// (which sees the helper through that contract, `//@stub dir_probe data_dir_has_persisted_documents`).
// One entry of a directory listing as `std::fs::read_dir` hands it out: `ok` = the iterator item was Ok(DirEntry) (Err items are
// dropped by `.flatten()`), `name` = the characters of DirEntry::file_name().to_string_lossy()
// (the name itself for valid UTF-8), `meta_len` = Some(len) when DirEntry::metadata()
// answers Ok(m) with m.len() == len, None when the metadata call fails.
pub struct DirEnt { pub ok: bool, pub name: Seq<char>, pub meta_len: Option<u64> }
// the file system as the probe sees it: does read_dir(dir) answer Ok, and what does it list (uninterpreted: functions of the path)
pub uninterp spec fn read_dir_ok(dir: Seq<char>) -> bool;
pub uninterp spec fn listing(dir: Seq<char>) -> Seq<DirEnt>;

pub open spec fn has_prefix(s: Seq<char>, p: Seq<char>) -> bool { p.is_prefix_of(s) }
pub open spec fn has_suffix(s: Seq<char>, p: Seq<char>) -> bool {
    p.len() <= s.len() && s.subrange(s.len() - p.len(), s.len() as int) == p
}
// file names the persistence layer writes: snapshot_<seq>.snap, wal_<n>.wal (engine/src/persistence.rs)
pub open spec fn is_snapshot_name(n: Seq<char>) -> bool { has_prefix(n, "snapshot_"@) && has_suffix(n, ".snap"@) }
pub open spec fn is_wal_name(n: Seq<char>) -> bool { has_prefix(n, "wal_"@) && has_suffix(n, ".wal"@) }
// length of the magic header every WAL segment starts with: a segment of at most this many bytes holds no frame
pub open spec fn wal_header_len() -> u64 { 4 }
// the entry is evidence of persisted documents: a snapshot file, or a WAL segment that is longer than its header
// (a segment whose length cannot be read counts: unknown is not "empty")
pub open spec fn ent_counts(e: DirEnt) -> bool {
    is_snapshot_name(e.name) || (is_wal_name(e.name) && (e.meta_len is None || e.meta_len->Some_0 > wal_header_len()))
}
pub open spec fn listing_holds_documents(l: Seq<DirEnt>) -> bool {
    exists|i: int| 0 <= i < l.len() && (#[trigger] l[i]).ok && ent_counts(l[i])
}
// what the probe answers for `dir` (an unreadable directory is answered like an empty one, see unit dir_probe's residue)
pub open spec fn dir_holds_documents(dir: Seq<char>) -> bool {
    read_dir_ok(dir) && listing_holds_documents(listing(dir))
}
