// Vocabulary of the WalWriter contracts (inside verus!, after wal_env.rs, the FsyncPolicy item and the WalWriter struct item).  Shared by
// units wal_writer and wal_append_glue (which PROVE the contracts on the real text) and by every unit that sees the writer through the
// generated stubs `//@stub wal_writer WalWriter::sync`, `//@stub wal_append_glue WalWriter::append[_batch]` (implied_storage).
// Pure spec text plus one uninterpreted capability; nothing here is an axiom.
// capability: the circuit breaker of the error handler answered "not open" in this execution (granted only by CircuitBreaker::is_open == false)
pub uninterp spec fn breaker_seen_closed() -> bool;
impl WalWriter {
    // the writer's byte counter is the length of the file
    pub open spec fn wf(&self) -> bool { self.bytes_written as int == self.file@.bytes.len() }
    // policies under which every successful append is durable when it returns
    pub open spec fn sync_every_append(&self) -> bool { self.fsync_policy is Always || self.fsync_policy == FsyncPolicy::Periodic(0) }
}
