// The concrete representation of engine/src/hot_tier.rs `HotTier` (lock-erased) and its abstract view (inside verus!): shared by unit
// `hot_tier_ops` (which proves the method contracts against it) and unit `implied_hot_tier` (which checks that the opaque HotTier stubs of
// engine_env.rs / drain_hot_env.rs follow from those proved contracts).  `HotTier::view` here is the OPEN definition of what the
// environments declare as `uninterp spec fn view`.  Only the vocabulary that the proved CONTRACTS mention lives here.
//@item engine/src/coherence.rs struct VectorIntegrityDigest
//@ derive Debug, Clone, Copy, PartialEq, Eq, Structural
//@end
//@item engine/src/coherence.rs struct VectorCoherenceToken
//@ derive Debug, Clone, Copy, PartialEq, Eq, Structural
//@end
//@item engine/src/config.rs enum DistanceMetric
//@ derive Debug, Clone, Copy, PartialEq, Eq, Structural
//@end
pub uninterp spec fn spec_digest(e: Seq<f32>) -> VectorIntegrityDigest;
#[verifier::external_body]
pub fn digest_embedding(e: &[f32]) -> (r: VectorIntegrityDigest) ensures r == spec_digest(e@) { unimplemented!() }


#[verifier::external_body] pub struct Instant { _p: core::marker::PhantomData<()> }
impl Instant { #[verifier::external_body] pub fn now() -> Instant { unimplemented!() } }
#[verifier::external_body] pub struct Duration { _p: core::marker::PhantomData<()> }

pub type HotTierMirrorDocument = (u64, Vec<f32>, HashMap<String, String>, VectorCoherenceToken);
//@item engine/src/hot_tier.rs struct HotTierStats
//@end
//@item engine/src/hot_tier.rs struct HotDocument
//@end
//@item engine/src/hot_tier.rs struct HotTier
//@ rw lock-erasure /Arc<RwLock<(HashMap<u64, HotDocument>|HotTierStats)>>/ -> "\1" n=2
//@end

pub open spec fn count_some<T>(s: Seq<Option<T>>, n: int) -> int decreases n {
    if n <= 0 { 0 } else { count_some(s, n - 1) + (if s[n - 1].is_some() { 1int } else { 0int }) }
}

pub type Meta = Map<String, String>;
pub type HotView = Map<u64, (Seq<f32>, Meta, VectorCoherenceToken)>;
pub open spec fn entry_of(d: HotDocument) -> (Seq<f32>, Meta, VectorCoherenceToken) { (d.embedding@, d.metadata@, d.coherence) }
// abstract view of the documents map (same shape as the HotTier stub of prelude/engine_env.rs)
pub open spec fn hv(m: Map<u64, HotDocument>) -> HotView { Map::new(m.dom(), |d: u64| entry_of(m[d])) }
pub open spec fn mirror_entry(t: HotTierMirrorDocument) -> (Seq<f32>, Meta, VectorCoherenceToken) { (t.1@, t.2@, t.3) }
// view after re-inserting the first n documents of the list, in order (a later element overwrites an earlier one AND an existing entry)
pub open spec fn reinsert_view(v: HotView, docs: Seq<HotTierMirrorDocument>, n: int) -> HotView decreases n {
    if n <= 0 { v } else { reinsert_view(v, docs, n - 1).insert(docs[n - 1].0, mirror_entry(docs[n - 1])) }
}
pub open spec fn merge_meta(old_m: Meta, new_m: Meta, merge: bool) -> Meta { if merge { old_m.union_prefer_right(new_m) } else { new_m } }
// the drained list r lists the old view: pairs are entries of v, ids are distinct, every id of v occurs
pub open spec fn drained_exactly(r: Seq<HotTierMirrorDocument>, v: HotView) -> bool {
    &&& forall|i: int| 0 <= i < r.len() ==> v.contains_key((#[trigger] r[i]).0) && v[r[i].0] == mirror_entry(r[i])
    &&& forall|i: int, j: int| 0 <= i < j < r.len() ==> (#[trigger] r[i]).0 != (#[trigger] r[j]).0
    &&& forall|k: u64| v.contains_key(k) ==> exists|i: int| 0 <= i < r.len() && (#[trigger] r[i]).0 == k
}

impl HotTier {
    pub open spec fn view(&self) -> HotView { hv(self.documents@) }
    // the size gauge of the statistics equals the number of entries
    pub open spec fn gauge_ok(&self) -> bool { self.stats.current_size == self.documents@.len() }
}
