// SHAPE of crate::coherence::digest_embedding (inside verus!; needs struct VectorIntegrityDigest { hi, lo } in scope).
// The digest is written as a function of (words(l), l.len()): words(l)[j] packs the bit patterns of the lanes 2j and 2j+1 (the last word of
// an odd-length vector holds lane 2j alone), and the fold consumes word 2i as k1 and word 2i+1 as k2 of block i, the words left over by the
// 4-lane blocks in the tail step, then the byte length, then the finalisation.  u64 xor / or / shift / wrapping add / wrapping mul are the
// native Verus operations; the mixers (nested fns of digest_embedding), u64::rotate_left and f32::to_bits are UNINTERPRETED.
// No claim about collisions of the hash is made anywhere in this file.
use vstd::wrapping::u64_specs::{wrapping_add, wrapping_mul};

// f32::to_bits (same name and reading as in unit qcache_hit)
pub uninterp spec fn spec_f32_bits(a: f32) -> u32;
// u64::rotate_left, and the three nested helper fns of digest_embedding
pub uninterp spec fn spec_rotl(x: u64, n: u32) -> u64;
pub uninterp spec fn spec_mix_k1(k: u64) -> u64;
pub uninterp spec fn spec_mix_k2(k: u64) -> u64;
pub uninterp spec fn spec_fmix64(k: u64) -> u64;

// the bit pattern of lane i, widened
pub open spec fn lane(l: Seq<f32>, i: int) -> u64 { spec_f32_bits(l[i]) as u64 }
pub open spec fn pack(lo: u64, hi: u64) -> u64 { lo | (hi << 32) }
// word j holds the lanes 2j (low half) and 2j+1 (high half); a trailing single lane is a word of its own
pub open spec fn word(l: Seq<f32>, j: int) -> u64 {
    if 2 * j + 1 < l.len() { pack(lane(l, 2 * j), lane(l, 2 * j + 1)) } else { lane(l, 2 * j) }
}
pub open spec fn words(l: Seq<f32>) -> Seq<u64> { Seq::new(((l.len() + 1) / 2) as nat, |j: int| word(l, j)) }

// one 4-lane block: k1 goes into h1 first, the NEW h1 is then added into h2 together with k2
// the six literal constants of the block step (rotation amounts, multipliers, addends) are ABSTRACT: C04 needs that every lane is folded,
// not these particular numbers; a declared abstract-expr rewrite maps whatever literal the code uses at each place to its constant
pub uninterp spec fn c_rot1() -> u32;
pub uninterp spec fn c_rot2() -> u32;
pub uninterp spec fn c_mul1() -> u64;
pub uninterp spec fn c_mul2() -> u64;
pub uninterp spec fn c_add1() -> u64;
pub uninterp spec fn c_add2() -> u64;
pub open spec fn step_h1(h1: u64, h2: u64, k1: u64) -> u64 {
    wrapping_add(wrapping_mul(wrapping_add(spec_rotl(h1 ^ spec_mix_k1(k1), c_rot1()), h2), c_mul1()), c_add1())
}
pub open spec fn step_h2(h1n: u64, h2: u64, k2: u64) -> u64 {
    wrapping_add(wrapping_mul(wrapping_add(spec_rotl(h2 ^ spec_mix_k2(k2), c_rot2()), h1n), c_mul2()), c_add2())
}
// state after the first n blocks: block i consumes the words 2i (k1) and 2i+1 (k2)
pub open spec fn block_fold(w: Seq<u64>, n: int) -> (u64, u64) decreases n {
    if n <= 0 { (0u64, 0u64) } else {
        let h = block_fold(w, n - 1);
        let h1n = step_h1(h.0, h.1, w[2 * (n - 1)]);
        (h1n, step_h2(h1n, h.1, w[2 * (n - 1) + 1]))
    }
}
// the words left over by nb blocks (none, one, or two): the first into h1, the second into h2
pub open spec fn tail_fold(w: Seq<u64>, nb: int, h: (u64, u64)) -> (u64, u64) {
    if w.len() <= 2 * nb { h }
    else if w.len() == 2 * nb + 1 { (h.0 ^ spec_mix_k1(w[2 * nb]), h.1) }
    else { (h.0 ^ spec_mix_k1(w[2 * nb]), h.1 ^ spec_mix_k2(w[2 * nb + 1])) }
}
// length mix (bytes) and finalisation; h1 is the `hi` half of the digest
pub open spec fn finish(h: (u64, u64), len: nat) -> VectorIntegrityDigest {
    let lb = wrapping_mul(len as u64, vstd::layout::size_of::<f32>() as u64);
    let a1 = h.0 ^ lb;
    let a2 = h.1 ^ lb;
    let b1 = wrapping_add(a1, a2);
    let b2 = wrapping_add(a2, b1);
    let c1 = spec_fmix64(b1);
    let c2 = spec_fmix64(b2);
    let d1 = wrapping_add(c1, c2);
    let d2 = wrapping_add(c2, d1);
    VectorIntegrityDigest { hi: d1, lo: d2 }
}
pub open spec fn digest_of_words(w: Seq<u64>, len: nat) -> VectorIntegrityDigest {
    finish(tail_fold(w, (len / 4) as int, block_fold(w, (len / 4) as int)), len)
}
pub open spec fn spec_digest(l: Seq<f32>) -> VectorIntegrityDigest { digest_of_words(words(l), l.len()) }

// ---------------------------------------------------------------- no lane is ignored
// the packing is injective in each half (32-bit halves)
pub proof fn lemma_pack_injective(a: u32, b: u32, c: u32, d: u32)
    requires pack(a as u64, b as u64) == pack(c as u64, d as u64),
    ensures a == c, b == d,
{
    assert(a == c && b == d) by (bit_vector)
        requires (a as u64) | ((b as u64) << 32) == (c as u64) | ((d as u64) << 32);
}
// two vectors carry the same bit pattern in every lane (words of two vectors of ONE length have the same form at the same index, so no
// comparison of a packed word with a widened single lane is ever needed)
pub open spec fn same_bits(l1: Seq<f32>, l2: Seq<f32>) -> bool {
    l1.len() == l2.len() && forall|i: int| 0 <= i < l1.len() ==> spec_f32_bits(#[trigger] l1[i]) == spec_f32_bits(l2[i])
}
// lane p sits in word p / 2 (and in no other)
pub open spec fn word_of_lane(p: int) -> int { p / 2 }

// word j determines the bit patterns of the lanes it holds
pub proof fn lemma_word_determines_lanes(l1: Seq<f32>, l2: Seq<f32>, j: int)
    requires l1.len() == l2.len(), 0 <= j, 2 * j < l1.len(), word(l1, j) == word(l2, j),
    ensures
        spec_f32_bits(l1[2 * j]) == spec_f32_bits(l2[2 * j]),
        2 * j + 1 < l1.len() ==> spec_f32_bits(l1[2 * j + 1]) == spec_f32_bits(l2[2 * j + 1]),
{
    if 2 * j + 1 < l1.len() {
        lemma_pack_injective(spec_f32_bits(l1[2 * j]), spec_f32_bits(l1[2 * j + 1]), spec_f32_bits(l2[2 * j]), spec_f32_bits(l2[2 * j + 1]));
    } else {
        let a = spec_f32_bits(l1[2 * j]);
        let c = spec_f32_bits(l2[2 * j]);
        assert(a == c) by (bit_vector) requires a as u64 == c as u64;
    }
}
// words is injective on vectors of one length (up to the bit patterns of the lanes): the word sequence the fold consumes determines EVERY lane
pub proof fn lemma_words_injective(l1: Seq<f32>, l2: Seq<f32>)
    requires l1.len() == l2.len(), words(l1) == words(l2),
    ensures same_bits(l1, l2),
{
    assert forall|i: int| 0 <= i < l1.len() implies spec_f32_bits(#[trigger] l1[i]) == spec_f32_bits(l2[i]) by {
        let j = i / 2;
        assert(words(l1)[j] == word(l1, j));
        assert(words(l2)[j] == word(l2, j));
        lemma_word_determines_lanes(l1, l2, j);
    }
}
// single-lane sensitivity: two vectors of one length whose bit patterns differ in lane p (whatever the other lanes do at other words) feed a
// DIFFERENT word into the fold at index p / 2; if p is the only differing lane, that is the only differing word
pub proof fn lemma_lane_changes_its_word(l1: Seq<f32>, l2: Seq<f32>, p: int)
    requires l1.len() == l2.len(), 0 <= p < l1.len(), spec_f32_bits(l1[p]) != spec_f32_bits(l2[p]),
    ensures
        0 <= word_of_lane(p) < words(l1).len(),
        words(l1).len() == words(l2).len(),
        words(l1)[word_of_lane(p)] != words(l2)[word_of_lane(p)],
{
    let j = p / 2;
    assert(words(l1)[j] == word(l1, j));
    assert(words(l2)[j] == word(l2, j));
    if word(l1, j) == word(l2, j) {
        lemma_word_determines_lanes(l1, l2, j);
    }
}
pub proof fn lemma_single_lane_single_word(l1: Seq<f32>, l2: Seq<f32>, p: int)
    requires
        l1.len() == l2.len(), 0 <= p < l1.len(),
        forall|i: int| 0 <= i < l1.len() && i != p ==> #[trigger] l1[i] == l2[i],
    ensures
        forall|j: int| 0 <= j < words(l1).len() && j != word_of_lane(p) ==> #[trigger] words(l1)[j] == words(l2)[j],
{
    assert forall|j: int| 0 <= j < words(l1).len() && j != word_of_lane(p) implies #[trigger] words(l1)[j] == words(l2)[j] by {
        assert(words(l1)[j] == word(l1, j));
        assert(words(l2)[j] == word(l2, j));
        assert(l1[2 * j] == l2[2 * j]);
        if 2 * j + 1 < l1.len() { assert(l1[2 * j + 1] == l2[2 * j + 1]); }
    }
}
// capstone (what C04 needs of the shape): a copy that differs from the canonical vector in exactly ONE lane p (same length) presents the fold
// with a word sequence that differs in exactly ONE word, the one at index p / 2: no lane position is ignored.  (Whether the fold then
// yields a different 128-bit digest is a property of the opaque mixers and is NOT claimed.)
pub proof fn lemma_single_lane_sensitivity(l1: Seq<f32>, l2: Seq<f32>, p: int)
    requires
        l1.len() == l2.len(), 0 <= p < l1.len(),
        spec_f32_bits(l1[p]) != spec_f32_bits(l2[p]),
        forall|i: int| 0 <= i < l1.len() && i != p ==> #[trigger] l1[i] == l2[i],
    ensures
        words(l1).len() == words(l2).len(),
        0 <= word_of_lane(p) < words(l1).len(),
        words(l1)[word_of_lane(p)] != words(l2)[word_of_lane(p)],
        forall|j: int| 0 <= j < words(l1).len() && j != word_of_lane(p) ==> #[trigger] words(l1)[j] == words(l2)[j],
{
    lemma_lane_changes_its_word(l1, l2, p);
    lemma_single_lane_single_word(l1, l2, p);
}
// under the HYPOTHESIS (never an axiom here) that to_bits is injective for spec equality of f32, equal word sequences mean equal vectors
pub open spec fn bits_injective() -> bool { forall|a: f32, b: f32| spec_f32_bits(a) == spec_f32_bits(b) ==> a == b }
pub proof fn lemma_bits_inj(a: f32, b: f32)
    requires bits_injective(), spec_f32_bits(a) == spec_f32_bits(b),
    ensures a == b,
{}
pub proof fn lemma_words_injective_f32(l1: Seq<f32>, l2: Seq<f32>)
    requires bits_injective(), l1.len() == l2.len(), words(l1) == words(l2),
    ensures l1 == l2,
{
    lemma_words_injective(l1, l2);
    assert forall|i: int| 0 <= i < l1.len() implies l1[i] == l2[i] by {
        lemma_bits_inj(l1[i], l2[i]);
    }
    assert(l1 =~= l2);
}
// every word is consumed: by block j / 2 (as k1 when j is even, as k2 when j is odd) if that block is complete, by the tail step otherwise.
// Stated as: the state after block b depends on the word 2b through step_h1 and on the word 2b+1 through step_h2, and nothing else of w.
pub proof fn lemma_block_consumes_its_words(w: Seq<u64>, b: int)
    requires 0 <= b,
    ensures
        block_fold(w, b + 1).0 == step_h1(block_fold(w, b).0, block_fold(w, b).1, w[2 * b]),
        block_fold(w, b + 1).1 == step_h2(block_fold(w, b + 1).0, block_fold(w, b).1, w[2 * b + 1]),
{}
// the fold over the first n blocks reads only the words below 2n: two word sequences that agree there give the same state
pub proof fn lemma_block_fold_frame(w1: Seq<u64>, w2: Seq<u64>, n: int)
    requires forall|j: int| 0 <= j < 2 * n ==> w1[j] == w2[j],
    ensures block_fold(w1, n) == block_fold(w2, n),
    decreases n
{
    if n > 0 {
        lemma_block_fold_frame(w1, w2, n - 1);
        assert(w1[2 * (n - 1)] == w2[2 * (n - 1)]);
        assert(w1[2 * (n - 1) + 1] == w2[2 * (n - 1) + 1]);
    }
}
// spec_digest depends on the lanes only through their bit patterns (the converse direction of "no lane is ignored": nothing else is read)
pub proof fn lemma_digest_of_bits(l1: Seq<f32>, l2: Seq<f32>)
    requires same_bits(l1, l2),
    ensures spec_digest(l1) == spec_digest(l2),
{
    assert(words(l1) =~= words(l2)) by {
        assert forall|j: int| 0 <= j < words(l1).len() implies words(l1)[j] == words(l2)[j] by {
            assert(words(l1)[j] == word(l1, j));
            assert(words(l2)[j] == word(l2, j));
            assert(spec_f32_bits(l1[2 * j]) == spec_f32_bits(l2[2 * j]));
            if 2 * j + 1 < l1.len() { assert(spec_f32_bits(l1[2 * j + 1]) == spec_f32_bits(l2[2 * j + 1])); }
        }
    }
}
