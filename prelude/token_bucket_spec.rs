// Shared vocabulary of the token-bucket units (goes inside verus!).  The text below is lines 12-118 of units/token_bucket_shape.vrs,
// verbatim (f64 as an opaque carrier with uninterpreted operations, the clock, struct TokenBucket with F64 fields, the step
// functions refilled / with_tokens / consumed), so that the clauses of `//@stub token_bucket_shape TokenBucket::..` mean in the
// including unit what they mean in the proving unit.
use core::cmp::Ordering;

// ---- f64 as an opaque carrier with uninterpreted operations
pub uninterp spec fn fadd(a: f64, b: f64) -> f64;
pub uninterp spec fn fsub(a: f64, b: f64) -> f64;
pub uninterp spec fn fmul(a: f64, b: f64) -> f64;
pub uninterp spec fn fmin(a: f64, b: f64) -> f64;
pub uninterp spec fn fcmp(a: f64, b: f64) -> Option<Ordering>;
pub uninterp spec fn u32f(x: u32) -> f64;
pub open spec fn fge(a: f64, b: f64) -> bool { fcmp(a, b) == Some(Ordering::Greater) || fcmp(a, b) == Some(Ordering::Equal) }
pub open spec fn fgt(a: f64, b: f64) -> bool { fcmp(a, b) == Some(Ordering::Greater) }

#[derive(Clone, Copy)]
pub struct F64 { pub v: f64 }
impl core::ops::Add<F64> for F64 {
    type Output = F64;
    #[verifier::external_body] fn add(self, rhs: F64) -> (r: F64) ensures r.v == fadd(self.v, rhs.v) { unimplemented!() }
}
impl vstd::std_specs::ops::AddSpecImpl<F64> for F64 {
    open spec fn obeys_add_spec() -> bool { false }
    open spec fn add_req(self, rhs: F64) -> bool { true }
    open spec fn add_spec(self, rhs: F64) -> F64 { self }
}
impl core::ops::Add<f64> for F64 {
    type Output = F64;
    #[verifier::external_body] fn add(self, rhs: f64) -> (r: F64) ensures r.v == fadd(self.v, rhs) { unimplemented!() }
}
impl vstd::std_specs::ops::AddSpecImpl<f64> for F64 {
    open spec fn obeys_add_spec() -> bool { false }
    open spec fn add_req(self, rhs: f64) -> bool { true }
    open spec fn add_spec(self, rhs: f64) -> F64 { self }
}
impl core::ops::Mul<F64> for F64 {
    type Output = F64;
    #[verifier::external_body] fn mul(self, rhs: F64) -> (r: F64) ensures r.v == fmul(self.v, rhs.v) { unimplemented!() }
}
impl vstd::std_specs::ops::MulSpecImpl<F64> for F64 {
    open spec fn obeys_mul_spec() -> bool { false }
    open spec fn mul_req(self, rhs: F64) -> bool { true }
    open spec fn mul_spec(self, rhs: F64) -> F64 { self }
}
impl core::ops::Sub<f64> for F64 {
    type Output = F64;
    #[verifier::external_body] fn sub(self, rhs: f64) -> (r: F64) ensures r.v == fsub(self.v, rhs) { unimplemented!() }
}
impl vstd::std_specs::ops::SubSpecImpl<f64> for F64 {
    open spec fn obeys_sub_spec() -> bool { false }
    open spec fn sub_req(self, rhs: f64) -> bool { true }
    open spec fn sub_spec(self, rhs: f64) -> F64 { self }
}
impl core::ops::SubAssign<f64> for F64 {
    #[verifier::external_body] fn sub_assign(&mut self, rhs: f64) ensures final(self).v == fsub(old(self).v, rhs) { unimplemented!() }
}
impl vstd::std_specs::ops::SubAssignSpecImpl<f64> for F64 {
    open spec fn obeys_sub_assign_spec() -> bool { false }
    open spec fn sub_assign_req(&self, rhs: f64) -> bool { true }
    open spec fn sub_assign_spec(&self, rhs: f64) -> &Self { self }
}
impl PartialEq<f64> for F64 {
    #[verifier::external_body] fn eq(&self, o: &f64) -> (r: bool) ensures r == (fcmp(self.v, *o) == Some(Ordering::Equal)) { unimplemented!() }
}
impl PartialOrd<f64> for F64 {
    #[verifier::external_body] fn partial_cmp(&self, o: &f64) -> (r: Option<Ordering>) ensures r == fcmp(self.v, *o) { unimplemented!() }
}
impl F64 {
    #[verifier::external_body] pub fn min(self, other: F64) -> (r: F64) ensures r.v == fmin(self.v, other.v) { unimplemented!() }
}
#[verifier::external_body] pub fn vx_u32_f64(x: u32) -> (r: F64) ensures r.v == u32f(x) { unimplemented!() }

// ---- the clock
#[derive(Clone, Copy)]
pub struct Instant { pub tick: u64 }
pub struct Duration { pub d: u64 }
// capability: `now` was handed out by Instant::now() in this execution
pub uninterp spec fn clock_read(now: Instant) -> bool;
pub uninterp spec fn secs_between(now: Instant, earlier: Instant) -> f64;
impl Instant {
    #[verifier::external_body] pub fn now() -> (r: Instant) ensures clock_read(r) { unimplemented!() }
    #[verifier::external_body] pub fn duration_since(&self, earlier: Instant) -> (r: Duration) ensures r.secs() == secs_between(*self, earlier) { unimplemented!() }
}
impl Duration {
    pub uninterp spec fn secs(&self) -> f64;
    #[verifier::external_body] pub fn as_secs_f64(&self) -> (r: F64) ensures r.v == self.secs() { unimplemented!() }
}

//@item engine/src/rate_limiter.rs struct TokenBucket
//@ rw std-rename /(tokens|refill_rate): f64/ -> "\1: F64" n=2
//@end

// ---- the step contract (structural): what one refill at clock reading `now` does
pub open spec fn refill_level(b: TokenBucket, e: f64) -> f64 {
    fmin(fadd(b.tokens.v, fmul(e, b.refill_rate.v)), u32f(b.capacity))
}
pub open spec fn refilled(b: TokenBucket, now: Instant) -> TokenBucket {
    let e = secs_between(now, b.last_refill);
    if fgt(e, 0.0f64) {
        TokenBucket { capacity: b.capacity, tokens: F64 { v: refill_level(b, e) }, refill_rate: b.refill_rate, last_refill: now }
    } else {
        b
    }
}
pub open spec fn with_tokens(b: TokenBucket, t: f64) -> TokenBucket {
    TokenBucket { capacity: b.capacity, tokens: F64 { v: t }, refill_rate: b.refill_rate, last_refill: b.last_refill }
}
pub open spec fn consumed(b1: TokenBucket, admitted: bool) -> TokenBucket {
    if admitted { with_tokens(b1, fsub(b1.tokens.v, 1.0f64)) } else { b1 }
}
