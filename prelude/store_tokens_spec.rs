// Coherence-token view of the DocumentStore (inside verus!, after backend_env.rs).  Pure spec text shared by the write-path
// units (backend_insert) and the compaction unit (compact_tombstones): nothing here is trusted.
impl DocumentStore {
    // coherence-token material of the live documents: external id -> (version, digest of the stored vector)
    pub open spec fn tokens(&self) -> Map<u64, (u64, VectorIntegrityDigest)> {
        Map::new(
            self.external_to_internal@.dom(),
            |d: u64| (self.versions@[self.external_to_internal@[d] as int], self.digests@[self.external_to_internal@[d] as int]),
        )
    }
}
// version given to a (re)inserted document: live predecessor's version + 1 (saturating); 1 for an id that is not live
pub open spec fn bumped(t: Map<u64, (u64, VectorIntegrityDigest)>, d: u64) -> u64 {
    if t.contains_key(d) { if t[d].0 == u64::MAX { u64::MAX } else { (t[d].0 + 1) as u64 } } else { 1 }
}
