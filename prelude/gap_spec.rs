// Shared spec text of the strict "fallback gap" check of recover_with_hnsw_params_and_mode (fix 3af9bc6); inside verus!.
// Used by units recover_replay, recover_segments, recover_strict_gap.  Needs `WalEntry` (item) and, for
// `gap_seen_segments`, `seg_entries` (prelude/segment_env.rs) in scope; pure spec text, nothing trusted.
//@residue gap_seen counts ENTRIES with a sequence number in (S, end], not DISTINCT sequence numbers: a WAL that carries the same sequence number twice inside the gap is counted twice (unique, increasing sequence numbers are the writer-side contract, units backend_* / wal_writer)

// e's sequence number lies in the half-open interval (s, end]
pub open spec fn in_gap(e: WalEntry, s: u64, end: u64) -> bool {
    e.seq_no > s && e.seq_no <= end
}

// how many of the first n entries of es lie in (s, end]
pub open spec fn gap_seen(es: Seq<WalEntry>, n: int, s: u64, end: u64) -> nat
    decreases n
{
    if n <= 0 { 0 } else {
        gap_seen(es, n - 1, s, end) + (if in_gap(es[n - 1], s, end) { 1nat } else { 0nat })
    }
}

// a - k, saturating at 0
pub open spec fn sat_sub(a: u64, k: nat) -> u64 {
    if a >= k { (a - k) as u64 } else { 0u64 }
}
