// (inside verus!, after qcache_env.rs or qcache_core_env.rs) vocabulary of the contracts unit qcache_hit proves (exact-hit path, generation guard):
// shared with unit implied_qcache
pub open spec fn imin(a: int, b: int) -> int { if a <= b { a } else { b } }
pub open spec fn imax(a: int, b: int) -> int { if a >= b { a } else { b } }
// every cached entry has its query vector stored, and the key's hash is the hash of that vector
pub open spec fn emb_wf(s: QueryCacheState) -> bool {
    forall|key: QueryCacheKey| #[trigger] s.cache@.contains_key(key) ==>
        s.query_embeddings@.contains_key(key) && spec_hash(s.query_embeddings@[key]@) == key.query_hash
}

// the entry under `key` was stored for exactly this query vector (f32 spec equality = bit equality, see to_bits below)
pub open spec fn stored_for(s: QueryCacheState, key: QueryCacheKey, q: Seq<f32>) -> bool {
    s.query_embeddings@.contains_key(key) && s.query_embeddings@[key]@ == q
}
