// stand-ins for std::io / std::fs error values (OUTSIDE the main verus! block; include after anyhow.rs)
//@trusted io::Error is an opaque value carrying an ErrorKind; converting it into anyhow::Error with `?` has no effect on program state
pub mod io {
    use vstd::prelude::*;
    verus! {
    #[derive(Debug, PartialEq, Eq, Structural, Clone, Copy)] pub enum ErrorKind { NotFound, UnexpectedEof, Other }
    #[derive(Debug)] pub struct Error { pub k: ErrorKind }
    impl Error { pub fn kind(&self) -> (r: ErrorKind) ensures r == self.k { self.k } }
    impl core::convert::From<Error> for crate::anyhow::Error {
        #[verifier::external_body] fn from(e: Error) -> (r: crate::anyhow::Error) { unimplemented!() }
    }
    impl vstd::std_specs::convert::FromSpecImpl<Error> for crate::anyhow::Error {
        open spec fn obeys_from_spec() -> bool { false }
        open spec fn from_spec(v: Error) -> Self { crate::anyhow::Error { x: true } }
    }
    }
}
