// stand-in for the `anyhow` crate: opaque error value, format arguments dropped
pub mod anyhow {
    use vstd::prelude::*;
    verus! {
    #[derive(Debug)] pub struct Error { pub x: bool }
    pub type Result<T> = core::result::Result<T, Error>;
    #[verifier::external_body]
    pub fn mk_err() -> Error { unimplemented!() }
    pub trait Context<T>: Sized {
        spec fn ok_val(self) -> Option<T>;
        fn context(self, msg: &str) -> (r: core::result::Result<T, Error>)
            ensures r.is_ok() == self.ok_val().is_some(), r.is_ok() ==> r.unwrap() == self.ok_val().unwrap();
    }
    impl<T, E> Context<T> for core::result::Result<T, E> {
        open spec fn ok_val(self) -> Option<T> { match self { Ok(v) => Some(v), Err(_) => None } }
        #[verifier::external_body]
        fn context(self, msg: &str) -> (r: core::result::Result<T, Error>) { unimplemented!() }
    }
    impl<T> Context<T> for Option<T> {
        open spec fn ok_val(self) -> Option<T> { self }
        #[verifier::external_body]
        fn context(self, msg: &str) -> (r: core::result::Result<T, Error>) { unimplemented!() }
    }
    }
    macro_rules! bail { ($($t:tt)*) => { return Err(crate::anyhow::mk_err()) } }
    pub(crate) use bail;
    macro_rules! ensure { ($c:expr, $($t:tt)*) => { if !($c) { return Err(crate::anyhow::mk_err()); } } }
    pub(crate) use ensure;
    macro_rules! anyhow { ($($t:tt)*) => { crate::anyhow::mk_err() } }
    pub(crate) use anyhow;
}
