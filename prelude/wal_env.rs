// Shared environment of the WAL units (wal_writer, wal_reader).  Included at CRATE level, after head.rs / macros.rs /
// anyhow.rs: it defines helper modules and opens its own `verus!` block, so that the file model, the reader model, the
// codec stubs and the spec functions `frame` / `frames_of` / `frames` / `parse` are literally the same text in both units.
//@assume 64-bit target (`global size_of usize == 8`)
//@assume bincode::serialize / bincode::deserialize / crc32fast::hash are functions of their input (uninterpreted `ser`, `de`, `crc`); u32::to_le_bytes / from_le_bytes are the uninterpreted `le4` / `le32`.  Their algebra (le32(le4 x) = x, |le4 x| = 4, de(ser e) = e, 0 < |ser e| <= MAX) is NOT assumed globally: it is the explicit hypothesis `codec_ok()` of the round-trip lemma
//@assume `format!` builds an opaque message and has no side effect; `.context(..)` / `.with_context(..)` / `?` keep Ok-ness and the Ok value
//@trusted File model (power-loss model of DESIGN.md section 3): view = (bytes, durable, faults).  write_all Ok appends the buffer, Err leaves any prefix of it (short write); flush/seek do not change the view; sync_all/sync_data Ok make durable = len(bytes); set_len(n) Ok truncates to n when n <= len and zero-extends to n otherwise, Err changes nothing.  `faults` only counts the Err results handed out (ghost accounting, no assumption)
//@trusted Reader model: BufReader view = (bytes, pos); read_exact(buf) Ok consumes exactly |buf| bytes and copies them; ErrorKind::UnexpectedEof only if fewer than |buf| bytes remain; the byte string never changes
macro_rules! format { ($($t:tt)*) => { crate::FmtMsg::mk() } }
macro_rules! vec { () => { Vec::new() }; ($e:expr; $n:expr) => { crate::vec_from_elem($e, $n) } }
use std::sync::Arc;
use anyhow::bail;

pub mod io {
    use vstd::prelude::*;
    verus! {
    #[derive(Debug, PartialEq, Eq, Structural, Clone, Copy)] pub enum ErrorKind { UnexpectedEof, Other }
    #[derive(Debug)] pub struct Error { pub k: ErrorKind }
    impl Error { pub fn kind(&self) -> (r: ErrorKind) ensures r == self.k { self.k } }
    }
}
pub mod bincode {
    use vstd::prelude::*;
    verus! {
    #[derive(Debug)] pub struct Error;
    #[verifier::external_body]
    pub fn serialize(e: &crate::WalEntry) -> (r: core::result::Result<Vec<u8>, Error>)
        ensures r.is_ok() ==> r.unwrap()@ == crate::ser(*e) { unimplemented!() }
    #[verifier::external_body]
    pub fn deserialize(b: &[u8]) -> (r: core::result::Result<crate::WalEntry, Error>)
        ensures r.is_ok() == crate::de(b@).is_some(), r.is_ok() ==> r.unwrap() == crate::de(b@).unwrap() { unimplemented!() }
    }
}
pub mod crc32fast {
    use vstd::prelude::*;
    verus! { #[verifier::external_body] pub fn hash(b: &[u8]) -> (r: u32) ensures r == crate::crc(b@) { unimplemented!() } }
}

verus! {
global size_of usize == 8;
use anyhow::{Result, Context};
//@include std_specs.rs

// ---- anyhow extensions needed by the WAL code (the shared anyhow.rs has no io conversion / with_context / to_string)
#[verifier::external_body] pub struct FmtMsg { _p: core::marker::PhantomData<()> }
impl FmtMsg { #[verifier::external_body] pub fn mk() -> FmtMsg { unimplemented!() } }
impl core::convert::From<io::Error> for anyhow::Error {
    #[verifier::external_body] fn from(e: io::Error) -> (r: anyhow::Error) { unimplemented!() }
}
impl vstd::std_specs::convert::FromSpecImpl<io::Error> for anyhow::Error {
    open spec fn obeys_from_spec() -> bool { false }
    open spec fn from_spec(v: io::Error) -> Self { anyhow::Error { x: true } }
}
impl anyhow::Error { #[verifier::external_body] pub fn to_string(&self) -> FmtMsg { unimplemented!() } }
pub trait WithContext<T>: Sized {
    spec fn wc_ok_val(self) -> Option<T>;
    fn with_context<C, F: FnOnce() -> C>(self, f: F) -> (r: core::result::Result<T, anyhow::Error>)
        ensures r.is_ok() == self.wc_ok_val().is_some(), r.is_ok() ==> r.unwrap() == self.wc_ok_val().unwrap();
}
impl<T, E> WithContext<T> for core::result::Result<T, E> {
    open spec fn wc_ok_val(self) -> Option<T> { match self { Ok(v) => Some(v), Err(_) => None } }
    #[verifier::external_body]
    fn with_context<C, F: FnOnce() -> C>(self, f: F) -> (r: core::result::Result<T, anyhow::Error>) { unimplemented!() }
}

// ---- the entry type and the constants of the format (real text)
//@item engine/src/persistence.rs enum WalOp
//@ derive Debug, Clone, Copy, PartialEq, Eq, Structural
//@end
//@item engine/src/persistence.rs struct WalEntry
//@end
//@item engine/src/persistence.rs const WAL_MAGIC
//@end
//@item engine/src/persistence.rs const MAX_WAL_ENTRY_BYTES
//@end

// ---- codecs (uninterpreted) and the frame format, written from the format description:
//      file  = magic(4) frame*          frame = len:u32le | payload(len bytes) | crc32(payload):u32le
pub uninterp spec fn ser(e: WalEntry) -> Seq<u8>;
pub uninterp spec fn de(b: Seq<u8>) -> Option<WalEntry>;
pub uninterp spec fn crc(b: Seq<u8>) -> u32;
pub uninterp spec fn le4(x: u32) -> Seq<u8>;
pub uninterp spec fn le32(b: Seq<u8>) -> u32;
pub open spec fn max_entry() -> int { 104857600int }

#[verifier::external_body]
pub fn vx_u32_to_le_bytes(x: u32) -> (r: [u8; 4]) ensures r@ == le4(x), r@.len() == 4 { unimplemented!() }
#[verifier::external_body]
pub fn vx_u32_from_le_bytes(b: [u8; 4]) -> (r: u32) ensures r == le32(b@) { unimplemented!() }
#[verifier::external_body]
pub fn vec_from_elem(e: u8, n: usize) -> (r: Vec<u8>) ensures r@.len() == n { unimplemented!() }

pub open spec fn frame(b: Seq<u8>) -> Seq<u8> { le4(b.len() as u32) + b + le4(crc(b)) }
// image of the first n entries of es, in order
pub open spec fn frames_of(es: Seq<WalEntry>, n: int) -> Seq<u8> decreases n {
    if n <= 0 { Seq::empty() } else { frames_of(es, n - 1) + frame(ser(es[n - 1])) }
}
pub open spec fn frames(es: Seq<WalEntry>) -> Seq<u8> { frames_of(es, es.len() as int) }

// what a reader positioned at `pos` returns: (entries delivered, frames counted as corrupted)
pub open spec fn parse(bytes: Seq<u8>, pos: int) -> (Seq<WalEntry>, nat)
    decreases bytes.len() - pos
{
    if pos < 0 || pos + 4 > bytes.len() { (Seq::empty(), 0nat) } else {
        let size = le32(bytes.subrange(pos, pos + 4)) as int;
        if size == 0 || size > max_entry() { (Seq::empty(), 1nat) }
        else if pos + 4 + size > bytes.len() { (Seq::empty(), 0nat) }
        else if pos + 4 + size + 4 > bytes.len() { (Seq::empty(), 0nat) }
        else {
            let body = bytes.subrange(pos + 4, pos + 4 + size);
            let stored = le32(bytes.subrange(pos + 4 + size, pos + 8 + size));
            let rest = parse(bytes, pos + 8 + size);
            if stored != crc(body) { (rest.0, rest.1 + 1) }
            else { match de(body) { None => (rest.0, rest.1 + 1), Some(e) => (seq![e] + rest.0, rest.1) } }
        }
    }
}

// ---- file model (writer side)
pub struct FileState { pub bytes: Seq<u8>, pub durable: nat, pub faults: nat }
#[verifier::external_body] pub struct File { _p: core::marker::PhantomData<()> }
pub enum SeekFrom { Start(u64) }
impl File {
    pub uninterp spec fn view(&self) -> FileState;
    #[verifier::external_body] pub fn write_all(&mut self, buf: &[u8]) -> (r: core::result::Result<(), io::Error>)
        ensures
            final(self)@.durable == old(self)@.durable,
            r.is_ok() ==> final(self)@.bytes == old(self)@.bytes + buf@ && final(self)@.faults == old(self)@.faults,
            r.is_err() ==> old(self)@.bytes.is_prefix_of(final(self)@.bytes) && final(self)@.bytes.is_prefix_of(old(self)@.bytes + buf@)
                && final(self)@.faults == old(self)@.faults + 1,
    { unimplemented!() }
    #[verifier::external_body] pub fn flush(&mut self) -> (r: core::result::Result<(), io::Error>)
        ensures final(self)@.bytes == old(self)@.bytes, final(self)@.durable == old(self)@.durable,
            final(self)@.faults == old(self)@.faults + (if r.is_err() { 1nat } else { 0nat }),
    { unimplemented!() }
    #[verifier::external_body] pub fn sync_all(&mut self) -> (r: core::result::Result<(), io::Error>)
        ensures final(self)@.bytes == old(self)@.bytes,
            r.is_ok() ==> final(self)@.durable == final(self)@.bytes.len(),
            r.is_err() ==> final(self)@.durable >= old(self)@.durable,
            final(self)@.faults == old(self)@.faults + (if r.is_err() { 1nat } else { 0nat }),
    { unimplemented!() }
    #[verifier::external_body] pub fn sync_data(&mut self) -> (r: core::result::Result<(), io::Error>)
        ensures final(self)@.bytes == old(self)@.bytes,
            r.is_ok() ==> final(self)@.durable == final(self)@.bytes.len(),
            r.is_err() ==> final(self)@.durable >= old(self)@.durable,
            final(self)@.faults == old(self)@.faults + (if r.is_err() { 1nat } else { 0nat }),
    { unimplemented!() }
    #[verifier::external_body] pub fn set_len(&mut self, len: u64) -> (r: core::result::Result<(), io::Error>)
        ensures
            r.is_ok() && len <= old(self)@.bytes.len() ==> final(self)@.bytes == old(self)@.bytes.take(len as int),
            r.is_ok() && len > old(self)@.bytes.len() ==> final(self)@.bytes.len() == len && old(self)@.bytes.is_prefix_of(final(self)@.bytes),
            r.is_ok() ==> final(self)@.durable <= old(self)@.durable && final(self)@.faults == old(self)@.faults,
            r.is_err() ==> final(self)@.bytes == old(self)@.bytes && final(self)@.durable == old(self)@.durable
                && final(self)@.faults == old(self)@.faults + 1,
    { unimplemented!() }
    #[verifier::external_body] pub fn seek(&mut self, p: SeekFrom) -> (r: core::result::Result<u64, io::Error>)
        ensures final(self)@.bytes == old(self)@.bytes, final(self)@.durable == old(self)@.durable,
            final(self)@.faults == old(self)@.faults + (if r.is_err() { 1nat } else { 0nat }),
    { unimplemented!() }
}

// ---- reader model: sequential reader over a ghost byte string
pub struct RdState { pub bytes: Seq<u8>, pub pos: int }
#[verifier::external_body]
#[verifier::reject_recursive_types(T)]
pub struct BufReader<T> { _p: core::marker::PhantomData<T> }
impl<T> BufReader<T> {
    pub uninterp spec fn view(&self) -> RdState;
    #[verifier::external_body]
    pub fn read_exact(&mut self, buf: &mut [u8]) -> (r: core::result::Result<(), io::Error>)
        ensures
            final(self)@.bytes == old(self)@.bytes,
            final(buf)@.len() == old(buf)@.len(),
            r.is_ok() ==> old(self)@.pos + old(buf)@.len() <= old(self)@.bytes.len()
                && final(self)@.pos == old(self)@.pos + old(buf)@.len()
                && final(buf)@ == old(self)@.bytes.subrange(old(self)@.pos, old(self)@.pos + old(buf)@.len()),
            (r.is_err() && r->Err_0.k == io::ErrorKind::UnexpectedEof) ==> old(self)@.pos + old(buf)@.len() > old(self)@.bytes.len(),
    { unimplemented!() }
    // BufRead::fill_buf: a look at the unread bytes without consuming them (empty exactly at end of file).  Present so that a changed reader
    // that peeks still reaches the verifier; the returned slice is modelled as an owned copy (no borrow of the reader is kept)
    #[verifier::external_body]
    pub fn fill_buf(&mut self) -> (r: core::result::Result<Vec<u8>, io::Error>)
        ensures
            final(self)@ == old(self)@,
            r.is_ok() ==> (r.unwrap()@.len() == 0) == (old(self)@.pos >= old(self)@.bytes.len()),
            r.is_ok() ==> r.unwrap()@.len() <= old(self)@.bytes.len() - old(self)@.pos || r.unwrap()@.len() == 0,
    { unimplemented!() }
}
} // verus! (wal_env)
