// (inside verus!) the WAL replay function of DESIGN.md section 4 over the real `WalEntry` / `WalOp` items: shared by the units that prove
// (recover_replay, recover_segments) or use through //@stub (recover_segments, recover_strict_gap) the replay contracts
pub type Doc = (Vec<f32>, HashMap<String, String>);

pub open spec fn skip(e: WalEntry, snap_seq: u64, snap_ts: u64) -> bool {
    (snap_seq > 0 && e.seq_no > 0 && e.seq_no <= snap_seq)
    || (e.seq_no == 0 && snap_ts > 0 && e.timestamp > 0 && e.timestamp <= snap_ts)
}

pub open spec fn apply1(m: Map<u64, Doc>, e: WalEntry) -> Map<u64, Doc> {
    match e.op {
        WalOp::Insert => m.insert(e.doc_id, (e.embedding, e.metadata)),
        WalOp::Delete => m.remove(e.doc_id),
        WalOp::UpdateMetadata => if m.contains_key(e.doc_id) { m.insert(e.doc_id, (m[e.doc_id].0, e.metadata)) } else { m },
    }
}

pub open spec fn replay_spec(m: Map<u64, Doc>, es: Seq<WalEntry>, n: int, snap_seq: u64, snap_ts: u64) -> Map<u64, Doc>
    decreases n
{
    if n <= 0 { m } else {
        let p = replay_spec(m, es, n - 1, snap_seq, snap_ts);
        let e = es[n - 1];
        if skip(e, snap_seq, snap_ts) { p } else { apply1(p, e) }
    }
}
