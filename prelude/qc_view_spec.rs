// (inside verus!) vocabulary of the abstract query-cache view `Map<int, Set<u64>>` (cached entry -> doc ids of its result) used by the
// QueryHashCache stub contracts of engine_env.rs; shared with unit implied_qcache, which defines the view over the real cache state.
// Needs a `struct QueryHashCache` with a spec fn `view` in scope (declared AFTER this file is fine).
pub open spec fn qc_empty() -> Map<int, Set<u64>> { Map::empty() }
/// `a` is a sub-map of `b` (same as Map::submap_of, but with a single trigger so that it chains)
pub open spec fn map_le<K, V>(a: Map<K, V>, b: Map<K, V>) -> bool {
    forall|k: K| #[trigger] a.contains_key(k) ==> b.contains_key(k) && a[k] == b[k]
}
impl QueryHashCache {
    /// some cached entry references doc `d`
    pub open spec fn refs(&self, d: u64) -> bool { exists|k: int| #[trigger] self@.contains_key(k) && self@[k].contains(d) }
}
