// (inside verus!) vocabulary of the member-name clauses of unit archive_header's contracts, shared with the units that see the header
// readers through `//@stub archive_header ...` (archive_io_env.rs)
pub open spec fn no_separator(s: Seq<char>) -> bool { !s.contains('/') && !s.contains('\\') }
