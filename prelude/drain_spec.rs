// Vocabulary of the contract of TieredEngine::reconcile_drained_hot_tier_documents (inside verus!, on top of engine_env.rs): shared by unit
// `drain` (which proves it) and the units that call it through `//@stub drain TieredEngine::reconcile_drained_hot_tier_documents`.
//@include drain_hot_spec.rs
/// element-wise IEEE equality of two f32 vectors (what `Vec<f32> == Vec<f32>` computes); uninterpreted
pub uninterp spec fn f32s_eq(a: Seq<f32>, b: Seq<f32>) -> bool;
/// a mirror entry `h` disagrees with the canonical record `c` (what the drain compares)
pub open spec fn entry_diverged(c: Entry, h: Entry) -> bool { c.2 != h.2 || !f32s_eq(c.0, h.0) || c.1 != h.1 }

impl TieredEngine {
    /// what the drain does with document `x` decides whether the query cache must go: a diverged mirror or a repair
    pub open spec fn doc_needs_clear(c0: ColdView, c1: ColdView, x: HotTierMirrorDocument) -> bool {
        if c0.contains_key(x.0) { entry_diverged(c0[x.0], mirror_of(x)) } else { c1.contains_key(x.0) }
    }
    /// the canonical record `c` is a repair from the drained document `x`: the mirror's metadata and a vector of the mirror's LENGTH
    /// whose digest is the stored token's digest; it IS the mirror's vector, bit for bit, when the mirror vector passed the pre-flight
    /// (the backend stores any other accepted vector normalised; a planted / corrupted mirror entry need not be pre-flighted)
    pub open spec fn repaired_from(c: Entry, x: HotTierMirrorDocument) -> bool {
        c.0.len() == x.1@.len() && c.1 == x.2@ && c.2.digest == spec_digest(c.0) && (preflight_ok(x.1@) ==> c.0 == x.1@)
    }
    /// the drained document `x` has a canonical record with a different vector: an L1a entry of the id must go
    pub open spec fn l1a_stale(c0: ColdView, x: HotTierMirrorDocument) -> bool {
        c0.contains_key(x.0) && !f32s_eq(c0[x.0].0, x.1@)
    }
}
