// Shared environment of the query-result cache units (engine/src/query_hash_cache.rs); inside verus!.
//@assume sequential semantics: the caller owns QueryHashCache::state, ::stats and ::invalidation_generation for the whole call (lock-erasure mode A; AtomicU64 -> plain counter with &mut fetch_add)
//@assume derive(Hash, PartialEq, Eq) on QueryCacheKey {scope: u64, query_hash: u64} is lawful (obeys_key_model)
//@trusted hash_embedding is a function of the exact f32 bit patterns of the query (uninterpreted spec_hash); it is NOT assumed injective
//@trusted [T]::to_vec clones element-wise; derive(Clone) on SearchResult {u64, f32} yields an equal value (axiom_search_result_cloned)
//@trusted LruIndex methods touch the LRU order only (unit lru_index); QueryHashCache::{unique_result_doc_ids, index_entry_doc_ids, unindex_entry_docs, embedding_stats, find_similar_query} are stubs here (units qcache_core / residue)

//@item engine/src/hnsw_index.rs struct SearchResult
//@ derive Debug, Clone, PartialEq
//@end
//@item engine/src/config.rs enum DistanceMetric
//@ derive Debug, Clone, Copy, PartialEq, Eq, Structural
//@end
pub assume_specification<T: Clone>[<[T]>::to_vec](s: &[T]) -> (r: Vec<T>)
    ensures r@.len() == s@.len(), forall|i: int| 0 <= i < s@.len() ==> cloned(#[trigger] s@[i], r@[i]);
#[verifier::external_body] pub broadcast proof fn axiom_search_result_cloned(a: SearchResult, b: SearchResult)
    ensures #[trigger] cloned(a, b) ==> a == b {}

#[verifier::external_body] pub struct Instant { _p: core::marker::PhantomData<()> }
impl Instant { #[verifier::external_body] pub fn now() -> Instant { unimplemented!() } }

// AtomicU64 under sequential semantics: a counter whose fetch_add is visible in the frame (&mut)
pub enum Ordering { SeqCst, Relaxed, Acquire, Release, AcqRel }
#[verifier::external_body] pub struct GenCounter { _p: core::marker::PhantomData<()> }
pub open spec fn wrap_add(a: u64, n: u64) -> u64 { if a + n > u64::MAX { (a + n - u64::MAX - 1) as u64 } else { (a + n) as u64 } }
// capability (DESIGN.md section 3): this generation value was produced by a bump earlier in this call
pub uninterp spec fn bumped(g: u64) -> bool;
impl GenCounter {
    pub uninterp spec fn view(&self) -> u64;
    #[verifier::external_body] pub fn load(&self, o: Ordering) -> (r: u64) ensures r == self@ { unimplemented!() }
    #[verifier::external_body] pub fn fetch_add(&mut self, n: u64, o: Ordering) -> (r: u64)
        ensures r == old(self)@, final(self)@ == wrap_add(old(self)@, n), n == 1 ==> bumped(final(self)@)
    { unimplemented!() }
}

#[verifier::external_body] #[verifier::reject_recursive_types(K)] pub struct LruIndex<K> { _p: core::marker::PhantomData<K> }
impl<K> LruIndex<K> {
    #[verifier::external_body] pub fn len(&self) -> usize { unimplemented!() }
    #[verifier::external_body] pub fn clear(&mut self) { unimplemented!() }
    #[verifier::external_body] pub fn insert_new(&mut self, key: K) { unimplemented!() }
    #[verifier::external_body] pub fn touch(&mut self, key: K) -> bool { unimplemented!() }
    #[verifier::external_body] pub fn remove(&mut self, key: K) -> bool { unimplemented!() }
    #[verifier::external_body] pub fn pop_lru(&mut self) -> Option<K> { unimplemented!() }
}

//@item engine/src/query_hash_cache.rs const INSERT_INVALIDATION_PREFIX_DIMS
//@end
//@item engine/src/query_hash_cache.rs struct CachedQueryResult
//@end
//@item engine/src/query_hash_cache.rs struct QueryCacheKey
//@ derive Clone, Copy, Debug, Hash, PartialEq, Eq, Structural
//@end
#[verifier::external_body] pub broadcast proof fn axiom_qck_key_model() ensures #[trigger] obeys_key_model::<QueryCacheKey>() {}
//@item engine/src/query_hash_cache.rs struct QueryEmbeddingStats
//@ derive Clone, Copy, Debug
//@end
//@item engine/src/query_hash_cache.rs struct QueryCacheStatsInternal
//@end
//@item engine/src/query_hash_cache.rs struct QueryCacheState
//@end
//@item engine/src/query_hash_cache.rs enum CacheInsertDisposition
//@end
//@item engine/src/query_hash_cache.rs struct QueryHashCache
//@ rw lock-erasure /Arc<RwLock<(QueryCacheState|QueryCacheStatsInternal)>>/ -> "\1" n=2
//@ rw component-erasure /AtomicU64/ -> "GenCounter"
//@end

pub uninterp spec fn spec_hash(e: Seq<f32>) -> u64;
pub open spec fn qkey(scope: u64, q: Seq<f32>) -> QueryCacheKey { QueryCacheKey { scope, query_hash: spec_hash(q) } }

// lock acquisition stubs (mode A): the returned borrow IS the protected state
#[verifier::external_body]
pub fn vx_try_write<T>(t: &mut T) -> (r: Option<&mut T>)
    ensures match r { Some(x) => *x == *old(t) && *final(x) == *final(t), None => *final(t) == *old(t) }
{ unimplemented!() }
// write lock taken by an invalidating call: demands that the generation was bumped before
#[verifier::external_body]
pub fn vx_write_after_bump<'a>(s: &'a mut QueryCacheState, g: &GenCounter) -> (r: &'a mut QueryCacheState)
    requires bumped(g@)
    ensures *r == *old(s), *final(r) == *final(s)
{ unimplemented!() }
