// `.with_context(|| ..)` of the anyhow crate (inside verus!; prelude/anyhow.rs only has `.context(..)`).
// The closure that builds the message is never called (format arguments are dropped, as for `context`).
pub trait WithContext<T>: Sized {
    spec fn wc_ok_val(self) -> Option<T>;
    fn with_context<C, F: FnOnce() -> C>(self, f: F) -> (r: core::result::Result<T, anyhow::Error>)
        ensures r.is_ok() == self.wc_ok_val().is_some(), r.is_ok() ==> r.unwrap() == self.wc_ok_val().unwrap();
}
impl<T, E> WithContext<T> for core::result::Result<T, E> {
    open spec fn wc_ok_val(self) -> Option<T> { match self { Ok(v) => Some(v), Err(_) => None } }
    #[verifier::external_body]
    fn with_context<C, F: FnOnce() -> C>(self, f: F) -> (r: core::result::Result<T, anyhow::Error>) { unimplemented!() }
}
