// Slot-layout specifications for tombstone compaction and index rebuilds (inside verus!, after backend_env.rs).
// Pure spec text plus three uninterpreted ghost observers of the two opaque index stubs; nothing here is an axiom.
//@include store_tokens_spec.rs
//@include meta_layout_spec.rs

// number of tombstoned (None) slots
pub open spec fn count_none(s: Seq<Option<u64>>) -> nat
    decreases s.len()
{
    if s.len() == 0 { 0 } else { count_none(s.drop_last()) + (if s.last().is_none() { 1nat } else { 0nat }) }
}
// content of an HNSW index built from the embedding vector: one (vector, internal id) pair per slot, in slot order
pub open spec fn vector_layout(e: Seq<Vec<f32>>) -> Seq<(Seq<f32>, usize)> {
    Seq::new(e.len(), |i: int| (e[i]@, i as usize))
}
// the (vector, internal id) pairs of a batch handed to HnswVectorIndex::parallel_insert_batch
pub open spec fn batch_pairs(data: Seq<(&[f32], usize)>) -> Seq<(Seq<f32>, usize)> {
    Seq::new(data.len(), |i: int| (data[i].0@, data[i].1))
}
impl HnswVectorIndex {
    // ghost content: the (vector, internal id) pairs inserted since construction, in insertion order
    pub uninterp spec fn inserted(&self) -> Seq<(Seq<f32>, usize)>;
    // ghost: construction parameters (dimension, m, ef_construction, normalization check disabled)
    pub uninterp spec fn build_params(&self) -> (usize, usize, usize, bool);
}
impl DocumentStore {
    pub open spec fn no_tombstones(&self) -> bool {
        forall|i: int| 0 <= i < self.internal_to_external@.len() ==> (#[trigger] self.internal_to_external@[i]).is_some()
    }
}
impl HnswBackend {
    // internal ids in the postings of the metadata index refer to the CURRENT slots of the store
    pub open spec fn meta_in_step(&self) -> bool {
        self.metadata_index.indexed() == slot_layout(self.doc_store.metadata@, self.doc_store.internal_to_external@)
    }
    // internal ids of the HNSW graph refer to the CURRENT slots of the store
    pub open spec fn vectors_in_step(&self) -> bool {
        self.index.inserted() == vector_layout(self.doc_store.embeddings@)
    }
}
