// Vocabulary of the snapshot-file contracts (inside verus!): shared by unit snapshot_load (which PROVES Snapshot::load against it)
// and by the units that see Snapshot::load / Snapshot::load_with_validation through `//@stub` (snapshot_fallback, recover_strict_gap).
// Needs in scope: the stub type `Path`, the items `Snapshot`, `SNAPSHOT_MAGIC`, `SNAPSHOT_VERSION`.
// ghost content of a file, keyed by its path (assumption of the including unit: the file is not modified while it is read)
pub uninterp spec fn file_bytes(p: &Path) -> Seq<u8>;
pub uninterp spec fn crc(b: Seq<u8>) -> u32;
pub uninterp spec fn le32(b: Seq<u8>) -> u32;
pub uninterp spec fn le64(b: Seq<u8>) -> u64;
pub uninterp spec fn de_snap(b: Seq<u8>) -> Option<Snapshot>;
pub uninterp spec fn de_version(b: Seq<u8>) -> Option<u32>;

// ---- oracle of `snapshot_alignment` (DESIGN.md C02/C13): ids unique, ids(documents) = ids(metadata), lengths = dimension
pub open spec fn ids_distinct<T>(d: Seq<(u64, T)>, n: int) -> bool {
    forall|a: int, b: int| 0 <= a < b < n ==> (#[trigger] d[a]).0 != (#[trigger] d[b]).0
}
pub open spec fn has_id<T>(d: Seq<(u64, T)>, n: int, v: u64) -> bool {
    exists|k: int| 0 <= k < n && (#[trigger] d[k]).0 == v
}
pub open spec fn aligned(documents: Seq<(u64, Vec<f32>)>, metadata: Seq<(u64, HashMap<String, String>)>) -> bool {
    &&& documents.len() == metadata.len()
    &&& ids_distinct(documents, documents.len() as int)
    &&& ids_distinct(metadata, metadata.len() as int)
    &&& forall|v: u64| has_id(documents, documents.len() as int, v) <==> has_id(metadata, metadata.len() as int, v)
}
pub open spec fn lengths_ok(documents: Seq<(u64, Vec<f32>)>, n: int, dimension: usize) -> bool {
    forall|i: int| 0 <= i < n ==> (#[trigger] documents[i]).1@.len() == dimension
}
impl Snapshot {
    // what `validate_and_normalize` Ok certifies
    pub open spec fn valid(&self) -> bool {
        &&& self.doc_count == self.documents@.len()
        &&& self.dimension != 0 ==> lengths_ok(self.documents@, self.documents@.len() as int, self.dimension)
        &&& aligned(self.documents@, self.metadata@)
    }
    // `self` is `o` with at most doc_count rewritten
    pub open spec fn same_content(&self, o: Snapshot) -> bool {
        &&& self.version == o.version
        &&& self.timestamp == o.timestamp
        &&& self.dimension == o.dimension
        &&& self.documents == o.documents
        &&& self.metadata == o.metadata
        &&& self.distance == o.distance
        &&& self.last_wal_seq == o.last_wal_seq
    }
}
// `s` is what a successful `Snapshot::load(p)` returns: the conjunction of the clauses PROVED by unit snapshot_load
// (envelope magic / size / CRC good, version prefix accepted, s = decoded payload up to a normalised doc_count, s validated)
pub open spec fn load_ok(p: &Path, s: Snapshot) -> bool {
    let b = file_bytes(p);
    let size = le64(b.subrange(4, 12)) as int;
    &&& b.len() >= 16 + le64(b.subrange(4, 12))
    &&& le32(b.subrange(0, 4)) == SNAPSHOT_MAGIC
    &&& crc(b.subrange(12, 12 + size)) == le32(b.subrange(12 + size, 16 + size))
    &&& de_version(b.subrange(12, 12 + size)) == Some(SNAPSHOT_VERSION)
    &&& de_snap(b.subrange(12, 12 + size)).is_some() && s.same_content(de_snap(b.subrange(12, 12 + size)).unwrap())
    &&& s.valid()
}
