// Ghost content of the metadata inverted index and the slot layout it is (re)built from (inside verus!, after a declaration of
// MetadataInvertedIndex: backend_env.rs's opaque stub or a unit's own).  Pure spec text plus one uninterpreted observer.
// content of a metadata inverted index built from the slot vectors (metadata, alive): slot number -> metadata map of that slot,
// for the live slots only (this is the pair `index.alive` / `index.meta(i)` of unit ids_for_filter's index_coherent)
pub open spec fn slot_layout(md: Seq<HashMap<String, String>>, alive: Seq<Option<u64>>) -> IMap<u64, Map<String, String>> {
    IMap::new(
        |i: u64| (i as int) < md.len() && (i as int) < alive.len() && alive[i as int].is_some(),
        |i: u64| md[i as int]@,
    )
}
impl MetadataInvertedIndex {
    // ghost content: internal id (slot) -> the metadata map under which that slot is indexed
    pub uninterp spec fn indexed(&self) -> IMap<u64, Map<String, String>>;
}
