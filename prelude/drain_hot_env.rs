// Extra HotTier stubs of the drain / audit paths (inside verus!, on top of the opaque `HotTier` of engine_env.rs).
// Hand-written contracts; unit `implied_hot_tier` machine-checks (//@assumed) that each one FOLLOWS from the contract unit `hot_tier_ops`
// proves on the real method (under the extra precondition that the statistics counters do not wrap).
//@include drain_hot_spec.rs
//@trusted HotTier::needs_flush: any answer (depends on the clock); no contract
impl HotTier {
    /// stands for `drain_for_flush` (same effect on the view as the stub of engine_env.rs, plus WHAT is returned)
    #[verifier::external_body] pub fn drain_for_flush_exact(&mut self) -> (r: Vec<HotTierMirrorDocument>)
        ensures final(self)@ == HotView::empty(), r@.len() == old(self)@.len(), drained_from(r@, old(self)@) { unimplemented!() }
    #[verifier::external_body] pub fn reinsert_failed_documents(&mut self, documents: Vec<HotTierMirrorDocument>)
        ensures final(self)@ == hot_reinsert(old(self)@, documents@) { unimplemented!() }
    #[verifier::external_body] pub fn needs_flush(&self) -> bool { unimplemented!() }
    #[verifier::external_body] pub fn snapshot_doc_ids(&self) -> (r: Vec<u64>)
        ensures r@.no_duplicates(), forall|d: u64| #![trigger r@.contains(d)] #![trigger self@.contains_key(d)] r@.contains(d) <==> self@.contains_key(d) { unimplemented!() }
    #[verifier::external_body] pub fn peek_with_coherence(&self, d: u64) -> (r: Option<(Vec<f32>, VectorCoherenceToken)>)
        ensures r.is_some() == self@.contains_key(d), r.is_some() ==> r.unwrap().0@ == self@[d].0 && r.unwrap().1 == self@[d].2 { unimplemented!() }
}
