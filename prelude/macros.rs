// logging macros: expand to nothing, arguments are not evaluated (assumption: logging has no side effects)
macro_rules! trace { ($($t:tt)*) => {} }
macro_rules! debug { ($($t:tt)*) => {} }
macro_rules! info { ($($t:tt)*) => {} }
macro_rules! warn { ($($t:tt)*) => {} }
macro_rules! error { ($($t:tt)*) => {} }
macro_rules! vec { () => { Vec::new() } }
