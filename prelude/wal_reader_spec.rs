// Oracles of the strict WAL reader (inside verus!, after wal_env.rs).  Shared by unit wal_reader (which PROVES WalReader::read_all /
// read_all_strict against them on the real text) and by the units that see the reader through the generated stubs
// `//@stub wal_reader WalReader::read_all[_strict]` (implied_storage).  Pure spec text and one proved lemma, nothing here is trusted.
// ---------------------------------------------------------------------------------------------------------------
// C13 oracle, written from the property text: "every complete frame had a matching CRC and decoded; the unread suffix is
// shorter than a frame header or is an incomplete frame"
pub open spec fn strict_clean(bytes: Seq<u8>, pos: int) -> bool
    decreases bytes.len() - pos
{
    if pos < 0 || pos + 4 > bytes.len() { true } else {                       // tail shorter than a frame header
        let size = le32(bytes.subrange(pos, pos + 4)) as int;
        if size == 0 || size > max_entry() { false }                           // damaged length field
        else if pos + 8 + size > bytes.len() { true }                          // incomplete last frame
        else {
            let body = bytes.subrange(pos + 4, pos + 4 + size);
            let stored = le32(bytes.subrange(pos + 4 + size, pos + 8 + size));
            stored == crc(body) && de(body).is_some() && strict_clean(bytes, pos + 8 + size)
        }
    }
}
// number of complete frames (with a plausible length field) from pos on
pub open spec fn complete_frames(bytes: Seq<u8>, pos: int) -> nat
    decreases bytes.len() - pos
{
    if pos < 0 || pos + 4 > bytes.len() { 0 } else {
        let size = le32(bytes.subrange(pos, pos + 4)) as int;
        if size == 0 || size > max_entry() { 0 }
        else if pos + 8 + size > bytes.len() { 0 }
        else { 1 + complete_frames(bytes, pos + 8 + size) }
    }
}
// zero corruption count <=> strict_clean; and then no complete frame was dropped
pub proof fn lemma_strict_clean(bytes: Seq<u8>, pos: int)
    ensures
        (parse(bytes, pos).1 == 0) == strict_clean(bytes, pos),
        parse(bytes, pos).0.len() + parse(bytes, pos).1 >= complete_frames(bytes, pos),
        strict_clean(bytes, pos) ==> parse(bytes, pos).0.len() == complete_frames(bytes, pos),
    decreases bytes.len() - pos
{
    if pos < 0 || pos + 4 > bytes.len() {
    } else {
        let size = le32(bytes.subrange(pos, pos + 4)) as int;
        if size == 0 || size > max_entry() {
        } else if pos + 8 + size > bytes.len() {
        } else {
            lemma_strict_clean(bytes, pos + 8 + size);
        }
    }
}
