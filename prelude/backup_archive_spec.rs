// (inside verus!, after archive_io_env.rs and archive_checksum_spec.rs) Vocabulary of the units on the WRITING side of a backup
// (backup_archive_write proves the writer helpers on their real bodies, backup_create sees them through //@stub).
//@assume source files do not change during ONE call of write_backup_archive (`file_bytes(path)` is a function of the path, as in prelude/archive_io_env.rs); the (size, mtime) fingerprint taken before and re-checked after the copy is the code's own detector for violations of this assumption; that equal fingerprints imply unchanged content is NOT modelled
//@trusted `<&str as Into<String>>::into` yields a String with the same characters (owned_str); the String and PathBuf instances are the identity
//@trusted String::as_bytes is the UTF-8 encoding str_bytes(s) (uninterpreted) with String::from_utf8(s.as_bytes()) == Ok(s): utf8_valid(str_bytes(s)) and utf8(str_bytes(s)) == s (axiom_str_bytes_roundtrip)
//@item engine/src/backup.rs enum ArchiveEntrySource
//@end
//@item engine/src/backup.rs struct ArchiveEntry
//@end
//@item engine/src/backup.rs struct SourceFingerprint
//@ derive Debug, Clone, Copy, PartialEq, Eq, Structural
//@end

// the engine's `impl Into<String>` / `impl Into<PathBuf>` parameters, kept as written: a local trait of the same name with the
// instances the callers use (String, &str -> String; PathBuf -> PathBuf)
pub uninterp spec fn owned_str(s: Seq<char>) -> String;
#[verifier::external_body] pub broadcast proof fn axiom_owned_str(s: Seq<char>) ensures #[trigger] owned_str(s)@ == s {}
pub trait Into<T>: Sized {
    spec fn into_spec(self) -> T;
    fn into(self) -> (r: T) ensures r == self.into_spec();
}
impl Into<String> for String {
    open spec fn into_spec(self) -> String { self }
    fn into(self) -> (r: String) { self }
}
impl<'a> Into<String> for &'a str {
    open spec fn into_spec(self) -> String { owned_str(self@) }
    #[verifier::external_body] fn into(self) -> (r: String) { unimplemented!() }
}
impl Into<Path> for Path {
    open spec fn into_spec(self) -> Path { self }
    fn into(self) -> (r: Path) { self }
}

pub uninterp spec fn str_bytes(s: Seq<char>) -> Seq<u8>;
#[verifier::external_body] pub broadcast proof fn axiom_str_bytes_roundtrip(s: Seq<char>)
    ensures #![trigger str_bytes(s)] utf8_valid(str_bytes(s)) && utf8(str_bytes(s)) == s {}
pub open spec fn u32_le(x: u32) -> Seq<u8> { vstd::bytes::spec_u32_to_le_bytes(x) }
pub open spec fn u64_le(x: u64) -> Seq<u8> { vstd::bytes::spec_u64_to_le_bytes(x) }

// ---- the archive layout as the WRITER produces it (counterpart of hdr_* / member_end / payload of the reading side)
// one member: name_len:u32le | name | data_len:u64le | data      (the casts truncate exactly as the code's `as u32` / `as u64` do)
pub open spec fn frame(name: Seq<char>, data: Seq<u8>) -> Seq<u8> {
    u32_le(str_bytes(name).len() as u32) + str_bytes(name) + u64_le(data.len() as u64) + data
}
// what is copied for an entry: the bytes of the source file, or the in-memory bytes
pub open spec fn entry_payload(e: ArchiveEntry) -> Seq<u8> {
    match e.source { ArchiveEntrySource::Path(p) => file_bytes(p@), ArchiveEntrySource::Bytes(b) => b@ }
}
pub open spec fn entry_frame(e: ArchiveEntry) -> Seq<u8> { frame(e.name@, entry_payload(e)) }
pub open spec fn members_bytes(es: Seq<ArchiveEntry>, n: int) -> Seq<u8> decreases n {
    if n <= 0 { Seq::empty() } else { members_bytes(es, n - 1) + entry_frame(es[n - 1]) }
}
pub open spec fn archive_bytes(es: Seq<ArchiveEntry>) -> Seq<u8> { u32_le(es.len() as u32) + members_bytes(es, es.len() as int) }
// the checksum the writer returns: wrapping sum of the CRC32 of every payload
pub open spec fn payload_sum(es: Seq<ArchiveEntry>, n: int) -> u32 decreases n {
    if n <= 0 { 0 } else { wadd(payload_sum(es, n - 1), crc(entry_payload(es[n - 1]))) }
}
// capability: the file at `path` was created empty, received exactly `content`, was flushed and fsynced (File::sync_all Ok)
pub uninterp spec fn durable_file(path: Seq<char>, content: Seq<u8>) -> bool;
// observation: a stat of `path` during this execution yielded this (size, mtime) fingerprint
pub uninterp spec fn fp_obs(path: Seq<char>, fp: SourceFingerprint) -> bool;

pub open spec fn is_path_entry(e: ArchiveEntry) -> bool { e.source is Path }
pub open spec fn entry_path(e: ArchiveEntry) -> Seq<char> { e.source->Path_0@ }
// every file-backed entry has a recorded fingerprint under its member name
pub open spec fn fps_cover(es: Seq<ArchiveEntry>, m: Map<String, SourceFingerprint>) -> bool {
    forall|i: int| 0 <= i < es.len() && is_path_entry(#[trigger] es[i]) ==> m.contains_key(es[i].name)
}
// every recorded fingerprint was observed on the source file of an entry of that name
pub open spec fn fps_observed(es: Seq<ArchiveEntry>, m: Map<String, SourceFingerprint>) -> bool {
    forall|k: String| #[trigger] m.contains_key(k) ==> exists|i: int| 0 <= i < es.len() && is_path_entry(#[trigger] es[i]) && es[i].name == k && fp_obs(entry_path(es[i]), m[k])
}
// the re-check: for every file-backed entry the fingerprint recorded under its name was observed (again) on its source file
pub open spec fn fps_match(es: Seq<ArchiveEntry>, m: Map<String, SourceFingerprint>) -> bool {
    forall|i: int| 0 <= i < es.len() && is_path_entry(#[trigger] es[i]) ==> m.contains_key(es[i].name) && fp_obs(entry_path(es[i]), m[es[i].name])
}

// a member the READING side accepts (limits of read_archive_member_header): the writer does not check any of this
pub open spec fn member_ok(e: ArchiveEntry) -> bool {
    &&& 0 < str_bytes(e.name@).len() <= 1024
    &&& single_normal(e.name@)
    &&& entry_payload(e).len() <= 0x100_0000_0000
}
