// Disk model for the functions that OPEN a WAL segment (unit wal_open_create): WalWriter::create[_with_error_handler], WalReader::open.
// Inside verus!, after wal_env.rs (File / BufReader / io / le4 / le32 / WAL_MAGIC) and after the including unit's `struct PathBuf`
// (every unit has its own opaque PathBuf; this file only mentions the name).  It EXTENDS the file models of wal_env.rs with the
// operations that produce a handle; the handles themselves (write_all / flush / sync_data / read_exact ..) are the ones of wal_env.rs.
//@trusted Directory model: `disk_at_open(p)` = content of the file at path p at the moment this execution opened it (None: no such file).  It is a function of the PATH: each function under contract opens exactly one file exactly once, and nobody else creates, writes or removes files of the data directory while it runs (sequential semantics, as in units wal_reader / persistence_init)
//@trusted OpenOptions model: the by-value builder records create / create_new / read / append / write / truncate; open() REQUIRES append (the File model of prelude/wal_env.rs is an append-mode descriptor: write_all Ok appends; a descriptor opened with plain write would overwrite from offset 0 and is outside the model).  open() Ok: the handle's content is what the file held (empty for a file that open() created), or EMPTY when truncate was set (std refuses append+truncate with EINVAL; the model over-approximates: Ok is allowed, so a `.truncate(true)` added by mistake reaches the verifier as lost content); without create / create_new the file existed; with create_new it did not.  Nothing about durability of a pre-existing file is assumed (durable <= length)
//@trusted File::open(p) Ok => the file exists and the handle's byte string is its content; BufReader::new(file) = (the file's bytes, position 0); BufReader::seek(Start(n)) Ok => position n, Err => position unspecified; File::metadata() Ok => len() is the length of the byte string

/// content of the file at this path when this execution opened it (None: the path named no file)
pub uninterp spec fn disk_at_open(p: PathBuf) -> Option<Seq<u8>>;
/// ... read as a byte string: a file that does not exist yet holds nothing
pub open spec fn content_before(p: PathBuf) -> Seq<u8> {
    match disk_at_open(p) { Some(b) => b, None => Seq::empty() }
}
/// the first four bytes decode (little-endian) to WAL_MAGIC
pub open spec fn has_magic(b: Seq<u8>) -> bool { b.len() >= 4 && le32(b.subrange(0, 4)) == WAL_MAGIC }
/// HYPOTHESIS (never assumed globally, like codec_ok() of unit wal_reader): u32::to_le_bytes inverts u32::from_le_bytes on 4-byte strings,
/// i.e. from_le_bytes is injective: two different 4-byte strings never decode to the same number
pub open spec fn le_inverse() -> bool { forall|b: Seq<u8>| b.len() == 4 ==> le4(#[trigger] le32(b)) == b }

pub struct OpenOptions { pub c: bool, pub cn: bool, pub r: bool, pub a: bool, pub w: bool, pub t: bool }
impl OpenOptions {
    pub fn new() -> (o: Self) ensures !o.c, !o.cn, !o.r, !o.a, !o.w, !o.t { OpenOptions { c: false, cn: false, r: false, a: false, w: false, t: false } }
    pub fn create(self, b: bool) -> (o: Self) ensures o == (OpenOptions { c: b, ..self }) { OpenOptions { c: b, ..self } }
    pub fn create_new(self, b: bool) -> (o: Self) ensures o == (OpenOptions { cn: b, ..self }) { OpenOptions { cn: b, ..self } }
    pub fn read(self, b: bool) -> (o: Self) ensures o == (OpenOptions { r: b, ..self }) { OpenOptions { r: b, ..self } }
    pub fn append(self, b: bool) -> (o: Self) ensures o == (OpenOptions { a: b, ..self }) { OpenOptions { a: b, ..self } }
    pub fn write(self, b: bool) -> (o: Self) ensures o == (OpenOptions { w: b, ..self }) { OpenOptions { w: b, ..self } }
    pub fn truncate(self, b: bool) -> (o: Self) ensures o == (OpenOptions { t: b, ..self }) { OpenOptions { t: b, ..self } }
    #[verifier::external_body]
    pub fn open(&self, p: &PathBuf) -> (f: core::result::Result<File, io::Error>)
        requires self.a,
        ensures
            f.is_ok() ==> f.unwrap()@.bytes == (if self.t { Seq::<u8>::empty() } else { content_before(*p) }),
            f.is_ok() ==> f.unwrap()@.durable <= f.unwrap()@.bytes.len(),
            f.is_ok() && !self.c && !self.cn ==> disk_at_open(*p) is Some,
            f.is_ok() && self.cn ==> disk_at_open(*p) is None,
    { unimplemented!() }
}
pub struct Metadata { pub n: u64 }
impl Metadata { pub fn len(&self) -> (r: u64) ensures r == self.n { self.n } }
impl File {
    /// std::fs::File::open: read-only handle on an existing file
    #[verifier::external_body]
    pub fn open(p: &PathBuf) -> (f: core::result::Result<File, io::Error>)
        ensures f.is_ok() ==> disk_at_open(*p) is Some && f.unwrap()@.bytes == content_before(*p),
    { unimplemented!() }
    /// present so that a constructor that looks at the length of an existing segment (a repair of create+append) reaches the verifier
    #[verifier::external_body]
    pub fn metadata(&self) -> (r: core::result::Result<Metadata, io::Error>)
        ensures r.is_ok() ==> r.unwrap().n == self@.bytes.len(),
    { unimplemented!() }
}
impl BufReader<File> {
    #[verifier::external_body]
    pub fn new(f: File) -> (r: Self) ensures r@.bytes == f@.bytes, r@.pos == 0 { unimplemented!() }
    /// Seek::seek / rewind on the reader: present so that a constructor that repositions the reader reaches the verifier
    #[verifier::external_body]
    pub fn seek(&mut self, p: SeekFrom) -> (r: core::result::Result<u64, io::Error>)
        ensures
            final(self)@.bytes == old(self)@.bytes,
            r.is_ok() ==> (match p { SeekFrom::Start(n) => final(self)@.pos == n as int && r.unwrap() == n }),
    { unimplemented!() }
}
