// Shared by unit persistence_init (which PROVES `Manifest::new() ensures fresh_manifest(r)` on the real text) and by every unit that sees
// Manifest::new through the generated stub `//@stub persistence_init Manifest::new` (atomic_publish, implied_storage).  Inside verus!, after
// the `//@item engine/src/persistence.rs struct Manifest` extraction.  Pure spec text, nothing here is trusted.
// what Manifest::new() builds: no snapshot pointer, no segment
pub open spec fn fresh_manifest(m: Manifest) -> bool {
    m.version == 1 && m.latest_snapshot.is_none() && m.latest_snapshot_wal_seq.is_none() && m.wal_segments@.len() == 0
}
