// `PackedLevel0` methods as seen by client units (inside verus!, after level0_env.rs): external_body stubs whose
// requires/ensures are clause-for-clause copies of the contracts that unit `packed_level0` (units/packed_level0.vrs)
// discharges for the real methods of engine/src/ann_backend.rs.
//@trusted PackedLevel0::{len, count_unchecked, neighbor_unchecked, neighbors, vector_at, vector_at_unchecked, record_ptr, record_bytes} stub contracts = copies of the contracts discharged in unit packed_level0
impl PackedLevel0 {
    #[verifier::external_body]
    fn len(&self) -> (r: usize)
        requires self.wf(),
        ensures r == self.spec_len(),
    { unimplemented!() }

    #[verifier::external_body]
    unsafe fn count_unchecked(&self, dense_id: u32) -> (r: usize)
        requires self.wf(), dense_id < self.spec_len(),
        ensures
            r <= self.cap,
            r == imin(self.data@[self.rec(dense_id as int)] as int, self.cap as int),
    { unimplemented!() }

    #[verifier::external_body]
    unsafe fn neighbor_unchecked(&self, dense_id: u32, idx: usize) -> (r: u32)
        requires self.wf(), dense_id < self.spec_len(), idx < self.cap,
        ensures r == self.data@[self.rec(dense_id as int) + 1 + idx],
    { unimplemented!() }

    #[verifier::external_body]
    fn neighbors(&self, dense_id: u32) -> (r: &[u32])
        requires self.wf(),
        ensures
            dense_id >= self.spec_len() ==> r@.len() == 0,
            dense_id < self.spec_len() ==> r@ == self.data@.subrange(self.rec(dense_id as int) + 1,
                self.rec(dense_id as int) + 1 + imin(self.data@[self.rec(dense_id as int)] as int, self.cap as int)),
    { unimplemented!() }

    #[verifier::external_body]
    fn vector_at(&self, dense_id: u32) -> (r: &[f32])
        requires self.wf(), dense_id < self.spec_len(),
        ensures
            r@.len() == self.dimension,
            forall|i: int| 0 <= i < self.dimension ==> f32_bits(#[trigger] r@[i]) == self.data@[self.rec(dense_id as int) + self.vector_offset_words + i],
    { unimplemented!() }

    #[verifier::external_body]
    unsafe fn vector_at_unchecked(&self, dense_id: u32) -> (r: &[f32])
        requires self.wf(), dense_id < self.spec_len(),
        ensures
            r@.len() == self.dimension,
            forall|i: int| 0 <= i < self.dimension ==> f32_bits(#[trigger] r@[i]) == self.data@[self.rec(dense_id as int) + self.vector_offset_words + i],
    { unimplemented!() }

    #[verifier::external_body]
    fn record_ptr(&self, dense_id: u32) -> (r: VxBytePtr<'_>)
        requires self.wf(), dense_id < self.spec_len(),
        ensures
            r.base == &self.data,
            r.byte_off@ == self.rec(dense_id as int) * 4,
            r.byte_off@ + self.record_words * 4 <= self.data@.len() * 4,
    { unimplemented!() }

    #[verifier::external_body]
    fn record_bytes(&self) -> (r: usize)
        requires self.wf(),
        ensures r == self.record_words * 4,
    { unimplemented!() }
}
