// Environment of unit dir_probe: std::fs::read_dir / ReadDir / DirEntry / OsString / Cow<str> / Metadata as far as the chain
// `read_dir(dir) -> entries.flatten().any(|entry| ..)` touches them (inside verus!, after prelude/iter_chain_env.rs for `VxIter`
// and prelude/dir_probe_spec.rs for the listing vocabulary).  The chain text stays the real one; the closures are the REAL closures
// and are seen by the adapters only through `f.requires` / `f.ensures`, so each closure body is verified against its own declared contract.
//@trusted std::fs::read_dir(p) (stub vx_read_dir, prelude/dir_iter_env.rs): Ok iff read_dir_ok(p@), and then the iterator's items are listing(p@) in order (one DirEnt per item, `ok` = the item is Ok(DirEntry)).  ReadDir::flatten() (Iterator::flatten over io::Result items): yields exactly the Ok entries (every yielded DirEntry is an `ok` element of the listing, every `ok` element is yielded)
//@trusted VxIter::any(f) / VxIter::all(f) (Iterator::any / all, prelude/dir_iter_env.rs), stated operationally: `any` answers true only if some call f(item) answered true and every earlier item was answered false (it stops at the first true: later items are not looked at); it answers false only if f was called on EVERY item and answered false each time.  `all` dually.  f.requires must hold for every item.  The closure is `FnMut` in std; the stub says nothing about captured state (the closure under contract captures nothing)
//@trusted DirEntry::file_name().to_string_lossy() has the characters `name` of the entry (= the file name itself when it is valid UTF-8, as every name the engine writes is: ASCII; for other names `name` IS the lossy rendering, invalid bytes shown as U+FFFD); str::starts_with(&str) / ends_with(&str) on it are prefix / suffix tests on that character sequence (has_prefix / has_suffix)
//@trusted DirEntry::metadata(): Ok(m) iff the entry's meta_len is Some(n), and then m.len() == n.  Result::map is vstd's specification; Result::unwrap_or(d): Ok(v) => v, Err(_) => d
#[verifier::external_body] pub struct Path { _p: core::marker::PhantomData<()> }
impl Path { pub uninterp spec fn view(&self) -> Seq<char>; }
#[verifier::external_body] pub struct IoError { _p: core::marker::PhantomData<()> }
#[verifier::external_body] pub struct ReadDir { _p: core::marker::PhantomData<()> }
#[verifier::external_body] pub struct DirEntry { _p: core::marker::PhantomData<()> }
#[verifier::external_body] pub struct OsString { _p: core::marker::PhantomData<()> }
#[verifier::external_body] pub struct LossyName { _p: core::marker::PhantomData<()> }
#[verifier::external_body] pub struct Metadata { _p: core::marker::PhantomData<()> }

#[verifier::external_body]
pub fn vx_read_dir(p: &Path) -> (r: core::result::Result<ReadDir, IoError>)
    ensures
        r.is_ok() <==> read_dir_ok(p@),
        r.is_ok() ==> (r->Ok_0)@ == listing(p@),
{ unimplemented!() }

impl ReadDir {
    pub uninterp spec fn view(&self) -> Seq<DirEnt>;
    #[verifier::external_body]
    pub fn flatten(self) -> (r: VxIter<DirEntry>)
        ensures
            forall|j: int| 0 <= j < r@.len() ==> exists|i: int| 0 <= i < self@.len() && self@[i].ok && self@[i] == (#[trigger] r@[j])@,
            forall|i: int| 0 <= i < self@.len() && (#[trigger] self@[i]).ok ==> exists|j: int| 0 <= j < r@.len() && (#[trigger] r@[j])@ == self@[i],
    { unimplemented!() }
}

//@include iter_any_env.rs

impl DirEntry {
    pub uninterp spec fn view(&self) -> DirEnt;
    #[verifier::external_body]
    pub fn file_name(&self) -> (r: OsString)
        ensures r@ == self@.name,
    { unimplemented!() }
    #[verifier::external_body]
    pub fn metadata(&self) -> (r: core::result::Result<Metadata, IoError>)
        ensures
            r.is_ok() <==> self@.meta_len is Some,
            r.is_ok() ==> (r->Ok_0).spec_len() == self@.meta_len->Some_0,
    { unimplemented!() }
}
impl OsString {
    pub uninterp spec fn view(&self) -> Seq<char>;
    #[verifier::external_body]
    pub fn to_string_lossy(&self) -> (r: LossyName)
        ensures r@ == self@,
    { unimplemented!() }
}
// Cow<'_, str> as far as the probe uses it (auto-deref to str)
impl LossyName {
    pub uninterp spec fn view(&self) -> Seq<char>;
    #[verifier::external_body]
    pub fn starts_with(&self, pat: &str) -> (r: bool)
        ensures r == has_prefix(self@, pat@),
    { unimplemented!() }
    #[verifier::external_body]
    pub fn ends_with(&self, pat: &str) -> (r: bool)
        ensures r == has_suffix(self@, pat@),
    { unimplemented!() }
}
impl Metadata {
    pub uninterp spec fn spec_len(&self) -> u64;
    #[verifier::external_body]
    pub fn len(&self) -> (r: u64)
        ensures r == self.spec_len(),
    { unimplemented!() }
}
pub assume_specification<T, E>[core::result::Result::<T, E>::unwrap_or](res: core::result::Result<T, E>, d: T) -> (o: T)
    ensures o == (match res { Ok(v) => v, Err(_) => d });
