// Abstract model of `LruIndex<K>` (inside verus!): the recency order as a duplicate-free `Seq<K>`, oldest first.
// Shared by unit `lru_index` (which proves the real methods against it) and by `lru_contracts.rs` (the stub
// contracts used by the client units).  Pure spec functions and proved lemmas only: nothing here is trusted.
//@assume type-level: obeys_key_model::<K>() and eq_is_structural::<K>() (exec `==`/hash of the LRU key type agree with spec equality); both hold for u64, the only instantiation in the engine's caches

pub open spec fn eq_is_structural<K: PartialEq>() -> bool {
    <K as PartialEqSpec>::obeys_eq_spec() && forall|x: K, y: K| #[trigger] x.eq_spec(&y) <==> x == y
}
// "no key occurs twice"; opaque so that the quadratic quantifier stays out of the exec-function queries (lemmas reveal it)
#[verifier::opaque]
pub open spec fn lru_nodup<K>(o: Seq<K>) -> bool { o.no_duplicates() }
pub open spec fn first_of<K>(o: Seq<K>) -> Option<K> { if o.len() == 0 { None } else { Some(o[0]) } }
pub open spec fn last_of<K>(o: Seq<K>) -> Option<K> { if o.len() == 0 { None } else { Some(o[o.len() - 1]) } }

// touch: an existing key moves to the MRU end, everything else keeps its relative order
#[verifier::opaque]
pub open spec fn lru_touch<K>(o: Seq<K>, key: K) -> Seq<K> {
    if o.contains(key) { o.remove(o.index_of(key)).push(key) } else { o }
}
// insert_new: a new key is appended at the MRU end; an existing one is touched
#[verifier::opaque]
pub open spec fn lru_insert<K>(o: Seq<K>, key: K) -> Seq<K> {
    if o.contains(key) { o.remove(o.index_of(key)).push(key) } else { o.push(key) }
}
// remove: exactly the named key leaves, the rest keeps its order
#[verifier::opaque]
pub open spec fn lru_remove<K>(o: Seq<K>, key: K) -> Seq<K> {
    if o.contains(key) { o.remove(o.index_of(key)) } else { o }
}
// pop_lru: the oldest key leaves
#[verifier::opaque]
pub open spec fn lru_pop<K>(o: Seq<K>) -> Seq<K> { if o.len() > 0 { o.remove(0) } else { o } }

pub proof fn lemma_seq_remove_at<K>(o: Seq<K>, i: int)
    requires o.no_duplicates(), 0 <= i < o.len(),
    ensures
        o.remove(i).no_duplicates(),
        !o.remove(i).contains(o[i]),
        o.remove(i).to_set() == o.to_set().remove(o[i]),
        o.remove(i).len() == o.len() - 1,
{
    let o2 = o.remove(i);
    assert forall|a: int, b: int| 0 <= a < o2.len() && 0 <= b < o2.len() && a != b implies o2[a] != o2[b] by {
        let aa = if a < i { a } else { a + 1 };
        let bb = if b < i { b } else { b + 1 };
        assert(o2[a] == o[aa] && o2[b] == o[bb]);
    }
    assert(!o2.contains(o[i])) by {
        if o2.contains(o[i]) {
            let j = choose|j: int| 0 <= j < o2.len() && o2[j] == o[i];
            let jj = if j < i { j } else { j + 1 };
            assert(o[jj] == o[i]);
        }
    }
    assert forall|k: K| o2.to_set().contains(k) <==> o.to_set().remove(o[i]).contains(k) by {
        if o2.to_set().contains(k) {
            let j = choose|j: int| 0 <= j < o2.len() && o2[j] == k;
            let jj = if j < i { j } else { j + 1 };
            assert(o[jj] == k);
            assert(o.contains(k));
        }
        if o.to_set().remove(o[i]).contains(k) {
            assert(o.contains(k));
            let j = choose|j: int| 0 <= j < o.len() && o[j] == k;
            let jj = if j < i { j } else { j - 1 };
            assert(o2[jj] == k);
            assert(o2.contains(k));
        }
    }
    assert(o2.to_set() =~= o.to_set().remove(o[i]));
}

pub proof fn lemma_seq_push_new<K>(o: Seq<K>, key: K)
    requires o.no_duplicates(), !o.contains(key),
    ensures
        o.push(key).no_duplicates(),
        o.push(key).to_set() == o.to_set().insert(key),
        last_of(o.push(key)) == Some(key),
{
    let o2 = o.push(key);
    assert forall|a: int, b: int| 0 <= a < o2.len() && 0 <= b < o2.len() && a != b implies o2[a] != o2[b] by {
        if a < o.len() { assert(o.contains(o[a])); }
        if b < o.len() { assert(o.contains(o[b])); }
    }
    assert forall|k: K| o2.to_set().contains(k) <==> o.to_set().insert(key).contains(k) by {
        if o2.to_set().contains(k) {
            let j = choose|j: int| 0 <= j < o2.len() && o2[j] == k;
            if j < o.len() { assert(o[j] == k); assert(o.contains(k)); }
        }
        if o.to_set().insert(key).contains(k) {
            if k == key { assert(o2[o2.len() - 1] == k); } else {
                assert(o.contains(k));
                let j = choose|j: int| 0 <= j < o.len() && o[j] == k;
                assert(o2[j] == k);
            }
            assert(o2.contains(k));
        }
    }
    assert(o2.to_set() =~= o.to_set().insert(key));
}

// everything a client needs to know about the four order transformers
pub proof fn lemma_lru_model<K>(o: Seq<K>, key: K)
    requires lru_nodup(o),
    ensures
        o.to_set().len() == o.len(),
        o.len() == 0 <==> o.to_set() == Set::<K>::empty(),
        o.contains(key) ==> 0 <= o.index_of(key) < o.len() && o[o.index_of(key)] == key,
        forall|i: int| 0 <= i < o.len() && o[i] == key ==> i == o.index_of(key),
        !o.contains(key) ==> lru_touch(o, key) == o && lru_remove(o, key) == o && lru_insert(o, key) == o.push(key),
        o.contains(key) ==> lru_insert(o, key) == lru_touch(o, key),
        lru_nodup(lru_touch(o, key)), lru_touch(o, key).to_set() == o.to_set(), lru_touch(o, key).len() == o.len(),
        o.contains(key) ==> last_of(lru_touch(o, key)) == Some(key),
        last_of(o) == Some(key) ==> lru_touch(o, key) == o,
        lru_nodup(lru_insert(o, key)), lru_insert(o, key).to_set() == o.to_set().insert(key),
        last_of(lru_insert(o, key)) == Some(key),
        lru_insert(o, key).len() == (if o.contains(key) { o.len() } else { o.len() + 1 }),
        lru_nodup(lru_remove(o, key)), lru_remove(o, key).to_set() == o.to_set().remove(key),
        !lru_remove(o, key).contains(key),
        lru_remove(o, key).len() == (if o.contains(key) { o.len() - 1 } else { o.len() as int }),
{
    reveal(lru_nodup); reveal(lru_touch); reveal(lru_insert); reveal(lru_remove); reveal(lru_pop);
    o.unique_seq_to_set();
    if o.len() == 0 { assert(o.to_set() =~= Set::<K>::empty()); } else { assert(o.contains(o[0])); }
    assert(lru_remove(o, key).len() == (if o.contains(key) { o.len() - 1 } else { o.len() as int }));
    if o.contains(key) {
        let i = o.index_of(key);
        lemma_seq_remove_at(o, i);
        lemma_seq_push_new(o.remove(i), key);
        assert(o.to_set().remove(key).insert(key) =~= o.to_set());
        assert(o.to_set().insert(key) =~= o.to_set());
        if last_of(o) == Some(key) {
            assert(o[o.len() - 1] == o[i]);
            assert(o.remove(i).push(key) =~= o);
        }
    } else {
        lemma_seq_push_new(o, key);
        assert(o.to_set().remove(key) =~= o.to_set());
    }
}

pub proof fn lemma_lru_pop<K>(o: Seq<K>)
    requires lru_nodup(o),
    ensures
        o.to_set().len() == o.len(),
        o.len() == 0 <==> o.to_set() == Set::<K>::empty(),
        lru_nodup(lru_pop(o)),
        o.len() == 0 ==> lru_pop(o) == o,
        o.len() > 0 ==> o.contains(o[0]) && o.to_set().contains(o[0]) && lru_pop(o) == lru_remove(o, o[0])
            && lru_pop(o).to_set() == o.to_set().remove(o[0]) && lru_pop(o).len() == o.len() - 1,
{
    reveal(lru_nodup); reveal(lru_touch); reveal(lru_insert); reveal(lru_remove); reveal(lru_pop);
    o.unique_seq_to_set();
    if o.len() == 0 { assert(o.to_set() =~= Set::<K>::empty()); } else {
        lemma_seq_remove_at(o, 0);
        assert(o.contains(o[0]));
        assert(o[o.index_of(o[0])] == o[0]);
    }
}
