// FlatGraph (engine/src/ann_backend.rs) as seen by the units on its unsafe call sites (inside verus!, after
// level0_env.rs + level0_contracts.rs): the real structs (extracted) and the graph invariant the call sites rely on.
//@assume MetricDistanceKernel carries an opaque kernel value (`VxKernelFn`, component-erasure of the `fn(&[f32], &[f32]) -> f32` pointer type): which kernel it is does not matter for memory safety, only the slices it is called with
//@assume x86_64 target: the `#[cfg(target_arch = "x86_64")]` field `level0_record_bytes` of FlatGraph is present (attr-strip)
//@item engine/src/config.rs enum DistanceMetric
//@ derive Clone, Copy
//@end
//@item engine/src/ann_backend.rs const PREFETCH_CACHELINE_BYTES
//@end
//@item engine/src/ann_backend.rs const PREFETCH_NEIGHBOR_LOOKAHEAD_MAX
//@end
/// a resolved `BinaryF32Kernel` (function pointer out of the SIMD dispatch table)
#[derive(Clone, Copy)]
pub struct VxKernelFn { pub id: usize }
//@item engine/src/ann_backend.rs enum MetricDistanceKernel
//@ derive Clone, Copy
//@ rw component-erasure /BinaryF32Kernel/ -> "VxKernelFn" n=2
//@end
//@item engine/src/ann_backend.rs struct LayerAdjacency
//@end
//@item engine/src/ann_backend.rs struct FlatGraph
//@ rw attr-strip /pub #\[cfg\(target_arch = "x86_64"\)\]\s*/ -> "pub "
//@end

impl FlatGraph {
    /// what the unsafe call sites rely on: the level-0 store is well formed, holds (at least) one record per known node
    /// (`push_node` runs before `dense_to_origin.push`), and stores vectors of exactly `dimension` lanes
    pub open spec fn graph_wf(&self) -> bool {
        &&& self.level0.wf()
        &&& self.dense_to_origin@.len() <= self.level0.spec_len()
        &&& self.level0.dimension == self.dimension
    }
}
