// Shared environment of the C11 filter units (inside verus!): mirror of the prost filter types, the reference
// semantics `matches_spec` (written from the property statement), and the std specifications both sides rely on.
// Both `filter_reference` and `filter_compile` are proved against THIS text.
//@trusted proto mirror: MetadataFilter / FilterType / ExactMatch / RangeMatch / range_match::Bound / InMatch / AndFilter / OrFilter / NotFilter are hand-written copies of the prost output for engine/proto/kyrodb.proto (build-generated, not in the working tree)
//@trusted str::parse::<F> is a function of the character sequence (uninterpreted spec_parse::<F>); f64 and String comparison operators return what their (uninterpreted) partial_cmp_spec says; String order is a function of the character sequences (uninterpreted spec_str_cmp)
//@trusted <[T]>::contains(x) == exists i. s[i].eq_spec(x) when T obeys eq_spec
//@include string_axioms.rs
use core::cmp::Ordering as CmpOrdering;
pub broadcast group group_filter_string {
    axiom_string_ext, axiom_string_key_model, axiom_string_eq_spec, axiom_string_obeys_eq, axiom_string_cloned,
}

pub mod proto {
    pub struct ExactMatch { pub key: String, pub value: String }
    pub struct InMatch { pub key: String, pub values: Vec<String> }
    pub struct AndFilter { pub filters: Vec<MetadataFilter> }
    pub struct OrFilter { pub filters: Vec<MetadataFilter> }
    pub struct NotFilter { pub filter: Option<Box<MetadataFilter>> }
    pub struct RangeMatch { pub key: String, pub bound: Option<range_match::Bound> }
    pub mod range_match { pub enum Bound { Gte(String), Lte(String), Gt(String), Lt(String) } }
    pub mod metadata_filter {
        pub enum FilterType {
            Exact(super::ExactMatch),
            Range(super::RangeMatch),
            InMatch(super::InMatch),
            AndFilter(super::AndFilter),
            OrFilter(super::OrFilter),
            NotFilter(Box<super::NotFilter>),
        }
    }
    pub struct MetadataFilter { pub filter_type: Option<metadata_filter::FilterType> }
}
use crate::proto::{
    metadata_filter::FilterType, AndFilter, ExactMatch, InMatch, MetadataFilter, NotFilter,
    OrFilter, RangeMatch,
};
use crate::proto::metadata_filter::FilterType as FT;
use crate::proto::range_match::Bound as RB;

// ---------------------------------------------------------------------------------------------- std specifications
#[verifier::external_trait_specification]
pub trait ExFromStr: Sized {
    type ExternalTraitSpecificationFor: core::str::FromStr;
    type Err;
}
#[verifier::external_type_specification]
#[verifier::external_body]
pub struct ExParseFloatError(core::num::ParseFloatError);

// `s.parse::<F>()`: some function of the characters of `s`
pub uninterp spec fn spec_parse<F>(s: Seq<char>) -> Option<F>;
pub assume_specification<F: core::str::FromStr>[str::parse::<F>](s: &str) -> (r: Result<F, F::Err>)
    ensures (match r { Ok(v) => spec_parse::<F>(s@) == Some(v), Err(_) => spec_parse::<F>(s@).is_none() });
pub open spec fn spec_parse_f64(s: Seq<char>) -> Option<f64> { spec_parse::<f64>(s) }

pub assume_specification<T: core::cmp::PartialEq>[<[T]>::contains](s: &[T], x: &T) -> (r: bool)
    ensures <T as PartialEqSpec>::obeys_eq_spec() ==> r == (exists|k: int| 0 <= k < s@.len() && (#[trigger] s@[k]).eq_spec(x));

// String order: a function of the two character sequences (in reality: lexicographic on the UTF-8 bytes)
pub uninterp spec fn spec_str_cmp(a: Seq<char>, b: Seq<char>) -> Option<CmpOrdering>;
#[verifier::external_body] pub broadcast proof fn axiom_string_obeys_partial_cmp()
    ensures #[trigger] <String as PartialOrdSpec>::obeys_partial_cmp_spec() {}
#[verifier::external_body] pub broadcast proof fn axiom_string_partial_cmp(a: String, b: String)
    ensures #![trigger a.partial_cmp_spec(&b)] a.partial_cmp_spec(&b) == spec_str_cmp(a@, b@) {}
// f64 order: the comparison operators agree with the (uninterpreted) partial_cmp_spec of f64
#[verifier::external_body] pub broadcast proof fn axiom_f64_obeys_partial_cmp()
    ensures #[trigger] <f64 as PartialOrdSpec>::obeys_partial_cmp_spec() {}
pub broadcast group group_filter_order {
    axiom_string_obeys_partial_cmp, axiom_string_partial_cmp, axiom_f64_obeys_partial_cmp,
}

// ---------------------------------------------------------------------------------------------- reference semantics
/// abstract metadata of one document: key characters -> value characters
pub type Meta = Map<Seq<char>, Seq<char>>;

/// abstraction of a `HashMap<String, String>` view
pub open spec fn meta_of(m: Map<String, String>) -> Meta {
    Map::new(
        m.dom().map(|k: String| k@),
        |ks: Seq<char>| m[choose|k: String| #![trigger m.contains_key(k)] k@ == ks && m.contains_key(k)]@,
    )
}
pub broadcast proof fn lemma_meta_of(m: Map<String, String>, k: String)
    ensures
        #![trigger meta_of(m).contains_key(k@)]
        #![trigger m.contains_key(k)]
        meta_of(m).contains_key(k@) == m.contains_key(k),
        m.contains_key(k) ==> meta_of(m)[k@] == m[k]@,
{
    broadcast use axiom_string_ext;
    if m.contains_key(k) {
        assert(m.dom().contains(k));
        assert(m.dom().map(|k: String| k@).contains(k@));
        let k2 = choose|k2: String| #![trigger m.contains_key(k2)] k2@ == k@ && m.contains_key(k2);
        assert(k2 == k);
    }
    if meta_of(m).contains_key(k@) {
        let k2 = choose|k2: String| #![trigger m.contains_key(k2)] k2@ == k@ && m.contains_key(k2);
        assert(k2 == k);
    }
}

pub open spec fn bound_str(b: RB) -> Seq<char> {
    match b { RB::Gte(v) => v@, RB::Lte(v) => v@, RB::Gt(v) => v@, RB::Lt(v) => v@ }
}
pub open spec fn ord_sat(b: RB, c: Option<CmpOrdering>) -> bool {
    match b {
        RB::Gte(_) => c == Some(CmpOrdering::Greater) || c == Some(CmpOrdering::Equal),
        RB::Lte(_) => c == Some(CmpOrdering::Less) || c == Some(CmpOrdering::Equal),
        RB::Gt(_) => c == Some(CmpOrdering::Greater),
        RB::Lt(_) => c == Some(CmpOrdering::Less),
    }
}
/// `val OP bn` as f64 comparison (false whenever the two are unordered, i.e. a NaN is involved)
pub open spec fn num_cmp(b: RB, val: f64, bn: f64) -> bool { ord_sat(b, val.partial_cmp_spec(&bn)) }
/// `val OP bs` as String comparison
pub open spec fn lex_cmp(b: RB, val: Seq<char>, bs: Seq<char>) -> bool { ord_sat(b, spec_str_cmp(val, bs)) }

/// one range predicate on one metadata map: the key must be present; without a bound that is all; with a bound the
/// comparison is numeric if BOTH the stored value and the bound parse as f64, else lexicographic
pub open spec fn range_spec(key: Seq<char>, bound: Option<RB>, m: Meta) -> bool {
    m.contains_key(key) && match bound {
        None => true,
        Some(b) => {
            let v = m[key];
            if spec_parse_f64(v).is_some() && spec_parse_f64(bound_str(b)).is_some() {
                num_cmp(b, spec_parse_f64(v).unwrap(), spec_parse_f64(bound_str(b)).unwrap())
            } else {
                lex_cmp(b, v, bound_str(b))
            }
        }
    }
}

/// reference semantics of a structured filter on one metadata map (property C11):
/// empty filter = true; exact; in-list; range; AND = all (empty AND = true); OR = some (empty OR = false);
/// NOT = complement, NOT without operand = false
pub open spec fn matches_spec(f: &MetadataFilter, m: Meta) -> bool
    decreases f
{
    match f.filter_type {
        None => true,
        Some(FT::Exact(e)) => m.contains_key(e.key@) && m[e.key@] == e.value@,
        Some(FT::InMatch(i)) => m.contains_key(i.key@) && exists|k: int| 0 <= k < i.values@.len() && m[i.key@] == (#[trigger] i.values@[k])@,
        Some(FT::Range(r)) => range_spec(r.key@, r.bound, m),
        Some(FT::AndFilter(a)) => forall|k: int| 0 <= k < a.filters@.len() ==> matches_spec(&(#[trigger] a.filters@[k]), m),
        Some(FT::OrFilter(o)) => exists|k: int| 0 <= k < o.filters@.len() && matches_spec(&(#[trigger] o.filters@[k]), m),
        Some(FT::NotFilter(n)) => match n.filter { Some(sub) => !matches_spec(&*sub, m), None => false },
    }
}
