// Stub of std's lazy iterator adapters for chains `v.iter().filter_map(f).map(g).min()` / `.sum::<usize>()` (inside verus!).
// The chain text stays the real one; only `.iter()` is renamed to `.vx_iter()` (declared `std-rename` rewrite), which
// returns a `VxIter<&T>`: an opaque value whose ghost view is the sequence of items the real iterator would yield.
// The adapters take the REAL closures; their contracts speak about the closures only through `f.requires` / `f.ensures`,
// so each closure body is verified against its own (declared) closure contract.
//@trusted VxIter (prelude/iter_chain_env.rs) models std::slice::Iter + FilterMap + Map: `vx_iter` yields the elements of the Vec in order; `filter_map(f)` / `map(f)` call f only on yielded items (so `f.requires` must hold for each of them) and yield only values that f returned (filter_map: some subsequence-by-origin of the `Some` results, no more items than the input; map: position-wise); `min` of usize items returns None iff there is no item, else an item that is <= every item; `sum::<usize>` returns the mathematical sum and REQUIRES that it fits usize (debug builds panic on overflow, release builds wrap: both are excluded by the precondition).  Laziness (closures run inside min/sum, not inside map) is not modelled: the closures are `Fn` and their contracts are state-free
pub open spec fn vx_seq_sum(s: Seq<usize>) -> int
    decreases s.len()
{
    if s.len() == 0 { 0 } else { vx_seq_sum(s.drop_last()) + s.last() as int }
}
pub open spec fn vx_all_between(s: Seq<usize>, lo: int, hi: int) -> bool {
    forall|i: int| 0 <= i < s.len() ==> lo <= #[trigger] s[i] <= hi
}
// proved (not trusted): the sum of n items in [lo, hi] lies in [lo*n, hi*n]
pub proof fn lemma_vx_seq_sum_bounds(s: Seq<usize>, lo: int, hi: int)
    requires vx_all_between(s, lo, hi),
    ensures lo * s.len() <= vx_seq_sum(s) <= hi * s.len(),
    decreases s.len(),
{
    if s.len() > 0 {
        let t = s.drop_last();
        let n = s.len() as int;
        assert(vx_all_between(t, lo, hi)) by {
            assert forall|i: int| 0 <= i < t.len() implies lo <= #[trigger] t[i] <= hi by { assert(t[i] == s[i]); }
        }
        lemma_vx_seq_sum_bounds(t, lo, hi);
        assert(t.len() == n - 1);
        assert(vx_seq_sum(s) == vx_seq_sum(t) + s.last() as int);
        assert(lo <= s[n - 1] <= hi);
        assert(lo * (n - 1) + lo == lo * n) by (nonlinear_arith);
        assert(hi * (n - 1) + hi == hi * n) by (nonlinear_arith);
    } else {
        assert(lo * 0 == 0 && hi * 0 == 0);
    }
}

#[verifier::external_body]
#[verifier::reject_recursive_types(T)]
pub struct VxIter<T> { _p: core::marker::PhantomData<T> }

pub trait VxIterSource<T> {
    fn vx_iter(&self) -> (r: VxIter<&T>);
}
impl<T> VxIterSource<T> for Vec<T> {
    #[verifier::external_body]
    fn vx_iter(&self) -> (r: VxIter<&T>)
        ensures
            r@.len() == self@.len(),
            forall|i: int| #![trigger r@[i]] #![trigger self@[i]] 0 <= i < self@.len() ==> *(r@[i]) == self@[i],
    { unimplemented!() }
}

impl<T> VxIter<T> {
    pub uninterp spec fn view(&self) -> Seq<T>;

    #[verifier::external_body]
    pub fn filter_map<U, F: Fn(T) -> Option<U>>(self, f: F) -> (r: VxIter<U>)
        requires
            forall|i: int| 0 <= i < self@.len() ==> f.requires((#[trigger] self@[i],)),
        ensures
            r@.len() <= self@.len(),
            forall|j: int| 0 <= j < r@.len() ==> exists|i: int| 0 <= i < self@.len() && f.ensures((self@[i],), Some(#[trigger] r@[j])),
    { unimplemented!() }

    #[verifier::external_body]
    pub fn map<U, F: Fn(T) -> U>(self, f: F) -> (r: VxIter<U>)
        requires
            forall|i: int| 0 <= i < self@.len() ==> f.requires((#[trigger] self@[i],)),
        ensures
            r@.len() == self@.len(),
            forall|j: int| 0 <= j < r@.len() ==> f.ensures((self@[j],), #[trigger] r@[j]),
    { unimplemented!() }
}

impl VxIter<usize> {
    #[verifier::external_body]
    pub fn min(self) -> (r: Option<usize>)
        ensures
            r.is_none() <==> self@.len() == 0,
            r matches Some(m) ==> (exists|i: int| 0 <= i < self@.len() && self@[i] == m)
                && (forall|i: int| 0 <= i < self@.len() ==> m <= #[trigger] self@[i]),
    { unimplemented!() }

    #[verifier::external_body]
    pub fn sum<S>(self) -> (r: usize)
        requires
            vx_seq_sum(self@) <= usize::MAX,
        ensures
            r == vx_seq_sum(self@),
    { unimplemented!() }

    // PROVED ghost identity (declared `proof-hint` rewrite puts it in front of `.sum()`): names the element bounds of the
    // anonymous intermediate iterator so that the sum's no-overflow precondition and the bound of `sum / d` follow.
    pub fn vx_bounded(self, Ghost(lo): Ghost<int>, Ghost(hi): Ghost<int>) -> (r: Self)
        requires
            vx_all_between(self@, lo, hi),
        ensures
            r@ == self@,
            lo * r@.len() <= vx_seq_sum(r@) <= hi * r@.len(),
            forall|d: int| d >= r@.len() && d >= 1 && 0 <= lo && 0 <= hi ==> 0 <= #[trigger] (vx_seq_sum(r@) / d) <= hi,
    {
        proof {
            lemma_vx_seq_sum_bounds(self@, lo, hi);
            let s = vx_seq_sum(self@);
            let n = self@.len() as int;
            assert forall|d: int| d >= n && d >= 1 && 0 <= lo && 0 <= hi implies 0 <= #[trigger] (s / d) <= hi by {
                assert(0 <= lo * n) by (nonlinear_arith) requires 0 <= lo, 0 <= n;
                assert(hi * n <= hi * d) by (nonlinear_arith) requires 0 <= hi, n <= d;
                assert(0 <= s / d <= hi) by (nonlinear_arith) requires 0 <= s <= hi * d, d >= 1, hi >= 0;
            }
        }
        self
    }
}
