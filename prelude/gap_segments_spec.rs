// Gap count over the segment list of a MANIFEST (units recover_segments, recover_strict_gap); inside verus!.
// Needs prelude/gap_spec.rs and prelude/segment_env.rs (seg_entries); pure spec text, nothing trusted.

// how many entries of the first n segments of segs lie in (s, end]
pub open spec fn gap_seen_segments(segs: Seq<String>, n: int, s: u64, end: u64) -> nat
    decreases n
{
    if n <= 0 { 0 } else {
        gap_seen_segments(segs, n - 1, s, end)
            + gap_seen(seg_entries(segs[n - 1]@), seg_entries(segs[n - 1]@).len() as int, s, end)
    }
}
