// `v.extend(w); v.sort_unstable(); v.dedup();` on Vec<u64> id lists (inside verus!): trusted std specifications and PROVED set-level lemmas.
// Same text as the corresponding items of units/engine_write_paths.vrs (which predates this file and carries its own copy).
//@trusted std specs (prelude/sorted_dedup_env.rs): <[T]>::sort_unstable and <[T]>::sort = a permutation of the input (same multiset), sorted w.r.t. cmp_spec when T obeys it; Vec::dedup = `dedup_spec` (walk left to right, drop an element iff it is eq_spec to the last RETAINED one: only ADJACENT duplicates go), when T obeys eq_spec; `Vec<u64>::extend(Vec<u64>)` renamed to vx_vec_extend (concatenation)
pub open spec fn seq_sorted<T: Ord>(s: Seq<T>) -> bool {
    forall|i: int, j: int| 0 <= i < j < s.len() ==> #[trigger] s[i].cmp_spec(&s[j]) != core::cmp::Ordering::Greater
}
pub open spec fn dedup_spec<T: PartialEq>(s: Seq<T>) -> Seq<T> decreases s.len() {
    if s.len() == 0 { s } else {
        let r = dedup_spec(s.drop_last());
        if r.len() > 0 && s.last().eq_spec(&r.last()) { r } else { r.push(s.last()) }
    }
}
pub assume_specification<T: Ord>[<[T]>::sort_unstable](s: &mut [T])
    ensures final(s)@.len() == old(s)@.len(), final(s)@.to_multiset() == old(s)@.to_multiset(),
        <T as OrdSpec>::obeys_cmp_spec() ==> seq_sorted(final(s)@);
pub assume_specification<T: Ord>[<[T]>::sort](s: &mut [T])
    ensures final(s)@.len() == old(s)@.len(), final(s)@.to_multiset() == old(s)@.to_multiset(),
        <T as OrdSpec>::obeys_cmp_spec() ==> seq_sorted(final(s)@);
pub assume_specification<T: PartialEq, A: std::alloc::Allocator>[Vec::<T, A>::dedup](v: &mut Vec<T, A>)
    ensures <T as PartialEqSpec>::obeys_eq_spec() ==> final(v)@ == dedup_spec(old(v)@);
/// `v.extend(other_vec)` (std-rename: "appended in order" cannot be stated for a generic IntoIterator)
#[verifier::external_body]
fn vx_vec_extend(v: &mut Vec<u64>, other: Vec<u64>) ensures final(v)@ == old(v)@ + other@ { unimplemented!() }

pub proof fn lemma_multiset_same_set(a: Seq<u64>, b: Seq<u64>)
    ensures a.to_multiset() == b.to_multiset() ==> a.to_set() == b.to_set() && a.len() == b.len(),
{
    if a.to_multiset() == b.to_multiset() {
        a.to_multiset_ensures(); b.to_multiset_ensures();
        assert forall|d: u64| a.to_set().contains(d) == b.to_set().contains(d) by {
            assert(a.contains(d) <==> a.to_multiset().count(d) > 0);
            assert(b.contains(d) <==> b.to_multiset().count(d) > 0);
        }
        assert(a.to_set() =~= b.to_set());
    }
}
/// `dedup` keeps the set of elements
pub proof fn lemma_dedup_same_set(s: Seq<u64>)
    ensures
        forall|d: u64| #[trigger] dedup_spec(s).contains(d) <==> s.contains(d),
        s.len() > 0 ==> dedup_spec(s).len() > 0 && dedup_spec(s).last() == s.last(),
    decreases s.len(),
{
    if s.len() > 0 {
        let t = s.drop_last(); let x = s.last(); let r = dedup_spec(t);
        lemma_dedup_same_set(t);
        let res = dedup_spec(s);
        assert(s =~= t.push(x));
        assert forall|d: u64| #[trigger] res.contains(d) <==> s.contains(d) by {
            if res.contains(d) {
                let i = choose|i: int| 0 <= i < res.len() && res[i] == d;
                if i < r.len() { assert(r[i] == d); assert(r.contains(d)); assert(t.contains(d)); let j = choose|j: int| 0 <= j < t.len() && t[j] == d; assert(s[j] == d); }
                else { assert(d == x); assert(s[s.len() - 1] == d); }
            }
            if s.contains(d) {
                let j = choose|j: int| 0 <= j < s.len() && s[j] == d;
                if j < t.len() { assert(t[j] == d); assert(t.contains(d)); assert(r.contains(d)); let i = choose|i: int| 0 <= i < r.len() && r[i] == d; assert(res[i] == d); }
                else { assert(d == x); assert(res[res.len() - 1] == x); }
            }
        }
    }
}
/// `u` = `d` permuted (sort) and then possibly deduplicated: the same SET of ids, whatever the order was
pub proof fn lemma_sorted_dedup_same_set(d: Seq<u64>, u: Seq<u64>)
    ensures
        (#[trigger] u.to_multiset() == d.to_multiset()
            || exists|m: Seq<u64>| m.to_multiset() == d.to_multiset() && u == #[trigger] dedup_spec(m)) ==> u.to_set() == d.to_set(),
{
    lemma_multiset_same_set(u, d);
    if exists|m: Seq<u64>| m.to_multiset() == d.to_multiset() && u == #[trigger] dedup_spec(m) {
        let m = choose|m: Seq<u64>| m.to_multiset() == d.to_multiset() && u == #[trigger] dedup_spec(m);
        lemma_multiset_same_set(m, d);
        lemma_dedup_same_set(m);
        assert(u.to_set() =~= m.to_set());
    }
}
/// `fin` has the elements of `a ++ b`: membership splits
pub proof fn lemma_concat_members(a: Seq<u64>, b: Seq<u64>, j0: Seq<u64>, fin: Seq<u64>)
    ensures
        j0 == a + b && fin.to_set() == j0.to_set() ==> (forall|d: u64| #[trigger] fin.contains(d) <==> (a.contains(d) || b.contains(d))),
{
    if j0 == a + b && fin.to_set() == j0.to_set() {
        assert forall|d: u64| #[trigger] fin.contains(d) <==> (a.contains(d) || b.contains(d)) by {
            assert(fin.contains(d) == fin.to_set().contains(d));
            assert(j0.contains(d) == j0.to_set().contains(d));
            if a.contains(d) { let i = choose|i: int| 0 <= i < a.len() && a[i] == d; assert(j0[i] == d); }
            if b.contains(d) { let i = choose|i: int| 0 <= i < b.len() && b[i] == d; assert(j0[a.len() + i] == d); }
            if j0.contains(d) {
                let i = choose|i: int| 0 <= i < j0.len() && j0[i] == d;
                if i < a.len() { assert(a[i] == d); } else { assert(b[i - a.len()] == d); }
            }
        }
    }
}
