// the k-NN result record (inside verus!)
//@item engine/src/hnsw_index.rs struct SearchResult
//@ derive Debug, Clone
//@end
