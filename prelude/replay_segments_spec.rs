// (inside verus!, after segment_env.rs) replay over the segment list of a MANIFEST
//@include replay_spec.rs
// replay of the first n segments of the MANIFEST list, in list order
pub open spec fn replay_segments(m: Map<u64, Doc>, segs: Seq<String>, n: int, snap_seq: u64, snap_ts: u64) -> Map<u64, Doc>
    decreases n
{
    if n <= 0 { m } else {
        let p = replay_segments(m, segs, n - 1, snap_seq, snap_ts);
        let es = seg_entries(segs[n - 1]@);
        replay_spec(p, es, es.len() as int, snap_seq, snap_ts)
    }
}
