// (inside verus!, after qcache_core_env.rs) well-formedness vocabulary of the query-result cache state: shared by unit qcache_core (which
// proves the contracts stated with it) and unit implied_qcache (which checks the engine-level QueryHashCache stubs against them)
// ---- the reverse index doc id -> keys of the cached entries whose results mention that doc
pub type RIdx = Map<u64, Vec<QueryCacheKey>>;
pub open spec fn has_pair(m: RIdx, d: u64, k: QueryCacheKey) -> bool { m.contains_key(d) && m[d]@.contains(k) }
pub open spec fn has_doc(rs: Seq<SearchResult>, d: u64) -> bool { exists|i: int| 0 <= i < rs.len() && (#[trigger] rs[i]).doc_id == d }

// ---- well-formedness of the cache state
// the four per-key structures agree on the key set
pub open spec fn keys_agree(s: QueryCacheState) -> bool {
    &&& s.lru.wf()
    &&& s.cache@.dom() == s.lru.keys()
    &&& s.query_embeddings@.dom() == s.cache@.dom()
    &&& s.query_embedding_stats@.dom() == s.cache@.dom()
}
// the reverse index covers every (doc, key) pair of every cached entry, except possibly pairs of doc `skip` (None: no exception)
pub open spec fn covers_except(s: QueryCacheState, skip: Option<u64>) -> bool {
    forall|k: QueryCacheKey, d: u64| #![trigger has_doc(s.cache@[k].results@, d)] #![trigger has_pair(s.doc_to_query_keys@, d, k)]
        s.cache@.contains_key(k) && has_doc(s.cache@[k].results@, d) && skip != Some(d) ==> has_pair(s.doc_to_query_keys@, d, k)
}
pub open spec fn covers(s: QueryCacheState) -> bool { covers_except(s, None) }
// ... and holds nothing else: every indexed pair belongs to a cached entry that mentions the doc
pub open spec fn tight(s: QueryCacheState) -> bool {
    forall|k: QueryCacheKey, d: u64| #![trigger has_pair(s.doc_to_query_keys@, d, k)]
        has_pair(s.doc_to_query_keys@, d, k) ==> s.cache@.contains_key(k) && has_doc(s.cache@[k].results@, d)
}
// ... in lists that are never empty and never name a key twice
pub open spec fn tidy(m: RIdx) -> bool {
    forall|d: u64| #[trigger] m.contains_key(d) ==> m[d]@.len() > 0 && m[d]@.no_duplicates()
}
pub open spec fn wf(s: QueryCacheState) -> bool { keys_agree(s) && covers(s) && tight(s) && tidy(s.doc_to_query_keys@) }
// no cached entry mentions doc d
pub open spec fn doc_free(s: QueryCacheState, d: u64) -> bool {
    forall|k: QueryCacheKey| #![trigger s.cache@[k]] s.cache@.contains_key(k) ==> !has_doc(s.cache@[k].results@, d)
}
