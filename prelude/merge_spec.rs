// Reference semantics and property-level reading of TieredEngine::merge_knn_results (inside verus!; shared by units merge and search_path).
// The lemmas in this file are proved in every unit that includes it.
//@include search_result.rs
//@include sort_specs.rs
pub type HotSeq = Seq<(u64, f32)>;
pub type ColdSeq = Seq<SearchResult>;
pub type DMap = Map<u64, f32>;

// ---------------------------------------------------------------- reference semantics of the two insertion loops
pub open spec fn hot_map(hot: HotSeq, n: int) -> DMap
    decreases n
{
    if n <= 0 { Map::empty() } else { hot_map(hot, n - 1).insert(hot[n - 1].0, hot[n - 1].1) }
}
pub open spec fn cold_map(m: DMap, cold: ColdSeq, n: int) -> DMap
    decreases n
{
    if n <= 0 { m } else {
        let p = cold_map(m, cold, n - 1);
        if p.contains_key(cold[n - 1].doc_id) { p } else { p.insert(cold[n - 1].doc_id, cold[n - 1].distance) }
    }
}
pub open spec fn merged_spec(hot: HotSeq, cold: ColdSeq) -> DMap {
    cold_map(hot_map(hot, hot.len() as int), cold, cold.len() as int)
}

// ---------------------------------------------------------------- property-level reading of merged_spec
pub open spec fn hot_has(hot: HotSeq, n: int, d: u64) -> bool { exists|i: int| 0 <= i < n && (#[trigger] hot[i]).0 == d }
pub open spec fn cold_has(cold: ColdSeq, n: int, d: u64) -> bool { exists|j: int| 0 <= j < n && (#[trigger] cold[j]).doc_id == d }
/// `x` is the distance of the last hot candidate with id `d`
pub open spec fn hot_src(hot: HotSeq, n: int, d: u64, x: f32) -> bool {
    exists|i: int| 0 <= i < n && #[trigger] hot[i] == (d, x) && forall|i2: int| i < i2 < n ==> (#[trigger] hot[i2]).0 != d
}
/// `x` is the distance of the first cold candidate with id `d`
pub open spec fn cold_src(cold: ColdSeq, n: int, d: u64, x: f32) -> bool {
    exists|j: int| 0 <= j < n && (#[trigger] cold[j]).doc_id == d && cold[j].distance == x && forall|j2: int| 0 <= j2 < j ==> (#[trigger] cold[j2]).doc_id != d
}
/// candidates = union of the ids of both inputs; a hot candidate keeps its hot distance, every other one its cold distance
pub open spec fn merged_props(hot: HotSeq, cold: ColdSeq, m: DMap) -> bool {
    &&& forall|d: u64| #[trigger] m.contains_key(d) <==> (hot_has(hot, hot.len() as int, d) || cold_has(cold, cold.len() as int, d))
    &&& forall|d: u64| #[trigger] m.contains_key(d) && hot_has(hot, hot.len() as int, d) ==> hot_src(hot, hot.len() as int, d, m[d])
    &&& forall|d: u64| #[trigger] m.contains_key(d) && !hot_has(hot, hot.len() as int, d) ==> cold_src(cold, cold.len() as int, d, m[d])
}
pub proof fn lemma_hot_map(hot: HotSeq, n: int)
    requires 0 <= n <= hot.len(),
    ensures
        forall|d: u64| #[trigger] hot_map(hot, n).contains_key(d) <==> hot_has(hot, n, d),
        forall|d: u64| #[trigger] hot_map(hot, n).contains_key(d) ==> hot_src(hot, n, d, hot_map(hot, n)[d]),
    decreases n
{
    if n > 0 {
        lemma_hot_map(hot, n - 1);
        let p = hot_map(hot, n - 1);
        let h = hot[n - 1];
        let m = hot_map(hot, n);
        assert forall|d: u64| #[trigger] m.contains_key(d) <==> hot_has(hot, n, d) by {
            if d == h.0 { assert(hot[n - 1].0 == d); }
            else if p.contains_key(d) {
                let i = choose|i: int| 0 <= i < n - 1 && (#[trigger] hot[i]).0 == d;
                assert(hot[i].0 == d);
            } else if hot_has(hot, n, d) {
                let i = choose|i: int| 0 <= i < n && (#[trigger] hot[i]).0 == d;
                assert(i < n - 1);
                assert(hot_has(hot, n - 1, d));
            }
        }
        assert forall|d: u64| #[trigger] m.contains_key(d) implies hot_src(hot, n, d, m[d]) by {
            if d == h.0 { assert(hot[n - 1] == (d, m[d])); }
            else {
                assert(hot_src(hot, n - 1, d, p[d]));
                let i = choose|i: int| 0 <= i < n - 1 && #[trigger] hot[i] == (d, p[d]) && forall|i2: int| i < i2 < n - 1 ==> (#[trigger] hot[i2]).0 != d;
                assert(hot[i] == (d, m[d]));
            }
        }
    }
}
pub proof fn lemma_cold_map(m0: DMap, cold: ColdSeq, n: int)
    requires 0 <= n <= cold.len(),
    ensures
        forall|d: u64| #[trigger] cold_map(m0, cold, n).contains_key(d) <==> (m0.contains_key(d) || cold_has(cold, n, d)),
        forall|d: u64| #[trigger] m0.contains_key(d) ==> cold_map(m0, cold, n)[d] == m0[d],
        forall|d: u64| #[trigger] cold_map(m0, cold, n).contains_key(d) && !m0.contains_key(d) ==> cold_src(cold, n, d, cold_map(m0, cold, n)[d]),
    decreases n
{
    if n > 0 {
        lemma_cold_map(m0, cold, n - 1);
        let p = cold_map(m0, cold, n - 1);
        let c = cold[n - 1];
        let m = cold_map(m0, cold, n);
        assert forall|d: u64| #[trigger] m.contains_key(d) <==> (m0.contains_key(d) || cold_has(cold, n, d)) by {
            if d == c.doc_id { assert(cold[n - 1].doc_id == d); }
            else if p.contains_key(d) {
                if !m0.contains_key(d) {
                    let j = choose|j: int| 0 <= j < n - 1 && (#[trigger] cold[j]).doc_id == d;
                    assert(cold[j].doc_id == d);
                }
            } else if cold_has(cold, n, d) {
                let j = choose|j: int| 0 <= j < n && (#[trigger] cold[j]).doc_id == d;
                assert(j < n - 1);
                assert(cold_has(cold, n - 1, d));
            }
        }
        assert forall|d: u64| #[trigger] m.contains_key(d) && !m0.contains_key(d) implies cold_src(cold, n, d, m[d]) by {
            if p.contains_key(d) {
                assert(cold_src(cold, n - 1, d, p[d]));
                let j = choose|j: int| 0 <= j < n - 1 && (#[trigger] cold[j]).doc_id == d && cold[j].distance == p[d] && forall|j2: int| 0 <= j2 < j ==> (#[trigger] cold[j2]).doc_id != d;
                assert(cold[j].doc_id == d && cold[j].distance == m[d]);
            } else {
                assert(d == c.doc_id);
                assert(!cold_has(cold, n - 1, d));
                assert(cold[n - 1].doc_id == d && cold[n - 1].distance == m[d]);
                assert forall|j2: int| 0 <= j2 < n - 1 implies (#[trigger] cold[j2]).doc_id != d by {}
            }
        }
    }
}
pub proof fn lemma_merged_props(hot: HotSeq, cold: ColdSeq)
    ensures merged_props(hot, cold, merged_spec(hot, cold)),
{
    lemma_hot_map(hot, hot.len() as int);
    lemma_cold_map(hot_map(hot, hot.len() as int), cold, cold.len() as int);
}

// ---------------------------------------------------------------- the comparison used by the sort
pub open spec fn dist_cmp(a: f32, b: f32) -> CmpOrdering {
    match a.partial_cmp_spec(&b) { Some(o) => o, None => CmpOrdering::Equal }
}
pub open spec fn dist_le(a: f32, b: f32) -> bool { dist_cmp(a, b) != CmpOrdering::Greater }
/// hypothesis of the ordering clauses: the comparison is a total preorder on the distances that occur in `m`
pub open spec fn dist_total_preorder(m: DMap) -> bool {
    &&& forall|a: u64, b: u64| m.contains_key(a) && m.contains_key(b) ==> #[trigger] dist_cmp(m[b], m[a]) == ord_rev(#[trigger] dist_cmp(m[a], m[b]))
    &&& forall|a: u64, b: u64, c: u64| m.contains_key(a) && m.contains_key(b) && m.contains_key(c)
            && #[trigger] dist_le(m[a], m[b]) && #[trigger] dist_le(m[b], m[c]) ==> dist_le(m[a], m[c])
}
/// what the abstracted `into_iter().map().collect()` delivers
pub open spec fn collected(m: DMap, v: ColdSeq) -> bool {
    &&& v.len() == m.len()
    &&& forall|i: int| 0 <= i < v.len() ==> m.contains_key((#[trigger] v[i]).doc_id) && m[v[i].doc_id] == v[i].distance
    &&& forall|i: int, j: int| 0 <= i < j < v.len() ==> (#[trigger] v[i]).doc_id != (#[trigger] v[j]).doc_id
    &&& forall|d: u64| m.contains_key(d) ==> exists|i: int| 0 <= i < v.len() && (#[trigger] v[i]).doc_id == d
}
pub open spec fn has_id(r: ColdSeq, d: u64) -> bool { exists|j: int| 0 <= j < r.len() && (#[trigger] r[j]).doc_id == d }
pub open spec fn sorted_dist(s: ColdSeq) -> bool {
    forall|i: int, j: int| 0 <= i < j < s.len() ==> dist_le((#[trigger] s[i]).distance, (#[trigger] s[j]).distance)
}
/// result clauses that do not depend on the order
pub open spec fn result_unordered(m: DMap, r: ColdSeq, k: int) -> bool {
    &&& r.len() == (if m.len() <= k { m.len() as int } else { k })
    &&& forall|a: int, b: int| 0 <= a < b < r.len() ==> (#[trigger] r[a]).doc_id != (#[trigger] r[b]).doc_id
    &&& forall|j: int| 0 <= j < r.len() ==> m.contains_key((#[trigger] r[j]).doc_id) && r[j].distance == m[r[j].doc_id]
}
/// result clauses that need the comparison to be a total preorder
pub open spec fn result_ordered(m: DMap, r: ColdSeq) -> bool {
    &&& sorted_dist(r)
    &&& forall|d: u64, j: int| #![trigger m.contains_key(d), r[j]] m.contains_key(d) && !has_id(r, d) && 0 <= j < r.len() ==> dist_le(r[j].distance, m[d])
}
