// The cold tier as the engine sees it, DEFINED over the DocumentStore (inside verus!, after DocumentStore / HnswBackend /
// VectorCoherenceToken and prelude/store_tokens_spec.rs).  Used by the implication units implied_cold_tier and implied_cold_tier_filter.
// Meta / ColdView / merge_meta / token_of / vec_of / meta_of are hand copies of the definitions in prelude/engine_env.rs (that file
// cannot be included next to the real HnswBackend struct: it declares HnswBackend as an opaque stub); `view()` -- `uninterp` there --
// is the abstraction function.  Pure spec text.
pub type Meta = Map<String, String>;
pub type ColdView = Map<u64, (Seq<f32>, Meta, VectorCoherenceToken)>;
pub open spec fn merge_meta(old_m: Meta, new_m: Meta, merge: bool) -> Meta { if merge { old_m.union_prefer_right(new_m) } else { new_m } }

impl HnswBackend {
    /// ABSTRACTION FUNCTION: the canonical collection the engine sees = the live documents of the DocumentStore with
    /// (exact vector bits of embeddings[slot], view of metadata[slot], token (versions[slot], digests[slot])).
    /// The token is read off `tokens()` (prelude/store_tokens_spec.rs: tokens()[d] == (versions[slot(d)], digests[slot(d)])), which is
    /// `DocumentStore::token_of(d)` of backend_env.rs field by field; this form lets the write-path contracts (stated over tokens())
    /// apply without an auxiliary lemma
    pub open spec fn view(&self) -> ColdView {
        Map::new(
            self.doc_store@.dom(),
            |d: u64| (self.doc_store@[d].0, self.doc_store@[d].1,
                      VectorCoherenceToken { version: self.doc_store.tokens()[d].0, digest: self.doc_store.tokens()[d].1 }),
        )
    }
    pub open spec fn token_of(&self, d: u64) -> Option<VectorCoherenceToken> { if self@.contains_key(d) { Some(self@[d].2) } else { None } }
    pub open spec fn vec_of(&self, d: u64) -> Seq<f32> { self@[d].0 }
    pub open spec fn meta_of(&self, d: u64) -> Meta { self@[d].1 }
}
