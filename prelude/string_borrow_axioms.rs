// HashMap<String, V> accessed through a `&str` key (String: Borrow<str>); trusted, inside verus!.
// vstd leaves `borrowed_key_removed` / `contains_borrowed_key` / `maps_borrowed_key_to_value` uninterpreted for Q = str.
//@trusted HashMap<String,V>::remove(&str): a String key s is the one removed iff s@ == k@ (String: Borrow<str> is the identity on contents)
#[verifier::external_body] pub broadcast proof fn axiom_str_key_removed<V>(pre: Map<String, V>, post: Map<String, V>, k: &str)
    ensures #[trigger] borrowed_key_removed::<String, V, str>(pre, post, k) ==> {
        &&& forall|s: String| #![trigger post.contains_key(s)] post.contains_key(s) <==> (pre.contains_key(s) && s@ != k@)
        &&& forall|s: String| #![trigger post[s]] post.contains_key(s) ==> post[s] == pre[s]
    } {}
