// Spec vocabulary of WAL compaction (units compaction, snapshot_publish); inside verus!.
// Needs `WalEntry`, `Manifest` (items) and prelude/segment_env.rs in scope; pure spec text, nothing trusted.
// ---- oracle (DESIGN.md section 4): an entry the snapshot (S, T) already contains
pub open spec fn covered(e: WalEntry, s: u64, t: u64) -> bool {
    (s > 0 && e.seq_no > 0 && e.seq_no <= s) || (e.seq_no == 0 && t > 0 && e.timestamp > 0 && e.timestamp <= t)
}
pub open spec fn all_covered(es: Seq<WalEntry>, n: int, s: u64, t: u64) -> bool {
    forall|i: int| 0 <= i < n ==> covered(#[trigger] es[i], s, t)
}
pub open spec fn no_unknown_ts(es: Seq<WalEntry>) -> bool {
    forall|i: int| 0 <= i < es.len() ==> !((#[trigger] es[i]).seq_no == 0 && es[i].timestamp == 0)
}
// why a name may leave the MANIFEST list
pub open spec fn drop_justified(name: Seq<char>, s: u64, t: u64) -> bool {
    ||| seg_missing(name)
    ||| (seg_clean(name) && all_covered(seg_entries(name), seg_entries(name).len() as int, s, t) && no_unknown_ts(seg_entries(name)))
}
pub open spec fn kept(k: Seq<String>, name: Seq<char>) -> bool {
    exists|j: int| 0 <= j < k.len() && (#[trigger] k[j])@ == name
}
// why a file may be handed to the caller for deletion: it was there, read completely, and the snapshot holds all of it
pub open spec fn present_covered(name: Seq<char>, s: u64, t: u64) -> bool {
    seg_present(name) && seg_clean(name) && all_covered(seg_entries(name), seg_entries(name).len() as int, s, t) && no_unknown_ts(seg_entries(name))
}
pub open spec fn returned(d: Seq<PathBuf>, name: Seq<char>) -> bool {
    exists|k: int| 0 <= k < d.len() && (#[trigger] d[k]).name() == name
}
// d names an order-preserving sublist of b[0..n) through the strictly increasing index map g
pub open spec fn paths_by(d: Seq<PathBuf>, b: Seq<String>, g: Seq<int>, n: int) -> bool {
    &&& g.len() == d.len()
    &&& forall|i: int| #![trigger g[i]] #![trigger d[i]] 0 <= i < g.len() ==> 0 <= g[i] < n && d[i].name() == b[g[i]]@
    &&& forall|i: int, j: int| 0 <= i < j < g.len() ==> #[trigger] g[i] < #[trigger] g[j]
}
pub open spec fn distinct_names(b: Seq<String>) -> bool {
    forall|i: int, j: int| 0 <= i < j < b.len() ==> (#[trigger] b[i])@ != (#[trigger] b[j])@
}
// a is an order-preserving sublist of b[0..n) through the strictly increasing index map f
pub open spec fn sublist_by(a: Seq<String>, b: Seq<String>, f: Seq<int>, n: int) -> bool {
    &&& f.len() == a.len()
    &&& forall|i: int| #![trigger f[i]] #![trigger a[i]] 0 <= i < f.len() ==> 0 <= f[i] < n && a[i]@ == b[f[i]]@
    &&& forall|i: int, j: int| 0 <= i < j < f.len() ==> #[trigger] f[i] < #[trigger] f[j]
}
pub open spec fn same_but_segments(a: Manifest, b: Manifest) -> bool {
    a.version == b.version && a.latest_snapshot == b.latest_snapshot && a.latest_snapshot_wal_seq == b.latest_snapshot_wal_seq && a.last_updated == b.last_updated
}
