// cheap stand-in for the `anyhow` crate in Kani harness crates (format arguments are dropped; real anyhow + format!
// made CBMC exceed 25 min in the design-phase probe)
#[allow(unused_macros, dead_code)]
pub mod anyhow {
    #[derive(Debug)]
    pub struct Error;
    pub type Result<T> = core::result::Result<T, Error>;
    impl<E: std::error::Error> From<E> for Error { fn from(_e: E) -> Self { Error } }
    macro_rules! bail { ($($t:tt)*) => { return Err(crate::anyhow::Error) } }
    pub(crate) use bail;
    macro_rules! ensure { ($c:expr, $($t:tt)*) => { if !($c) { return Err(crate::anyhow::Error); } } }
    pub(crate) use ensure;
    macro_rules! anyhow { ($($t:tt)*) => { crate::anyhow::Error } }
    pub(crate) use anyhow;
}
