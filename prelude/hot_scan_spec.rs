// Vocabulary of the contracts of the hot-tier exhaustive scan (inside verus!, after sort_specs.rs and hot_tier_spec.rs).  Shared by unit
// hot_scan (which PROVES HotTier::knn_search / knn_search_with_cancel against it on the real text) and by the units that see the scan through
// the generated stubs `//@stub hot_scan HotTier::knn_search[_with_cancel]` (implied_storage).  Pure spec text, uninterpreted functions and the
// stub of the cancellation flag (AtomicBool::load true = observation `ever_set`); no axiom about f32 lives here.
//@item engine/src/hot_tier.rs struct TopKCandidate
//@ derive Clone, Copy
//@end
// ---- f32 / Ordering vocabulary (the assume_specifications that tie f32::is_finite / f32::total_cmp to these functions live in unit hot_scan)
pub uninterp spec fn ffinite(a: f32) -> bool;
pub uninterp spec fn ftotal(a: f32, b: f32) -> CmpOrdering;
pub open spec fn u64_cmp(a: u64, b: u64) -> CmpOrdering {
    if a < b { CmpOrdering::Less } else if a == b { CmpOrdering::Equal } else { CmpOrdering::Greater }
}
pub open spec fn fle(a: f32, b: f32) -> bool { ftotal(a, b) != CmpOrdering::Greater }
/// HYPOTHESIS (IEEE 754 totalOrder): total_cmp is a total preorder whose two directions agree
pub open spec fn total_cmp_is_total_order() -> bool {
    &&& forall|a: f32, b: f32| #[trigger] ftotal(b, a) == ord_rev(ftotal(a, b))
    &&& forall|a: f32, b: f32, c: f32| #[trigger] fle(a, b) && #[trigger] fle(b, c) ==> fle(a, c)
}
/// the order of TopKCandidate (what `Ord::cmp` computes: proved below)
pub open spec fn cand_cmp(a: TopKCandidate, b: TopKCandidate) -> CmpOrdering {
    if ftotal(a.distance, b.distance) != CmpOrdering::Equal { ftotal(a.distance, b.distance) } else { u64_cmp(a.doc_id, b.doc_id) }
}
/// a is not closer than b
pub open spec fn cge(a: TopKCandidate, b: TopKCandidate) -> bool { cand_cmp(a, b) != CmpOrdering::Less }
// ---- cancellation flag
pub enum Ordering { Relaxed, Acquire, SeqCst }
#[verifier::external_body] pub struct AtomicBool { _p: core::marker::PhantomData<()> }
pub uninterp spec fn ever_set(f: &AtomicBool) -> bool;
impl AtomicBool {
    #[verifier::external_body] pub fn load(&self, o: Ordering) -> (r: bool) ensures r ==> ever_set(self) { unimplemented!() }
}
pub open spec fn cancel_seen(c: Option<&AtomicBool>) -> bool { c is Some && ever_set(c.unwrap()) }

// ---- distance of a document: the kernel of the configured metric on (query, query norm, embedding, cached norm)
pub uninterp spec fn l2_spec(v: Seq<f32>) -> f32;
pub uninterp spec fn cos_k(a: Seq<f32>, an: f32, b: Seq<f32>, bn: f32) -> f32;
pub uninterp spec fn l2_k(a: Seq<f32>, b: Seq<f32>) -> f32;
pub uninterp spec fn dot_k(a: Seq<f32>, an: f32, b: Seq<f32>, bn: f32) -> f32;
pub open spec fn dist_of(metric: DistanceMetric, q: Seq<f32>, d: HotDocument) -> f32 {
    match metric {
        DistanceMetric::Cosine => cos_k(q, l2_spec(q), d.embedding@, d.embedding_l2_norm),
        DistanceMetric::Euclidean => l2_k(q, d.embedding@),
        DistanceMetric::InnerProduct => dot_k(q, l2_spec(q), d.embedding@, d.embedding_l2_norm),
    }
}
pub struct Ctx { pub m: Map<u64, HotDocument>, pub metric: DistanceMetric, pub q: Seq<f32> }
pub open spec fn cand_of(c: Ctx, id: u64) -> TopKCandidate { TopKCandidate { doc_id: id, distance: dist_of(c.metric, c.q, c.m[id]) } }
/// id is a document of the map with a finite distance (the only documents the scan keeps)
pub open spec fn eligible(c: Ctx, id: u64) -> bool { c.m.contains_key(id) && ffinite(dist_of(c.metric, c.q, c.m[id])) }
pub open spec fn res_cand(p: (u64, f32)) -> TopKCandidate { TopKCandidate { doc_id: p.0, distance: p.1 } }
pub open spec fn listed(r: Seq<(u64, f32)>, id: u64) -> bool { exists|i: int| 0 <= i < r.len() && (#[trigger] r[i]).0 == id }

// ---- the answer
/// every entry is a document of the map, carries ITS distance (finite), ids are distinct, at most k entries
pub open spec fn answer_sound(c: Ctx, r: Seq<(u64, f32)>, k: usize) -> bool {
    &&& r.len() <= k
    &&& forall|i: int| 0 <= i < r.len() ==> eligible(c, (#[trigger] r[i]).0) && r[i].1 == dist_of(c.metric, c.q, c.m[r[i].0])
    &&& forall|i: int, j: int| 0 <= i < j < r.len() ==> (#[trigger] r[i]).0 != (#[trigger] r[j]).0
}
/// a document with a finite distance that is missing from the answer is not closer than ANY returned entry, and the answer is full
pub open spec fn answer_complete(c: Ctx, r: Seq<(u64, f32)>, k: usize) -> bool {
    forall|id: u64| #[trigger] eligible(c, id) && !listed(r, id)
        ==> r.len() == k && forall|i: int| 0 <= i < r.len() ==> cge(cand_of(c, id), res_cand(#[trigger] r[i]))
}
pub open spec fn answer_sorted(r: Seq<(u64, f32)>) -> bool {
    forall|i: int, j: int| 0 <= i < j < r.len() ==> cand_cmp(res_cand(#[trigger] r[i]), res_cand(#[trigger] r[j])) != CmpOrdering::Greater
}

impl HotTier {
    pub open spec fn ctx(&self, q: Seq<f32>) -> Ctx { Ctx { m: self.documents@, metric: self.distance, q: q } }
}
