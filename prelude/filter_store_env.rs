// The DocumentStore / HnswBackend side of the C11 filter units (inside verus!, after filter_env.rs and filter_index_env.rs).
// Same `wf` / `view` text as prelude/backend_env.rs, which cannot be included next to filter_index_env.rs because it declares
// MetadataInvertedIndex as an opaque stub.  Pure spec text and extracted items; nothing here is trusted.
//@item engine/src/coherence.rs struct VectorIntegrityDigest
//@ derive Debug, Clone, Copy, PartialEq, Eq, Structural
//@end
//@item engine/src/hnsw_backend.rs struct DocumentStore
//@end
impl DocumentStore {
    pub open spec fn wf(&self) -> bool {
        let n = self.embeddings@.len();
        &&& self.metadata@.len() == n
        &&& self.versions@.len() == n
        &&& self.digests@.len() == n
        &&& self.internal_to_external@.len() == n
        &&& forall|d: u64| #[trigger] self.external_to_internal@.contains_key(d) ==>
                self.external_to_internal@[d] < n && self.internal_to_external@[self.external_to_internal@[d] as int] == Some(d)
        &&& forall|i: int| 0 <= i < n && (#[trigger] self.internal_to_external@[i]).is_some() ==>
                self.external_to_internal@.contains_key(self.internal_to_external@[i].unwrap())
                && self.external_to_internal@[self.internal_to_external@[i].unwrap()] == i
    }
    pub open spec fn view(&self) -> Map<u64, (Seq<f32>, Map<String, String>)> {
        Map::new(
            self.external_to_internal@.dom(),
            |d: u64| (self.embeddings@[self.external_to_internal@[d] as int]@, self.metadata@[self.external_to_internal@[d] as int]@),
        )
    }
    /// external id stored in slot `i` (None: tombstone or out of range)
    pub open spec fn slot_ext(&self, i: u64) -> Option<u64> {
        if (i as int) < self.internal_to_external@.len() { self.internal_to_external@[i as int] } else { None }
    }
}
#[verifier::external_body] pub struct HnswVectorIndex { _p: core::marker::PhantomData<()> }
#[verifier::external_body] pub struct PersistenceState { _p: core::marker::PhantomData<()> }
#[verifier::external_body] pub struct Flag { _p: core::marker::PhantomData<()> }
#[verifier::external_body] pub struct LockUnit { _p: core::marker::PhantomData<()> }
//@item engine/src/hnsw_backend.rs struct HnswBackend
//@ rw lock-erasure /Arc<RwLock<(HnswVectorIndex|DocumentStore|MetadataInvertedIndex)>>/ -> "\1" n=3
//@ rw component-erasure /Arc<AtomicBool>/ -> "Flag"
//@ rw lock-erasure /Arc<Mutex<\(\)>>/ -> "LockUnit"
//@end

pub open spec fn index_coherent(store: &DocumentStore, index: &MetadataInvertedIndex) -> bool {
    &&& index.numeric_docs_wf()
    &&& forall|i: u64| #[trigger] index.alive@.contains(i) <==> store.slot_ext(i).is_some()
    &&& forall|i: u64| #[trigger] index.alive@.contains(i) ==> (i as int) < store.metadata@.len() && index.meta(i) == meta_of(store.metadata@[i as int]@)
}

