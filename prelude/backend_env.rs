// Shared environment of the HnswBackend write/read path units (inside verus!).
//@assume sequential semantics: the caller owns every lock-protected field of HnswBackend for the whole call (lock-erasure mode A)
//@assume the WAL sequence counter and the statistics counters never wrap
//@trusted WalGuard::append / append_batch grant `logged(..)` only on Ok (link to bytes: units wal_writer / wal_reader)
//@trusted digest_embedding is a function of the exact f32 bit patterns (uninterpreted spec_digest)
//@assume normalisation is idempotent (stub normalize_in_place_if_needed: preflight_ok(input) && Ok ==> output == input, bit for bit): bounded evidence = Kani harness `normalize_is_idempotent` of units/preflight.kani (dimension 3, every f32 bit pattern, both copies of the function, sum_squares_f32 an arbitrary pure function); general argument: the second call sees the sum of squares the first call accepted
//@assume single-metric deployment: `preflight_ok(v)` is not indexed by the DistanceMetric, so the idempotence clause is sound only if every normalize_in_place_if_needed call of one process uses the same metric (TieredEngine::build_internal hands config.hnsw_distance to the HnswBackend constructors, recover refuses a snapshot of another metric, the index never changes its metric; none of this is verified)
use anyhow::{Result, Context};
//@include string_axioms.rs

//@item engine/src/persistence.rs enum WalOp
//@ derive Debug, Clone, Copy, PartialEq, Eq, Structural
//@end
//@item engine/src/persistence.rs struct WalEntry
//@end
//@item engine/src/config.rs enum DistanceMetric
//@ derive Debug, Clone, Copy, PartialEq, Eq, Structural
//@end
//@item engine/src/coherence.rs struct VectorIntegrityDigest
//@ derive Debug, Clone, Copy, PartialEq, Eq, Structural
//@end
//@item engine/src/coherence.rs struct VectorCoherenceToken
//@ derive Debug, Clone, Copy, PartialEq, Eq, Structural
//@end
impl VectorCoherenceToken {
//@fn engine/src/coherence.rs VectorCoherenceToken::new
//@ spec <<<
    ensures r.version == version, r.digest == digest
//@ >>>
//@end
}
//@item engine/src/persistence.rs enum FsyncPolicy
//@ derive Debug, Clone, Copy, PartialEq, Eq, Structural
//@end
pub uninterp spec fn spec_digest(e: Seq<f32>) -> VectorIntegrityDigest;
#[verifier::external_body]
pub fn digest_embedding(e: &[f32]) -> (r: VectorIntegrityDigest) ensures r == spec_digest(e@) { unimplemented!() }

// capability: this exact entry content was accepted by the log
pub uninterp spec fn logged(op: WalOp, doc_id: u64, seq_no: u64, emb: Seq<f32>, meta: Map<String, String>) -> bool;

#[verifier::external_body]
pub struct WalGuard { _p: core::marker::PhantomData<()> }
impl WalGuard {
    #[verifier::external_body]
    pub fn append(&mut self, entry: &WalEntry) -> (r: Result<()>)
        ensures r.is_ok() ==> logged(entry.op, entry.doc_id, entry.seq_no, entry.embedding@, entry.metadata@)
    { unimplemented!() }
    #[verifier::external_body]
    pub fn append_batch(&mut self, entries: &Vec<WalEntry>) -> (r: Result<()>)
        ensures r.is_ok() ==> forall|i: int| 0 <= i < entries@.len() ==>
            logged((#[trigger] entries@[i]).op, entries@[i].doc_id, entries@[i].seq_no, entries@[i].embedding@, entries@[i].metadata@)
    { unimplemented!() }
}
#[verifier::external_body]
pub struct WalLock { _p: core::marker::PhantomData<()> }
impl WalLock { #[verifier::external_body] pub fn write(&self) -> WalGuard { unimplemented!() } }

#[verifier::external_body]
pub struct CounterGuard { _p: core::marker::PhantomData<()> }
impl CounterGuard { pub uninterp spec fn view(&self) -> usize; }
impl core::ops::Deref for CounterGuard {
    type Target = usize;
    #[verifier::external_body]
    fn deref(&self) -> (r: &usize) ensures *r == self@ { unimplemented!() }
}
impl core::ops::DerefMut for CounterGuard {
    #[verifier::external_body]
    fn deref_mut(&mut self) -> (r: &mut usize) ensures *r == old(self)@, *final(r) == final(self)@ { unimplemented!() }
}
#[verifier::external_body]
pub struct CounterLock { _p: core::marker::PhantomData<()> }
impl CounterLock {
    // assumption: the per-snapshot write counter stays far below usize::MAX (it is reset at every snapshot)
    #[verifier::external_body] pub fn write(&self) -> (g: CounterGuard) ensures g@ < usize::MAX / 2 { unimplemented!() }
}

#[verifier::external_body]
pub struct PathBuf { _p: core::marker::PhantomData<()> }
impl PathBuf {
    #[verifier::external_body] pub fn join(&self, s: &str) -> PathBuf { unimplemented!() }
    #[verifier::external_body] pub fn exists(&self) -> bool { unimplemented!() }
    #[verifier::external_body] pub fn display(&self) -> u8 { unimplemented!() }
}
#[verifier::external_body]
fn check_and_warn_disk_space(p: &PathBuf) -> Result<bool> { unimplemented!() }
//@item engine/src/hnsw_backend.rs const DISK_SPACE_CRITICAL_THRESHOLD
//@end

#[verifier::external_body]
pub struct SeqCounter { _p: core::marker::PhantomData<()> }
pub enum Ordering { SeqCst, Relaxed, Acquire, Release, AcqRel }
impl SeqCounter {
    // assumption: the WAL sequence counter never wraps
    #[verifier::external_body] pub fn fetch_add(&self, n: u64, o: Ordering) -> (r: u64) ensures r < u64::MAX / 2 { unimplemented!() }
    #[verifier::external_body] pub fn load(&self, o: Ordering) -> (r: u64) ensures r < u64::MAX / 2 { unimplemented!() }
}
#[verifier::external_body]
pub struct Flag { _p: core::marker::PhantomData<()> }
impl Flag {
    #[verifier::external_body] pub fn load(&self, o: Ordering) -> bool { unimplemented!() }
    #[verifier::external_body] pub fn store(&self, v: bool, o: Ordering) { unimplemented!() }
}
#[verifier::external_body]
pub struct LockUnit { _p: core::marker::PhantomData<()> }
impl LockUnit {
    #[verifier::external_body] pub fn read(&self) -> u8 { unimplemented!() }
    #[verifier::external_body] pub fn write(&self) -> u8 { unimplemented!() }
    #[verifier::external_body] pub fn lock(&self) -> u8 { unimplemented!() }
}
#[verifier::external_body]
pub fn drop<T>(t: T) { unimplemented!() }
#[verifier::external_body]
pub struct WalErrorHandler { _p: core::marker::PhantomData<()> }
#[verifier::external_body]
pub struct MetricsCollector { _p: core::marker::PhantomData<()> }

//@item engine/src/hnsw_backend.rs struct PersistenceState
//@ rw lock-erasure /Arc<RwLock<WalWriter>>/ -> "WalLock"
//@ rw lock-erasure /Arc<RwLock<usize>>/ -> "CounterLock"
//@ rw lock-erasure /Arc<RwLock<\(\)>>/ -> "LockUnit"
//@ rw lock-erasure /Arc<Mutex<\(\)>>/ -> "LockUnit"
//@ rw component-erasure /Arc<AtomicU64>/ -> "SeqCounter"
//@ rw component-erasure /Arc<WalErrorHandler>/ -> "WalErrorHandler"
//@end
impl PersistenceState {
    #[verifier::external_body]
    fn rotate_wal_if_needed(&self, wal_guard: &mut WalGuard) -> Result<bool> { unimplemented!() }
}

//@item engine/src/hnsw_backend.rs struct DocumentStore
//@end
impl DocumentStore {
    pub open spec fn wf(&self) -> bool {
        let n = self.embeddings@.len();
        &&& self.metadata@.len() == n
        &&& self.versions@.len() == n
        &&& self.digests@.len() == n
        &&& self.internal_to_external@.len() == n
        &&& forall|d: u64| #[trigger] self.external_to_internal@.contains_key(d) ==>
                self.external_to_internal@[d] < n && self.internal_to_external@[self.external_to_internal@[d] as int] == Some(d)
        &&& forall|i: int| 0 <= i < n && (#[trigger] self.internal_to_external@[i]).is_some() ==>
                self.external_to_internal@.contains_key(self.internal_to_external@[i].unwrap())
                && self.external_to_internal@[self.internal_to_external@[i].unwrap()] == i
    }
    pub open spec fn view(&self) -> Map<u64, (Seq<f32>, Map<String, String>)> {
        Map::new(
            self.external_to_internal@.dom(),
            |d: u64| (self.embeddings@[self.external_to_internal@[d] as int]@, self.metadata@[self.external_to_internal@[d] as int]@),
        )
    }
}
impl DocumentStore {
    // canonical coherence token of a live document (oracle `cold.token_of(id)` of DESIGN.md C04)
    pub open spec fn token_of(&self, d: u64) -> VectorCoherenceToken {
        VectorCoherenceToken {
            version: self.versions@[self.external_to_internal@[d] as int],
            digest: self.digests@[self.external_to_internal@[d] as int],
        }
    }
    // `o` is exactly what the canonical view holds for id `d` (None iff `d` is not live)
    pub open spec fn fetched(&self, d: u64, o: Option<(Vec<f32>, HashMap<String, String>)>) -> bool {
        &&& o.is_some() == self@.contains_key(d)
        &&& o.is_some() ==> o.unwrap().0@ == self@[d].0 && o.unwrap().1@ =~= self@[d].1
    }
    pub open spec fn fetched_with_token(&self, d: u64, o: Option<(Vec<f32>, HashMap<String, String>, VectorCoherenceToken)>) -> bool {
        &&& o.is_some() == self@.contains_key(d)
        &&& o.is_some() ==> o.unwrap().0@ == self@[d].0 && o.unwrap().1@ =~= self@[d].1 && o.unwrap().2 == self.token_of(d)
    }
}

#[verifier::external_body]
fn vx_count_tombstones(s: &DocumentStore) -> usize { unimplemented!() }
#[verifier::external_body]
fn vx_map_extend(m: &mut HashMap<String, String>, other: HashMap<String, String>)
    ensures final(m)@ == old(m)@.union_prefer_right(other@) { unimplemented!() }

#[verifier::external_body]
pub struct MetadataInvertedIndex { _p: core::marker::PhantomData<()> }
impl MetadataInvertedIndex {
    #[verifier::external_body] fn remove_doc(&mut self, doc_id: u64, metadata: &HashMap<String, String>) { unimplemented!() }
    #[verifier::external_body] fn insert_doc(&mut self, doc_id: u64, metadata: &HashMap<String, String>) { unimplemented!() }
    #[verifier::external_body] fn replace_doc(&mut self, doc_id: u64, o: &HashMap<String, String>, n: &HashMap<String, String>) { unimplemented!() }
}
#[verifier::external_body]
pub struct HnswVectorIndex { _p: core::marker::PhantomData<()> }
impl HnswVectorIndex {
    #[verifier::external_body] fn distance_metric(&self) -> DistanceMetric { unimplemented!() }
    // ghost: would the index refuse a new element for lack of space
    pub uninterp spec fn full_spec(&self) -> bool;
    #[verifier::external_body] fn is_full(&self) -> (r: bool) ensures r == self.full_spec() { unimplemented!() }
    #[verifier::external_body] fn len(&self) -> usize { unimplemented!() }
    #[verifier::external_body] fn capacity(&self) -> usize { unimplemented!() }
    // C03 / C15 call-site obligation: everything the index can reject must have been rejected BEFORE the call (and hence before
    // the log append that precedes it): the index is not full and the vector passed the pre-flight (normalisation Ok).  That the
    // pre-flight accepts only what add_vector accepts is the Kani unit `preflight`.
    #[verifier::external_body] fn add_vector(&mut self, id: u64, e: &[f32]) -> Result<()>
        requires !old(self).full_spec(), preflight_ok(e@),
    { unimplemented!() }
    #[verifier::external_body] fn complete_sequential_inserts(&mut self) { unimplemented!() }
}
// capability: this exact vector passed the engine's pre-flight (granted only by normalize_in_place_if_needed Ok)
pub uninterp spec fn preflight_ok(v: Seq<f32>) -> bool;
#[verifier::external_body]
fn normalize_in_place_if_needed(distance: DistanceMetric, embedding: &mut Vec<f32>) -> (r: Result<()>)
    ensures final(embedding)@.len() == old(embedding)@.len(), r.is_ok() ==> preflight_ok(final(embedding)@),
        // idempotence: a vector that already passed the pre-flight (same metric) is accepted again and no bit of it changes
        preflight_ok(old(embedding)@) && r.is_ok() ==> final(embedding)@ == old(embedding)@,
{ unimplemented!() }

//@item engine/src/hnsw_backend.rs struct HnswBackend
//@ rw lock-erasure /Arc<RwLock<(HnswVectorIndex|DocumentStore|MetadataInvertedIndex)>>/ -> "\1" n=3
//@ rw component-erasure /Arc<AtomicBool>/ -> "Flag"
//@ rw lock-erasure /Arc<Mutex<\(\)>>/ -> "LockUnit"
//@end
