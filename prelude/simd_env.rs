// Environment of the x86_64 SIMD kernels of engine/src/simd.rs (inside verus!; include f32_shape.rs first).
// Nothing here has a body taken from /repo: it is the memory model the kernels are checked against.
//
//  * VxPtr            ghost-tracked `*const f32` / `*mut f32`: (lanes of the slice or array it was derived from, lane offset)
//  * .vx_as_ptr()     stands for `<[f32]>::as_ptr()`        (declared std-rename)
//  * .vx_as_mut_ptr() stands for `<[f32; N]>::as_mut_ptr()` (declared std-rename)
//  * VxPtr::add(n)    `pointer::add`: REQUIRES off + n <= len (inside the allocation or one past its end)
//  * _mm*_loadu_ps / _mm*_storeu_ps   REQUIRE off + W <= len for W = 4 / 8 / 16 lanes: the whole vector lies inside the object
//  * every other intrinsic touches no memory: opaque external_body stub on the opaque register types __m128 / __m256 / __m512
//  * .vx_step_by(k)   stands for `Range<usize>::step_by(k)`: yields start, start + k, ... while < end
//  * vx_at(s, i)      stands for the safe index expression `s[i]` (same bounds condition)
//  * .vx_hsum()       stands for `<[f32; N]>::iter().sum()` (value only)
//@trusted SIMD pointer model (prelude/simd_env.rs): `s.as_ptr()` on a `&[f32]` / `t.as_mut_ptr()` on a `[f32; N]` becomes the ghost pair VxPtr { len = lanes of s / N, off = 0 }; `p.add(n)` REQUIRES p.off + n <= p.len (pointer::add must stay inside the allocation or one past its end) and yields off + n; `_mm_loadu_ps(p)` / `_mm256_loadu_ps(p)` / `_mm512_loadu_ps(p)` REQUIRE p.off + 4 / 8 / 16 <= p.len, `_mm*_storeu_ps(p, v)` the same on the destination; unaligned variants: no alignment condition.  Pointer casts `as *const _` / `as *mut _` are erased (same address, the intrinsic fixes the access width)
//@trusted the arithmetic intrinsics `_mm*_setzero_ps`, `_mm*_add_ps`, `_mm*_sub_ps`, `_mm*_mul_ps`, `_mm256/512_fmadd_ps` are opaque functions on opaque register types (they touch no memory; their values are not specified); `[f32; N]::iter().sum()` is the opaque vx_hsum; a store through a VxPtr does not change the modelled value of the array it points into (lane values never reach an index or a trip count)
//@trusted `(a..b).step_by(k)` is the iterator VxStepBy (prelude/simd_env.rs): it REQUIRES k > 0 (std panics on 0) and yields exactly a, a + k, a + 2k, ... for as long as the value is < b (std's StepBy<Range<usize>>); its `next` is an external_body stub that obeys vstd's prophetic iterator laws for this sequence
use core::ops::Range;

// ---------------------------------------------------------------- opaque vector registers
#[allow(non_camel_case_types)]
#[verifier::external_body]
#[derive(Clone, Copy)]
pub struct __m128 { _v: [f32; 4] }
#[allow(non_camel_case_types)]
#[verifier::external_body]
#[derive(Clone, Copy)]
pub struct __m256 { _v: [f32; 8] }
#[allow(non_camel_case_types)]
#[verifier::external_body]
#[derive(Clone, Copy)]
pub struct __m512 { _v: [f32; 16] }

// ---------------------------------------------------------------- the pointer model
/// a `*const f32` / `*mut f32` derived from a slice or array of `len` lanes, currently `off` lanes past its start
pub struct VxPtr { pub len: Ghost<int>, pub off: Ghost<int> }
impl Clone for VxPtr {
    fn clone(&self) -> (r: Self) ensures r == *self { VxPtr { len: self.len, off: self.off } }
}
impl Copy for VxPtr {}

impl VxPtr {
    /// `p.add(n)`: undefined behaviour unless the result stays inside the allocation (or one past its end)
    pub fn add(self, n: usize) -> (r: VxPtr)
        requires 0 <= self.off@ + n <= self.len@,
        ensures r.len@ == self.len@, r.off@ == self.off@ + n,
    { VxPtr { len: self.len, off: Ghost(self.off@ + n as int) } }
}

/// `s.as_ptr()` for a slice of f32
pub trait VxAsPtr {
    spec fn vx_lanes(&self) -> int;
    fn vx_as_ptr(&self) -> (p: VxPtr)
        ensures p.len@ == self.vx_lanes(), p.off@ == 0;
}
impl VxAsPtr for [F32] {
    open spec fn vx_lanes(&self) -> int { self@.len() as int }
    fn vx_as_ptr(&self) -> (p: VxPtr) { VxPtr { len: Ghost(self@.len() as int), off: Ghost(0) } }
}
impl<const N: usize> VxAsPtr for [f32; N] {
    open spec fn vx_lanes(&self) -> int { N as int }
    fn vx_as_ptr(&self) -> (p: VxPtr) { VxPtr { len: Ghost(N as int), off: Ghost(0) } }
}
/// `t.as_mut_ptr()` for a stack array of f32 (the 4 / 8 / 16 lane temporaries)
pub trait VxAsMutPtr {
    spec fn vx_mut_lanes(&self) -> int;
    fn vx_as_mut_ptr(&mut self) -> (p: VxPtr)
        ensures p.len@ == old(self).vx_mut_lanes(), p.off@ == 0;
}
impl<const N: usize> VxAsMutPtr for [f32; N] {
    open spec fn vx_mut_lanes(&self) -> int { N as int }
    fn vx_as_mut_ptr(&mut self) -> (p: VxPtr) { VxPtr { len: Ghost(N as int), off: Ghost(0) } }
}
/// `t.iter().sum()` for a stack array of f32: value only
pub trait VxHsum { fn vx_hsum(&self) -> (r: F32); }
impl<const N: usize> VxHsum for [f32; N] {
    #[verifier::external_body]
    fn vx_hsum(&self) -> (r: F32) { unimplemented!() }
}

/// safe indexing `s[i]` of a slice (panics unless `i < s.len()`): stated as a stub precondition so that a failing index is
/// reported as a named obligation (`precondition not satisfied`); the body is the native indexing, checked by Verus
pub fn vx_at(s: &[F32], i: usize) -> (r: F32)
    requires i < s@.len(),
    ensures r == s@[i as int],
{ s[i] }

// ---------------------------------------------------------------- loads and stores: the whole vector must lie inside the object
#[verifier::external_body]
pub unsafe fn _mm_loadu_ps(p: VxPtr) -> (r: __m128)
    requires 0 <= p.off@, p.off@ + 4 <= p.len@,
{ unimplemented!() }
#[verifier::external_body]
pub unsafe fn _mm256_loadu_ps(p: VxPtr) -> (r: __m256)
    requires 0 <= p.off@, p.off@ + 8 <= p.len@,
{ unimplemented!() }
#[verifier::external_body]
pub unsafe fn _mm512_loadu_ps(p: VxPtr) -> (r: __m512)
    requires 0 <= p.off@, p.off@ + 16 <= p.len@,
{ unimplemented!() }
#[verifier::external_body]
pub unsafe fn _mm_storeu_ps(p: VxPtr, v: __m128)
    requires 0 <= p.off@, p.off@ + 4 <= p.len@,
{ unimplemented!() }
#[verifier::external_body]
pub unsafe fn _mm256_storeu_ps(p: VxPtr, v: __m256)
    requires 0 <= p.off@, p.off@ + 8 <= p.len@,
{ unimplemented!() }
#[verifier::external_body]
pub unsafe fn _mm512_storeu_ps(p: VxPtr, v: __m512)
    requires 0 <= p.off@, p.off@ + 16 <= p.len@,
{ unimplemented!() }

// ---------------------------------------------------------------- register-only intrinsics: no memory access, values opaque
#[verifier::external_body] pub unsafe fn _mm_setzero_ps() -> (r: __m128) { unimplemented!() }
#[verifier::external_body] pub unsafe fn _mm_add_ps(a: __m128, b: __m128) -> (r: __m128) { unimplemented!() }
#[verifier::external_body] pub unsafe fn _mm_sub_ps(a: __m128, b: __m128) -> (r: __m128) { unimplemented!() }
#[verifier::external_body] pub unsafe fn _mm_mul_ps(a: __m128, b: __m128) -> (r: __m128) { unimplemented!() }
#[verifier::external_body] pub unsafe fn _mm_fmadd_ps(a: __m128, b: __m128, c: __m128) -> (r: __m128) { unimplemented!() }
#[verifier::external_body] pub unsafe fn _mm256_setzero_ps() -> (r: __m256) { unimplemented!() }
#[verifier::external_body] pub unsafe fn _mm256_add_ps(a: __m256, b: __m256) -> (r: __m256) { unimplemented!() }
#[verifier::external_body] pub unsafe fn _mm256_sub_ps(a: __m256, b: __m256) -> (r: __m256) { unimplemented!() }
#[verifier::external_body] pub unsafe fn _mm256_mul_ps(a: __m256, b: __m256) -> (r: __m256) { unimplemented!() }
#[verifier::external_body] pub unsafe fn _mm256_fmadd_ps(a: __m256, b: __m256, c: __m256) -> (r: __m256) { unimplemented!() }
#[verifier::external_body] pub unsafe fn _mm512_setzero_ps() -> (r: __m512) { unimplemented!() }
#[verifier::external_body] pub unsafe fn _mm512_add_ps(a: __m512, b: __m512) -> (r: __m512) { unimplemented!() }
#[verifier::external_body] pub unsafe fn _mm512_sub_ps(a: __m512, b: __m512) -> (r: __m512) { unimplemented!() }
#[verifier::external_body] pub unsafe fn _mm512_mul_ps(a: __m512, b: __m512) -> (r: __m512) { unimplemented!() }
#[verifier::external_body] pub unsafe fn _mm512_fmadd_ps(a: __m512, b: __m512, c: __m512) -> (r: __m512) { unimplemented!() }
// width changes (register to register)
#[verifier::external_body] pub unsafe fn _mm256_castps256_ps128(a: __m256) -> (r: __m128) { unimplemented!() }
#[verifier::external_body] pub unsafe fn _mm256_extractf128_ps<const IMM: i32>(a: __m256) -> (r: __m128) { unimplemented!() }
#[verifier::external_body] pub unsafe fn _mm512_castps512_ps256(a: __m512) -> (r: __m256) { unimplemented!() }
#[verifier::external_body] pub unsafe fn _mm512_reduce_add_ps(a: __m512) -> (r: F32) { unimplemented!() }
#[verifier::external_body] pub unsafe fn _mm_cvtss_f32(a: __m128) -> (r: F32) { unimplemented!() }

// ---------------------------------------------------------------- `(a..b).step_by(k)`
pub open spec fn vx_step_count(from: int, end: int, step: int) -> int {
    if from < end && step > 0 { (end - from + step - 1) / step } else { 0 }
}
/// proved (not trusted), not used by the kernels: sanity of the trusted `next` stub of VxStepBy.  `remaining()` below has at least one
/// item while cur < end, every item is < end, and advancing `cur` by `step` removes exactly the first item (the prophetic law
/// `next` is assumed to obey)
pub proof fn lemma_vx_step_by_advance(cur: int, end: int, step: int)
    requires step > 0, cur < end,
    ensures
        vx_step_count(cur, end, step) >= 1,
        vx_step_count(cur + step, end, step) == vx_step_count(cur, end, step) - 1,
        forall|j: int| 0 <= j < vx_step_count(cur, end, step) ==> cur + #[trigger] (j * step) < end,
{
    let d = end - cur;
    assert((d + step - 1) / step >= 1) by (nonlinear_arith) requires d >= 1, step > 0;
    if cur + step < end {
        assert((d - step + step - 1) / step == (d + step - 1) / step - 1) by (nonlinear_arith) requires step > 0;
    } else {
        assert((d + step - 1) / step == 1) by (nonlinear_arith) requires 0 < d <= step, step > 0;
    }
    assert forall|j: int| 0 <= j < vx_step_count(cur, end, step) implies cur + #[trigger] (j * step) < end by {
        let c = (d + step - 1) / step;
        assert(j * step < d) by (nonlinear_arith) requires 0 <= j < c, c == (d + step - 1) / step, step > 0, d >= 1;
    }
}
/// std's StepBy<Range<usize>>: `k` items were yielded so far
pub struct VxStepBy { pub start: Ghost<int>, pub k: Ghost<int>, pub end: Ghost<int>, pub step: Ghost<int> }
impl VxStepBy {
    pub open spec fn cur(&self) -> int { self.start@ + self.k@ * self.step@ }
}
pub trait VxStepByExt {
    fn vx_step_by(self, step: usize) -> (s: VxStepBy)
        requires step > 0;
}
impl VxStepByExt for Range<usize> {
    fn vx_step_by(self, step: usize) -> (s: VxStepBy)
        ensures s.start@ == self.start, s.k@ == 0, s.end@ == self.end, s.step@ == step,
    { VxStepBy { start: Ghost(self.start as int), k: Ghost(0), end: Ghost(self.end as int), step: Ghost(step as int) } }
}
impl Iterator for VxStepBy {
    type Item = usize;
    #[verifier::external_body]
    fn next(&mut self) -> (r: Option<usize>)
        ensures
            final(self).start == old(self).start, final(self).end == old(self).end, final(self).step == old(self).step,
            final(self).k@ == (if old(self).cur() < old(self).end@ { old(self).k@ + 1 } else { old(self).k@ }),
    { unimplemented!() }
}
impl vstd::std_specs::iter::IteratorSpecImpl for VxStepBy {
    open spec fn obeys_prophetic_iter_laws(&self) -> bool { true }
    #[verifier::prophetic]
    open spec fn remaining(&self) -> Seq<usize> {
        Seq::new(vx_step_count(self.cur(), self.end@, self.step@) as nat, |j: int| (self.cur() + j * self.step@) as usize)
    }
    #[verifier::prophetic]
    open spec fn will_return_none(&self) -> bool { true }
    open spec fn decrease(&self) -> Option<nat> { Some(vx_step_count(self.cur(), self.end@, self.step@) as nat) }
    open spec fn peek(&self, i: int) -> Option<usize> { None }
}
