// Shared environment of the backup-archive units (archive_header, archive_checksum).  Included at CRATE level after head.rs /
// macros.rs / anyhow.rs / io_mods.rs; opens its own `verus!` block.
//@assume usize is 64 bits wide (`global size_of usize == 8`): `name_len as usize` does not truncate
//@assume the archive file is not modified while it is read (reader model: the byte string is constant)
//@trusted Reader model (trait Read, as prelude/wal_env.rs): view = (bytes, pos); read_exact(buf) Ok consumes exactly |buf| bytes and copies them into buf; the byte string never changes
//@trusted u32::from_le_bytes / u64::from_le_bytes are vstd's spec_u32_from_le_bytes / spec_u64_from_le_bytes of the array (std-rename stubs)
//@trusted String::from_utf8(v) Ok => the string is utf8(v) (uninterpreted decoding function of the bytes), Err iff the bytes are not valid UTF-8 (uninterpreted utf8_valid)
//@trusted Path model: Path::new(s) views as s; is_absolute() == path_abs(s); components() iterates over comps(s) (uninterpreted: std::path's documented splitting into Prefix / RootDir / CurDir / ParentDir / Normal components); str::is_empty() is vstd's
macro_rules! vec { () => { Vec::new() }; ($e:expr; $n:expr) => { crate::vec_from_elem($e, $n) } }
verus! {
global size_of usize == 8;
use anyhow::{Result, Context, anyhow};
//@include std_specs.rs

// ---- reader model (same contract as BufReader::read_exact of prelude/wal_env.rs, as a trait so that the real generic
//      signatures `fn f<R: Read>(reader: &mut R)` stay untouched)
pub struct RdState { pub bytes: Seq<u8>, pub pos: int }
pub trait Read {
    spec fn rd(&self) -> RdState;
    fn read_exact(&mut self, buf: &mut [u8]) -> (r: core::result::Result<(), io::Error>)
        ensures
            final(self).rd().bytes == old(self).rd().bytes,
            final(buf)@.len() == old(buf)@.len(),
            r.is_ok() ==> old(self).rd().pos + old(buf)@.len() <= old(self).rd().bytes.len()
                && final(self).rd().pos == old(self).rd().pos + old(buf)@.len()
                && final(buf)@ == old(self).rd().bytes.subrange(old(self).rd().pos, old(self).rd().pos + old(buf)@.len()),
            (r.is_err() && r->Err_0.k == io::ErrorKind::UnexpectedEof) ==> old(self).rd().pos + old(buf)@.len() > old(self).rd().bytes.len();
}

pub open spec fn le32(b: Seq<u8>) -> u32 { vstd::bytes::spec_u32_from_le_bytes(b) }
pub open spec fn le64(b: Seq<u8>) -> u64 { vstd::bytes::spec_u64_from_le_bytes(b) }
#[verifier::external_body] pub fn vx_u32_from_le_bytes(b: [u8; 4]) -> (r: u32) ensures r == le32(b@) { unimplemented!() }
#[verifier::external_body] pub fn vx_u64_from_le_bytes(b: [u8; 8]) -> (r: u64) ensures r == le64(b@) { unimplemented!() }
#[verifier::external_body] pub fn vec_from_elem(e: u8, n: usize) -> (r: Vec<u8>) ensures r@.len() == n { unimplemented!() }

pub uninterp spec fn utf8_valid(b: Seq<u8>) -> bool;
pub uninterp spec fn utf8(b: Seq<u8>) -> Seq<char>;
#[derive(Debug)] pub struct FromUtf8Error { pub x: bool }
#[verifier::external_body] pub fn vx_string_from_utf8(v: Vec<u8>) -> (r: core::result::Result<String, FromUtf8Error>)
    ensures r.is_ok() == utf8_valid(v@), r.is_ok() ==> r.unwrap()@ == utf8(v@) { unimplemented!() }

// ---- path model: the component sequence of a path string (std::path's documented splitting)
#[derive(PartialEq, Eq, Structural, Clone, Copy)]
pub enum CompKind { Prefix, RootDir, CurDir, ParentDir, Normal }
pub uninterp spec fn comps(s: Seq<char>) -> Seq<CompKind>;
pub uninterp spec fn path_abs(s: Seq<char>) -> bool;
#[verifier::external_body] pub struct OsStr { _p: core::marker::PhantomData<()> }
pub enum Component { Prefix(OsStr), RootDir, CurDir, ParentDir, Normal(OsStr) }
pub open spec fn kind_of(c: Component) -> CompKind {
    match c {
        Component::Prefix(_) => CompKind::Prefix,
        Component::RootDir => CompKind::RootDir,
        Component::CurDir => CompKind::CurDir,
        Component::ParentDir => CompKind::ParentDir,
        Component::Normal(_) => CompKind::Normal,
    }
}
#[verifier::external_body] pub struct Path { _p: core::marker::PhantomData<()> }
#[verifier::external_body] pub struct Components { _p: core::marker::PhantomData<()> }
impl Path {
    pub uninterp spec fn view(&self) -> Seq<char>;
    #[verifier::external_body] pub fn new(s: &str) -> (r: &Path) ensures r@ == s@ { unimplemented!() }
    #[verifier::external_body] pub fn is_absolute(&self) -> (r: bool) ensures r == path_abs(self@) { unimplemented!() }
    #[verifier::external_body] pub fn components(&self) -> (r: Components) ensures r.rest() == comps(self@) { unimplemented!() }
}
impl Components {
    pub uninterp spec fn rest(&self) -> Seq<CompKind>;
    #[verifier::external_body] pub fn next(&mut self) -> (r: Option<Component>)
        ensures
            old(self).rest().len() == 0 ==> r.is_none() && final(self).rest() == old(self).rest(),
            old(self).rest().len() > 0 ==> r.is_some() && kind_of(r.unwrap()) == old(self).rest()[0]
                && final(self).rest() == old(self).rest().drop_first(),
    { unimplemented!() }
}

// ---- the property's oracle: a member name that stays a direct child of the restore directory
pub open spec fn single_normal(s: Seq<char>) -> bool {
    &&& s.len() > 0
    &&& !path_abs(s)
    &&& comps(s).len() == 1
    &&& comps(s)[0] == CompKind::Normal
}

//@item engine/src/backup.rs const MAX_BACKUP_ARCHIVE_FILES
//@end
//@item engine/src/backup.rs const MAX_BACKUP_MEMBER_NAME_BYTES
//@end
//@item engine/src/backup.rs const MAX_BACKUP_MEMBER_SIZE_BYTES
//@end

// ---- archive layout (written from the format description in write_backup_archive):
//      archive = count:u32le member*      member = name_len:u32le | name(name_len bytes, UTF-8) | data_len:u64le | data
pub open spec fn hdr_name_len(b: Seq<u8>, p: int) -> int { le32(b.subrange(p, p + 4)) as int }
pub open spec fn hdr_name_bytes(b: Seq<u8>, p: int) -> Seq<u8> { b.subrange(p + 4, p + 4 + hdr_name_len(b, p)) }
pub open spec fn hdr_data_len(b: Seq<u8>, p: int) -> u64 { le64(b.subrange(p + 4 + hdr_name_len(b, p), p + 12 + hdr_name_len(b, p))) }
pub open spec fn hdr_ok(b: Seq<u8>, p: int) -> bool {
    &&& 0 < hdr_name_len(b, p) <= 1024
    &&& p + 12 + hdr_name_len(b, p) <= b.len()
    &&& utf8_valid(hdr_name_bytes(b, p))
    &&& single_normal(utf8(hdr_name_bytes(b, p)))
    &&& hdr_data_len(b, p) <= 0x100_0000_0000
}

// the member size limit is written as a shift in the source
pub proof fn lemma_member_size_limit()
    ensures MAX_BACKUP_MEMBER_SIZE_BYTES == 0x100_0000_0000u64,
{
    assert((1u64 << 40) == 0x100_0000_0000u64) by (bit_vector);
}

} // verus! (archive_env)
