// Shared environment of the backup-archive units (archive_header, archive_checksum).  Included at CRATE level after head.rs /
// macros.rs / anyhow.rs / io_mods.rs; opens its own `verus!` block.
//@assume usize is 64 bits wide (`global size_of usize == 8`): `name_len as usize` does not truncate
//@assume the archive file is not modified while it is read (reader model: the byte string is constant)
//@trusted Reader model (trait Read, as prelude/wal_env.rs): view = (bytes, pos); read_exact(buf) Ok consumes exactly |buf| bytes and copies them into buf; the byte string never changes
//@trusted u32::from_le_bytes / u64::from_le_bytes are vstd's spec_u32_from_le_bytes / spec_u64_from_le_bytes of the array (std-rename stubs)
//@trusted String::from_utf8(v) Ok => the string is utf8(v) (uninterpreted decoding function of the bytes), Err iff the bytes are not valid UTF-8 (uninterpreted utf8_valid)
//@trusted Path model (UNIX): Path::new(s) views as s; is_absolute() == path_abs(s) := s starts with '/'; components() iterates over comps(s), a spec-function mirror of std::path's documented algorithm on Unix: split at '/', empty segments vanish, "." counts only as the very first segment of a relative path, ".." is ParentDir, a leading '/' is RootDir, everything else Normal.  That std implements exactly this is the trusted equation; its consequences (lemma_single_normal_chars, lemma_plain_name_ok, lemma_trailing_separator_accepted) are proved.  Windows (prefixes, '\\' as separator) is not modelled; str::is_empty() is vstd's
macro_rules! vec { () => { Vec::new() }; ($e:expr; $n:expr) => { crate::vec_from_elem($e, $n) } }
verus! {
global size_of usize == 8;
use anyhow::{Result, Context, anyhow};
//@include std_specs.rs

// ---- reader model (same contract as BufReader::read_exact of prelude/wal_env.rs, as a trait so that the real generic
//      signatures `fn f<R: Read>(reader: &mut R)` stay untouched)
pub struct RdState { pub bytes: Seq<u8>, pub pos: int }
pub trait Read {
    spec fn rd(&self) -> RdState;
    fn read_exact(&mut self, buf: &mut [u8]) -> (r: core::result::Result<(), io::Error>)
        ensures
            final(self).rd().bytes == old(self).rd().bytes,
            final(buf)@.len() == old(buf)@.len(),
            r.is_ok() ==> old(self).rd().pos + old(buf)@.len() <= old(self).rd().bytes.len()
                && final(self).rd().pos == old(self).rd().pos + old(buf)@.len()
                && final(buf)@ == old(self).rd().bytes.subrange(old(self).rd().pos, old(self).rd().pos + old(buf)@.len()),
            (r.is_err() && r->Err_0.k == io::ErrorKind::UnexpectedEof) ==> old(self).rd().pos + old(buf)@.len() > old(self).rd().bytes.len();
}

pub open spec fn le32(b: Seq<u8>) -> u32 { vstd::bytes::spec_u32_from_le_bytes(b) }
pub open spec fn le64(b: Seq<u8>) -> u64 { vstd::bytes::spec_u64_from_le_bytes(b) }
#[verifier::external_body] pub fn vx_u32_from_le_bytes(b: [u8; 4]) -> (r: u32) ensures r == le32(b@) { unimplemented!() }
#[verifier::external_body] pub fn vx_u64_from_le_bytes(b: [u8; 8]) -> (r: u64) ensures r == le64(b@) { unimplemented!() }
#[verifier::external_body] pub fn vec_from_elem(e: u8, n: usize) -> (r: Vec<u8>) ensures r@.len() == n { unimplemented!() }

pub uninterp spec fn utf8_valid(b: Seq<u8>) -> bool;
pub uninterp spec fn utf8(b: Seq<u8>) -> Seq<char>;
#[derive(Debug)] pub struct FromUtf8Error { pub x: bool }
#[verifier::external_body] pub fn vx_string_from_utf8(v: Vec<u8>) -> (r: core::result::Result<String, FromUtf8Error>)
    ensures r.is_ok() == utf8_valid(v@), r.is_ok() ==> r.unwrap()@ == utf8(v@) { unimplemented!() }

// ---- path model: the component sequence of a path string (std::path's documented splitting)
#[derive(PartialEq, Eq, Structural, Clone, Copy)]
pub enum CompKind { Prefix, RootDir, CurDir, ParentDir, Normal }
// ---- mirror of std::path::Path::components on Unix, over the characters of the path string
pub open spec fn first_sep(s: Seq<char>) -> int decreases s.len() {
    if s.len() == 0 { 0 } else if s[0] == '/' { 0 } else { 1 + first_sep(s.drop_first()) }
}
pub proof fn lemma_first_sep(s: Seq<char>)
    ensures 0 <= first_sep(s) <= s.len(),
        first_sep(s) < s.len() ==> s[first_sep(s)] == '/',
        forall|i: int| 0 <= i < first_sep(s) ==> s[i] != '/',
    decreases s.len()
{
    if s.len() == 0 {} else if s[0] == '/' {} else {
        lemma_first_sep(s.drop_first());
        assert forall|i: int| 0 <= i < first_sep(s) implies s[i] != '/' by {
            if i > 0 { assert(s[i] == s.drop_first()[i - 1]); }
        }
        if first_sep(s) < s.len() { assert(s[first_sep(s)] == s.drop_first()[first_sep(s) - 1]); }
    }
}
pub open spec fn is_dot(seg: Seq<char>) -> bool { seg.len() == 1 && seg[0] == '.' }
pub open spec fn is_dotdot(seg: Seq<char>) -> bool { seg.len() == 2 && seg[0] == '.' && seg[1] == '.' }
// the component a '/'-separated segment contributes: empty segments vanish, "." only counts as the very first segment of a relative path
pub open spec fn seg_kind(seg: Seq<char>, lead: bool) -> Option<CompKind> {
    if seg.len() == 0 { None }
    else if is_dot(seg) { if lead { Some(CompKind::CurDir) } else { None } }
    else if is_dotdot(seg) { Some(CompKind::ParentDir) }
    else { Some(CompKind::Normal) }
}
pub open spec fn opt_seq(k: Option<CompKind>) -> Seq<CompKind> { match k { Some(c) => seq![c], None => Seq::empty() } }
pub open spec fn rel_comps(s: Seq<char>, lead: bool) -> Seq<CompKind> decreases s.len() {
    let i = first_sep(s);
    if 0 <= i < s.len() { opt_seq(seg_kind(s.take(i), lead)) + rel_comps(s.skip(i + 1), false) }
    else { opt_seq(seg_kind(s, lead)) }
}
pub open spec fn path_abs(s: Seq<char>) -> bool { s.len() > 0 && s[0] == '/' }
pub open spec fn comps(s: Seq<char>) -> Seq<CompKind> {
    if path_abs(s) { seq![CompKind::RootDir] + rel_comps(s.drop_first(), false) } else { rel_comps(s, true) }
}
// ---- what the segments of a path look like
pub open spec fn n_dotdot(s: Seq<char>) -> nat decreases s.len() {
    let i = first_sep(s);
    if 0 <= i < s.len() { (if is_dotdot(s.take(i)) { 1nat } else { 0nat }) + n_dotdot(s.skip(i + 1)) }
    else { if is_dotdot(s) { 1nat } else { 0nat } }
}
pub open spec fn n_normal(s: Seq<char>) -> nat decreases s.len() {
    let i = first_sep(s);
    if 0 <= i < s.len() { (if seg_kind(s.take(i), false) == Some(CompKind::Normal) { 1nat } else { 0nat }) + n_normal(s.skip(i + 1)) }
    else { if seg_kind(s, false) == Some(CompKind::Normal) { 1nat } else { 0nat } }
}
pub open spec fn all_normal(k: Seq<CompKind>) -> bool { forall|i: int| 0 <= i < k.len() ==> k[i] == CompKind::Normal }
pub open spec fn first_seg(s: Seq<char>) -> Seq<char> { s.take(first_sep(s)) }

pub proof fn lemma_rel_comps(s: Seq<char>, lead: bool)
    ensures
        all_normal(rel_comps(s, lead)) ==> n_dotdot(s) == 0 && rel_comps(s, lead).len() == n_normal(s) && !(lead && is_dot(first_seg(s))),
    decreases s.len()
{
    lemma_first_sep(s);
    let i = first_sep(s);
    if 0 <= i < s.len() {
        let head = opt_seq(seg_kind(s.take(i), lead));
        let rest = rel_comps(s.skip(i + 1), false);
        lemma_rel_comps(s.skip(i + 1), false);
        if all_normal(head + rest) {
            assert forall|j: int| 0 <= j < rest.len() implies rest[j] == CompKind::Normal by {
                assert((head + rest)[head.len() + j] == rest[j]);
            }
            if head.len() > 0 { assert((head + rest)[0] == head[0]); }
        }
    } else {
        assert(s.take(s.len() as int) =~= s);
        let head = opt_seq(seg_kind(s, lead));
        if all_normal(head) && head.len() > 0 { assert(head[0] == CompKind::Normal); }
    }
}
#[verifier::external_body] pub struct OsStr { _p: core::marker::PhantomData<()> }
pub enum Component { Prefix(OsStr), RootDir, CurDir, ParentDir, Normal(OsStr) }
pub open spec fn kind_of(c: Component) -> CompKind {
    match c {
        Component::Prefix(_) => CompKind::Prefix,
        Component::RootDir => CompKind::RootDir,
        Component::CurDir => CompKind::CurDir,
        Component::ParentDir => CompKind::ParentDir,
        Component::Normal(_) => CompKind::Normal,
    }
}
#[verifier::external_body] pub struct Path { _p: core::marker::PhantomData<()> }
#[verifier::external_body] pub struct Components { _p: core::marker::PhantomData<()> }
impl Path {
    pub uninterp spec fn view(&self) -> Seq<char>;
    #[verifier::external_body] pub fn new(s: &str) -> (r: &Path) ensures r@ == s@ { unimplemented!() }
    #[verifier::external_body] pub fn is_absolute(&self) -> (r: bool) ensures r == path_abs(self@) { unimplemented!() }
    #[verifier::external_body] pub fn components(&self) -> (r: Components) ensures r.rest() == comps(self@) { unimplemented!() }
}
impl Components {
    pub uninterp spec fn rest(&self) -> Seq<CompKind>;
    #[verifier::external_body] pub fn next(&mut self) -> (r: Option<Component>)
        ensures
            old(self).rest().len() == 0 ==> r.is_none() && final(self).rest() == old(self).rest(),
            old(self).rest().len() > 0 ==> r.is_some() && kind_of(r.unwrap()) == old(self).rest()[0]
                && final(self).rest() == old(self).rest().drop_first(),
    { unimplemented!() }
}

// ---- the property's oracle: a member name that stays a direct child of the restore directory
pub open spec fn single_normal(s: Seq<char>) -> bool {
    &&& s.len() > 0
    &&& !path_abs(s)
    &&& comps(s).len() == 1
    &&& comps(s)[0] == CompKind::Normal
}
// what an accepted member name looks like, in characters
pub proof fn lemma_single_normal_chars(s: Seq<char>)
    requires single_normal(s),
    ensures
        s[0] != '/',
        n_dotdot(s) == 0,
        n_normal(s) == 1,
        !is_dot(first_seg(s)),
{
    lemma_rel_comps(s, true);
}
// a plain file name (no separator, not "", ".", "..") is accepted
pub proof fn lemma_plain_name_ok(s: Seq<char>)
    requires s.len() > 0, forall|i: int| 0 <= i < s.len() ==> s[i] != '/', !is_dot(s), !is_dotdot(s),
    ensures single_normal(s),
{
    lemma_first_sep(s);
    if first_sep(s) < s.len() { assert(s[first_sep(s)] == '/'); }
}
// but so is a name with a trailing separator: "a/" (finding: the separator check is by component, and components() normalises)
pub proof fn lemma_trailing_separator_accepted()
    ensures single_normal(seq!['a', '/']),
{
    let s = seq!['a', '/'];
    reveal_with_fuel(first_sep, 3);
    assert(s.drop_first() =~= seq!['/']);
    assert(first_sep(s) == 1);
    assert(s.take(1) =~= seq!['a']);
    assert(s.skip(2) =~= Seq::<char>::empty());
    assert(first_sep(Seq::<char>::empty()) == 0);
    reveal_with_fuel(rel_comps, 3);
    assert(rel_comps(Seq::<char>::empty(), false) =~= Seq::<CompKind>::empty());
    assert(seg_kind(seq!['a'], true) == Some(CompKind::Normal));
    assert(rel_comps(s, true) =~= seq![CompKind::Normal]);
}

//@item engine/src/backup.rs const MAX_BACKUP_ARCHIVE_FILES
//@end
//@item engine/src/backup.rs const MAX_BACKUP_MEMBER_NAME_BYTES
//@end
//@item engine/src/backup.rs const MAX_BACKUP_MEMBER_SIZE_BYTES
//@end

// ---- archive layout (written from the format description in write_backup_archive):
//      archive = count:u32le member*      member = name_len:u32le | name(name_len bytes, UTF-8) | data_len:u64le | data
pub open spec fn hdr_name_len(b: Seq<u8>, p: int) -> int { le32(b.subrange(p, p + 4)) as int }
pub open spec fn hdr_name_bytes(b: Seq<u8>, p: int) -> Seq<u8> { b.subrange(p + 4, p + 4 + hdr_name_len(b, p)) }
pub open spec fn hdr_data_len(b: Seq<u8>, p: int) -> u64 { le64(b.subrange(p + 4 + hdr_name_len(b, p), p + 12 + hdr_name_len(b, p))) }
pub open spec fn hdr_ok(b: Seq<u8>, p: int) -> bool {
    &&& 0 < hdr_name_len(b, p) <= 1024
    &&& p + 12 + hdr_name_len(b, p) <= b.len()
    &&& utf8_valid(hdr_name_bytes(b, p))
    &&& single_normal(utf8(hdr_name_bytes(b, p)))
    &&& hdr_data_len(b, p) <= 0x100_0000_0000
}

// the member size limit is written as a shift in the source
pub proof fn lemma_member_size_limit()
    ensures MAX_BACKUP_MEMBER_SIZE_BYTES == 0x100_0000_0000u64,
{
    assert((1u64 << 40) == 0x100_0000_0000u64) by (bit_vector);
}

} // verus! (archive_env)
