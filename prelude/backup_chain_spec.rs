// (inside verus!, after the content of backup_create_env.rs) Chains of backups as the two create_* contracts describe them, and the
// lemma that carries C12 across a chain: the union of the archives of a chain contains the snapshot its last MANIFEST points to.
// ---- the walk create_incremental_backup performs over the records on disk (BackupManager::effective_chain_snapshot): start at the
// parent record, follow parent_id through stored_meta (content of backup_<id>.json), stop at the first record that names a snapshot,
// is a Full backup, or has no parent.  The effective snapshot of the chain is the snapshot_file of the record the walk stops at.
pub open spec fn walk_terminal(m: BackupMetadata) -> bool { m.snapshot_file is Some || m.backup_type == BackupType::Full || m.parent_id is None }
pub open spec fn eff_step(w: Seq<BackupMetadata>, i: int) -> bool { !walk_terminal(w[i - 1]) && w[i] == stored_meta(w[i - 1].parent_id->Some_0) }
pub open spec fn eff_walk_partial(start: BackupMetadata, w: Seq<BackupMetadata>) -> bool {
    &&& w.len() >= 1
    &&& w[0] == start
    &&& forall|i: int| 1 <= i < w.len() ==> #[trigger] eff_step(w, i)
}
pub open spec fn eff_walk(start: BackupMetadata, w: Seq<BackupMetadata>) -> bool { eff_walk_partial(start, w) && walk_terminal(w.last()) }
#[verifier::opaque]
pub open spec fn is_effective(start: BackupMetadata, eff: Option<String>) -> bool {
    exists|w: Seq<BackupMetadata>| #[trigger] eff_walk(start, w) && eff == w.last().snapshot_file
}
pub proof fn lemma_is_effective(start: BackupMetadata, w: Seq<BackupMetadata>, eff: Option<String>)
    ensures (eff_walk(start, w) && eff == w.last().snapshot_file) ==> is_effective(start, eff),
{
    reveal(is_effective);
}
pub proof fn lemma_walk_extend(start: BackupMetadata, w: Seq<BackupMetadata>, m: BackupMetadata, w2: Seq<BackupMetadata>)
    ensures (eff_walk_partial(start, w) && !walk_terminal(w.last()) && m == stored_meta(w.last().parent_id->Some_0) && w2 == w.push(m))
        ==> eff_walk_partial(start, w2) && w2.last() == m,
{
    if eff_walk_partial(start, w) && !walk_terminal(w.last()) && m == stored_meta(w.last().parent_id->Some_0) && w2 == w.push(m) {
        let n = w.len() as int;
        assert(w2[0] == w[0]);
        assert forall|i: int| 1 <= i < w2.len() implies #[trigger] eff_step(w2, i) by {
            assert(w2[i - 1] == w[i - 1]);
            if i < n { assert(w2[i] == w[i]); assert(eff_step(w, i)); } else { assert(w[i - 1] == w.last()); }
        }
    }
}
// the walk is a function of its start (stored_meta is): two complete walks from the same record are the same walk
pub proof fn lemma_walk_unique(start: BackupMetadata, w1: Seq<BackupMetadata>, w2: Seq<BackupMetadata>, k: int)
    requires eff_walk(start, w1), eff_walk(start, w2), 0 <= k < w1.len(), k < w2.len(),
    ensures w1[k] == w2[k], (k == w1.len() - 1) == (k == w2.len() - 1),
    decreases k
{
    if k > 0 {
        lemma_walk_unique(start, w1, w2, k - 1);
        assert(eff_step(w1, k));
        assert(eff_step(w2, k));
    }
    if k == w1.len() - 1 && k < w2.len() - 1 { assert(eff_step(w2, k + 1)); }
    if k == w2.len() - 1 && k < w1.len() - 1 { assert(eff_step(w1, k + 1)); }
}

// ---- ONE backup as a link of a chain: its record (snapshot_file = the snapshot THIS archive ships, if any), the snapshot pointer of
// the MANIFEST it ships (None: no pointer / legacy text MANIFEST) and the names of the members of its archive.  Units backup_create /
// backup_incremental prove that what their contracts say about a backup is full_link / inc_link (lemma_full_is_link, lemma_inc_is_link)
pub struct Link { pub rec: BackupMetadata, pub ptr: Option<String>, pub members: spec_fn(Seq<char>) -> bool }
pub open spec fn shipped_is_member(l: Link) -> bool { l.rec.snapshot_file matches Some(s) ==> (l.members)(s@) }
// a full backup ships the snapshot its MANIFEST points to
pub open spec fn full_link(l: Link) -> bool {
    &&& l.rec.snapshot_file == l.ptr
    &&& shipped_is_member(l)
}
// an incremental whose parent chain has the effective snapshot `eff`: ships its pointer iff it differs from eff, ships nothing else
pub open spec fn inc_link(l: Link, eff: Option<String>) -> bool {
    &&& shipped_is_member(l)
    &&& (l.ptr is Some && eff != l.ptr ==> l.rec.snapshot_file == l.ptr)
    &&& (l.ptr is None || eff == l.ptr ==> l.rec.snapshot_file is None)
}
// the records of a chain full -> inc1 -> ... -> incN as they sit on disk: each incremental's parent_id names the file of the previous
// record; only the first record is Full
pub open spec fn rec_linked(c: Seq<Link>, i: int) -> bool {
    c[i].rec.backup_type != BackupType::Full && c[i].rec.parent_id is Some && stored_meta(c[i].rec.parent_id->Some_0) == c[i - 1].rec
}
// effective snapshot of the chain up to link n, read off the sequence: nearest record from n downwards that ships a snapshot
pub open spec fn chain_eff(c: Seq<Link>, n: int) -> Option<String> decreases n {
    if n < 0 { None } else if c[n].rec.snapshot_file is Some || n == 0 { c[n].rec.snapshot_file } else { chain_eff(c, n - 1) }
}
// link i was produced by create_incremental_backup with the record of link i - 1 as parent: whatever effective snapshot its walk
// found (is_effective), the contract holds for it
pub open spec fn chain_step(c: Seq<Link>, i: int) -> bool {
    rec_linked(c, i) && exists|eff: Option<String>| #[trigger] is_effective(c[i - 1].rec, eff) && inc_link(c[i], eff)
}
pub open spec fn backup_chain(c: Seq<Link>) -> bool {
    &&& c.len() >= 1
    &&& c[0].rec.backup_type == BackupType::Full
    &&& full_link(c[0])
    &&& forall|i: int| 1 <= i < c.len() ==> #[trigger] chain_step(c, i)
}
// the walk over the records on disk computes chain_eff of the sequence
pub proof fn lemma_walk_is_chain_eff(c: Seq<Link>, k: int, w: Seq<BackupMetadata>)
    requires backup_chain(c), 0 <= k < c.len(), eff_walk(c[k].rec, w),
    ensures w.last().snapshot_file == chain_eff(c, k),
    decreases k
{
    if walk_terminal(c[k].rec) {
        if w.len() > 1 { assert(eff_step(w, 1)); }
        if k > 0 { assert(chain_step(c, k)); }
    } else {
        assert(k > 0);
        assert(chain_step(c, k));
        if w.len() == 1 { } else {
            assert(eff_step(w, 1));
            let w2 = w.skip(1);
            assert(w2[0] == c[k - 1].rec);
            assert forall|i: int| 1 <= i < w2.len() implies #[trigger] eff_step(w2, i) by {
                assert(eff_step(w, i + 1));
                assert(w2[i] == w[i + 1] && w2[i - 1] == w[i]);
            }
            assert(w2.last() == w.last());
            lemma_walk_is_chain_eff(c, k - 1, w2);
        }
    }
}
pub open spec fn archived_upto(c: Seq<Link>, n: int, name: Seq<char>) -> bool { exists|j: int| 0 <= j <= n && (#[trigger] c[j].members)(name) }
// the snapshot chain_eff names is a member of some archive up to n
pub proof fn lemma_chain_eff_archived(c: Seq<Link>, n: int)
    requires backup_chain(c), 0 <= n < c.len(),
    ensures chain_eff(c, n) matches Some(s) ==> archived_upto(c, n, s@),
    decreases n
{
    if c[n].rec.snapshot_file is Some || n == 0 {
        if n > 0 { assert(chain_step(c, n)); }
        if c[n].rec.snapshot_file is Some { assert((c[n].members)(c[n].rec.snapshot_file->Some_0@)); }
    } else {
        lemma_chain_eff_archived(c, n - 1);
        if chain_eff(c, n - 1) is Some {
            let s = chain_eff(c, n - 1)->Some_0;
            let j = choose|j: int| 0 <= j <= n - 1 && (#[trigger] c[j].members)(s@);
            assert((c[j].members)(s@));
        }
    }
}
// THE CHAIN LEMMA: for every chain full -> inc1 -> ... -> incN produced by create_full_backup / create_incremental_backup, the
// union of the archived member names up to link n contains the snapshot the MANIFEST of link n points to; and the effective
// snapshot of the chain IS that pointer (each snapshot is shipped by exactly the first link whose MANIFEST names it)
pub proof fn lemma_chain_has_snapshot(c: Seq<Link>, n: int)
    requires backup_chain(c), 0 <= n < c.len(),
    ensures
        c[n].ptr matches Some(s) ==> archived_upto(c, n, s@),
        c[n].ptr is Some ==> chain_eff(c, n) == c[n].ptr,
{
    lemma_chain_eff_archived(c, n);
    if n > 0 && c[n].ptr is Some {
        assert(chain_step(c, n));
        let eff = choose|eff: Option<String>| #[trigger] is_effective(c[n - 1].rec, eff) && inc_link(c[n], eff);
        reveal(is_effective);
        let w = choose|w: Seq<BackupMetadata>| #[trigger] eff_walk(c[n - 1].rec, w) && eff == w.last().snapshot_file;
        lemma_walk_is_chain_eff(c, n - 1, w);
        if eff != c[n].ptr {
            assert(c[n].rec.snapshot_file == c[n].ptr);
        } else {
            assert(c[n].rec.snapshot_file is None);
            assert(chain_eff(c, n) == chain_eff(c, n - 1));
            lemma_chain_eff_archived(c, n - 1);
            let s = c[n].ptr->Some_0;
            let j = choose|j: int| 0 <= j <= n - 1 && (#[trigger] c[j].members)(s@);
            assert((c[j].members)(s@));
        }
    }
}
