// Vocabulary of the hot-tier drain contracts (inside verus!; needs HotView / Meta / HotTierMirrorDocument / VectorCoherenceToken of the
// including environment: engine_env.rs, or hot_tier_spec.rs in the implication unit `implied_hot_tier`).
pub type Entry = (Seq<f32>, Meta, VectorCoherenceToken);
/// the mirror entry a drained document stands for
pub open spec fn mirror_of(x: HotTierMirrorDocument) -> Entry { (x.1@, x.2@, x.3) }
pub open spec fn ids_distinct(docs: Seq<HotTierMirrorDocument>) -> bool {
    forall|i: int, j: int| 0 <= i < j < docs.len() ==> (#[trigger] docs[i]).0 != (#[trigger] docs[j]).0
}
/// `docs` lists exactly the entries of the hot-tier view `v`
pub open spec fn drained_from(docs: Seq<HotTierMirrorDocument>, v: HotView) -> bool {
    &&& ids_distinct(docs)
    &&& forall|i: int| 0 <= i < docs.len() ==> v.contains_key((#[trigger] docs[i]).0) && v[docs[i].0] == mirror_of(docs[i])
    &&& forall|d: u64| #[trigger] v.contains_key(d) ==> exists|i: int| 0 <= i < docs.len() && (#[trigger] docs[i]).0 == d
}
/// view after `reinsert_failed_documents(docs)`
pub open spec fn hot_reinsert(v: HotView, docs: Seq<HotTierMirrorDocument>) -> HotView
    decreases docs.len()
{
    if docs.len() == 0 { v } else { hot_reinsert(v, docs.drop_last()).insert(docs.last().0, mirror_of(docs.last())) }
}
pub proof fn lemma_hot_reinsert_push(v: HotView, docs: Seq<HotTierMirrorDocument>, x: HotTierMirrorDocument)
    ensures hot_reinsert(v, docs.push(x)) == hot_reinsert(v, docs).insert(x.0, mirror_of(x))
{
    assert(docs.push(x).drop_last() =~= docs);
    assert(docs.push(x).last() == x);
}
