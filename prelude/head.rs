#![feature(allocator_api)]
#![allow(unused_imports, unused_macros, unused_variables, unused_mut, dead_code, unused_assignments, unreachable_code, non_snake_case, unused_parens, unused_braces)]
use vstd::prelude::*;
use std::collections::HashMap;
use std::collections::HashSet;
use std::hash::Hash;
use std::hash::BuildHasher;
use std::borrow::Borrow;
use std::alloc::Allocator;
use vstd::std_specs::hash::*;
use vstd::std_specs::cmp::*;
