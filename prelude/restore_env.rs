// Shared environment of the restore units (restore_order, restore_pitr).  Included at CRATE level after head.rs / macros.rs /
// anyhow.rs / io_mods.rs: it defines helper modules and opens its own `verus!` block.
//@assume sequential semantics (self-mut): the RestoreManager is owned by the caller for the whole call; the ghost field `fx` added to it is the log of effectful steps (verify / clear / extract) of this manager, appended to only by the three stubs below
//@assume quiescent backup directory: the content of backup_<id>.json does not change during the call (`stored_meta(id)` is a function of the id, `listing()` a constant); serde_json::from_str(read_to_string(backup_dir/backup_<id>.json)) Ok yields stored_meta(id)
//@trusted format!("backup_{}.json", id) + PathBuf::join produce the path of the metadata file of `id` (stub vx_fmt1 keeps the literal and the argument; join ensures meta_id() == Some(id) for that literal)
//@trusted verify_backup_archive(m) Ok appends Fx::Verified(m.id) and grants the capability verified(path, m.id); Err appends nothing.  (Its real body: existence check + compute_backup_checksum == m.checksum; not verified here)
//@trusted clear_data_directory(options) REQUIRES ready_to_clear(fx): the log ends with the successful verification of a complete Full-rooted parent chain; appends Fx::Clear(allow_clear, dry_run, ok).  (Its real body: unit clear_guard)
//@trusted extract_backup_archive(id, path) REQUIRES the capability verified(path, id) (granted only by verify_backup_archive Ok); appends Fx::Extract(id, ok)
//@trusted BackupMetadata::clone (derive(Clone)) yields an equal value; <[T]>::reverse reverses the sequence
//@residue NOT claimed: that an archive's content equals the data directory at backup time; that starting the engine on the restored directory yields the collection of that time; create_full_backup / create_incremental_backup selection logic
//@residue the metadata JSON carries no integrity check of its own: `stored_meta(id)` / `listing()` are whatever the files say (an altered backup_type / parent_id / checksum / timestamp field is believed); the `id` field inside the JSON is not compared with the id in the file name (archive path and Verified/Extract effects use the inner id)
macro_rules! vec { () => { Vec::new() }; ($($e:expr),+ $(,)?) => { std::vec![$($e),+] } }
macro_rules! format { ($l:literal, $a:expr) => { crate::vx_fmt1($l, $a) }; ($($t:tt)*) => { crate::FmtName::mk() } }
pub mod serde_json {
    use vstd::prelude::*;
    verus! {
    #[derive(Debug)] pub struct Error { pub x: bool }
    impl core::convert::From<Error> for crate::anyhow::Error {
        #[verifier::external_body] fn from(e: Error) -> (r: crate::anyhow::Error) { unimplemented!() }
    }
    impl vstd::std_specs::convert::FromSpecImpl<Error> for crate::anyhow::Error {
        open spec fn obeys_from_spec() -> bool { false }
        open spec fn from_spec(v: Error) -> Self { crate::anyhow::Error { x: true } }
    }
    #[verifier::external_body] pub fn from_str(t: &crate::FileText) -> (r: core::result::Result<crate::BackupMetadata, Error>)
        ensures r.is_ok() && t.src_meta_id() is Some ==> r.unwrap() == crate::stored_meta(t.src_meta_id()->Some_0) { unimplemented!() }
    }
}
pub mod fs {
    use vstd::prelude::*;
    verus! {
    #[verifier::external_body] pub fn read_to_string(p: crate::PathBuf) -> (r: core::result::Result<crate::FileText, crate::io::Error>)
        ensures r.is_ok() ==> r.unwrap().src_meta_id() == p.meta_id() { unimplemented!() }
    }
}
verus! {
use anyhow::{Result, Context, anyhow};
//@include std_specs.rs
//@include string_axioms.rs

#[derive(Debug, Clone, Copy, PartialEq, Eq, Structural)]
pub struct Uuid { pub v: u128 }

// ---- paths / file text (opaque; only "which metadata file is this" matters)
#[verifier::external_body] pub struct FmtName { _p: core::marker::PhantomData<()> }
impl FmtName {
    pub uninterp spec fn lit(&self) -> Seq<char>;
    pub uninterp spec fn arg(&self) -> Uuid;
    #[verifier::external_body] pub fn mk() -> FmtName { unimplemented!() }
}
#[verifier::external_body] pub fn vx_fmt1(l: &str, a: Uuid) -> (r: FmtName) ensures r.lit() == l@, r.arg() == a { unimplemented!() }
#[verifier::external_body] pub struct PathBuf { _p: core::marker::PhantomData<()> }
pub type Path = PathBuf;
impl PathBuf {
    pub uninterp spec fn meta_id(&self) -> Option<Uuid>;
    #[verifier::external_body] pub fn join(&self, x: FmtName) -> (r: PathBuf)
        ensures x.lit() == "backup_{}.json"@ ==> r.meta_id() == Some(x.arg()) { unimplemented!() }
    #[verifier::external_body] pub fn exists(&self) -> bool { unimplemented!() }
}
#[verifier::external_body] pub struct FileText { _p: core::marker::PhantomData<()> }
impl FileText { pub uninterp spec fn src_meta_id(&self) -> Option<Uuid>; }

//@item engine/src/backup.rs enum BackupType
//@ derive Debug, Clone, Copy, PartialEq, Eq, Structural
//@end
//@item engine/src/backup.rs struct BackupMetadata
//@end
impl Clone for BackupMetadata { #[verifier::external_body] fn clone(&self) -> (r: BackupMetadata) ensures r == *self { unimplemented!() } }
//@item engine/src/backup.rs struct ClearDirectoryOptions
//@end
//@item engine/src/backup.rs struct RestoreManager
//@ rw ghost-field /data_dir: PathBuf,/ -> "data_dir: PathBuf,\n    pub ghost fx: Seq<Fx>,"
//@end

pub assume_specification<T>[<[T]>::reverse](s: &mut [T])
    ensures final(s)@ == old(s)@.reverse();

// ---- the model: content of the metadata files, effect log, capability
pub uninterp spec fn stored_meta(id: Uuid) -> BackupMetadata;
pub enum Fx { Verified(Uuid), Clear(bool, bool, bool), Extract(Uuid, bool) }     // Clear(allow_clear, dry_run, ok), Extract(id, ok)
pub uninterp spec fn verified(p: PathBuf, id: Uuid) -> bool;                      // granted only by verify_backup_archive Ok

// p is the record the parent id `pid` refers to: the content of backup_<pid>.json (parent walk of restore_from_backup) or the
// listed record with that id (chain walk of restore_point_in_time)
pub open spec fn is_parent_of(p: BackupMetadata, pid: Uuid) -> bool { p == stored_meta(pid) || p.id == pid }
// element i of c is a non-Full record whose parent is element i - 1 (a named step keeps the quantifier of `rooted` free of matching loops)
pub open spec fn link_ok(c: Seq<BackupMetadata>, i: int) -> bool {
    c[i].backup_type != BackupType::Full && c[i].parent_id is Some && is_parent_of(c[i - 1], c[i].parent_id->Some_0)
}
// c is a parent chain in restore order: Full first, every later element a non-Full record whose parent is the previous one
// (opaque: the quantifiers are only unfolded inside the lemmas below)
#[verifier::opaque]
pub open spec fn rooted(c: Seq<BackupMetadata>) -> bool {
    &&& c.len() >= 1
    &&& c[0].backup_type == BackupType::Full
    &&& forall|i: int| 1 <= i < c.len() ==> #[trigger] link_ok(c, i)
}

// ---- what a restore is asked for, and the chain that answers it
pub enum Goal { ById(Uuid), AtTime(u64) }
// what list_backups returns: the parsed metadata files of the backup directory, newest first
pub uninterp spec fn listing() -> Seq<BackupMetadata>;
pub open spec fn full_at(b: BackupMetadata, ts: u64) -> bool { b.timestamp <= ts && b.backup_type == BackupType::Full }
pub open spec fn is_child(b: BackupMetadata, parent: Uuid, ts: u64) -> bool {
    b.parent_id == Some(parent) && b.timestamp <= ts && b.backup_type == BackupType::Incremental
}
// l[j] is the first element of l that is a Full backup not after ts (l sorted newest first: the newest such)
pub open spec fn newest_full_at(l: Seq<BackupMetadata>, j: int, ts: u64) -> bool {
    0 <= j < l.len() && full_at(l[j], ts) && forall|k: int| 0 <= k < j ==> !full_at(#[trigger] l[k], ts)
}
pub open spec fn newest_full(l: Seq<BackupMetadata>, b: BackupMetadata, ts: u64) -> bool {
    exists|j: int| #[trigger] newest_full_at(l, j, ts) && l[j] == b
}
// l[j] is the first element of l that is an Incremental child of `parent` not after ts
pub open spec fn first_child_at(l: Seq<BackupMetadata>, j: int, parent: Uuid, ts: u64) -> bool {
    0 <= j < l.len() && is_child(l[j], parent, ts) && forall|k: int| 0 <= k < j ==> !is_child(#[trigger] l[k], parent, ts)
}
pub open spec fn first_child(l: Seq<BackupMetadata>, b: BackupMetadata, parent: Uuid, ts: u64) -> bool {
    exists|j: int| #[trigger] first_child_at(l, j, parent, ts) && l[j] == b
}
pub open spec fn no_child(l: Seq<BackupMetadata>, parent: Uuid, ts: u64) -> bool {
    forall|k: int| 0 <= k < l.len() ==> !is_child(#[trigger] l[k], parent, ts)
}
pub open spec fn child_ok(c: Seq<BackupMetadata>, i: int, ts: u64) -> bool { first_child(listing(), c[i], c[i - 1].id, ts) }
// the point-in-time chain: newest Full <= ts, then repeatedly the first listed eligible child, until there is none
#[verifier::opaque]
pub open spec fn pitr_partial(c: Seq<BackupMetadata>, ts: u64) -> bool {
    &&& c.len() >= 1
    &&& newest_full(listing(), c[0], ts)
    &&& forall|i: int| 1 <= i < c.len() ==> #[trigger] child_ok(c, i, ts)
}
pub open spec fn pitr_chain(c: Seq<BackupMetadata>, ts: u64) -> bool {
    pitr_partial(c, ts) && c.len() >= 1 && no_child(listing(), c.last().id, ts)
}
pub open spec fn wanted(c: Seq<BackupMetadata>, g: Goal) -> bool {
    rooted(c) && c.len() >= 1 && match g {
        Goal::ById(target) => c.last() == stored_meta(target),
        Goal::AtTime(ts) => pitr_chain(c, ts),
    }
}
pub proof fn lemma_pitr_start(c: Seq<BackupMetadata>, ts: u64)
    ensures (c.len() == 1 && newest_full(listing(), c[0], ts)) ==> pitr_partial(c, ts) && rooted(c),
{
    reveal(pitr_partial);
    reveal(rooted);
}
pub proof fn lemma_pitr_push(c: Seq<BackupMetadata>, b: BackupMetadata, c2: Seq<BackupMetadata>, ts: u64)
    ensures (pitr_partial(c, ts) && rooted(c) && c.len() >= 1 && first_child(listing(), b, c.last().id, ts) && c2 == c.push(b))
        ==> pitr_partial(c2, ts) && rooted(c2),
{
    if pitr_partial(c, ts) && rooted(c) && c.len() >= 1 && first_child(listing(), b, c.last().id, ts) && c2 == c.push(b) {
        let n = c.len() as int;
        let j = choose|j: int| #[trigger] first_child_at(listing(), j, c.last().id, ts) && listing()[j] == b;
        assert(is_child(b, c[n - 1].id, ts));
        assert(c2.len() == n + 1);
        assert(c2[n] == b);
        assert(c2[0] == c[0]);
        assert(c2[n - 1] == c[n - 1]);
        lemma_pitr_push_partial(c, b, c2, ts);
        lemma_pitr_push_rooted(c, b, c2, ts);
    }
}
proof fn lemma_pitr_push_partial(c: Seq<BackupMetadata>, b: BackupMetadata, c2: Seq<BackupMetadata>, ts: u64)
    requires pitr_partial(c, ts), c.len() >= 1, first_child(listing(), b, c.last().id, ts), c2 == c.push(b),
    ensures pitr_partial(c2, ts),
{
    reveal(pitr_partial);
    let n = c.len() as int;
    assert(c2[0] == c[0]);
    assert forall|i: int| 1 <= i < c2.len() implies #[trigger] child_ok(c2, i, ts) by {
        assert(c2[i - 1] == c[i - 1]);
        if i < n { assert(c2[i] == c[i]); assert(child_ok(c, i, ts)); } else { assert(c2[i] == b); assert(c[i - 1] == c.last()); }
    }
}
proof fn lemma_pitr_push_rooted(c: Seq<BackupMetadata>, b: BackupMetadata, c2: Seq<BackupMetadata>, ts: u64)
    requires rooted(c), c.len() >= 1, is_child(b, c.last().id, ts), c2 == c.push(b),
    ensures rooted(c2),
{
    reveal(rooted);
    let n = c.len() as int;
    assert(c2[0] == c[0]);
    assert forall|i: int| 1 <= i < c2.len() implies #[trigger] link_ok(c2, i) by {
        assert(c2[i - 1] == c[i - 1]);
        if i < n { assert(c2[i] == c[i]); assert(link_ok(c, i)); } else { assert(c2[i] == b); assert(c[i - 1] == c.last()); }
    }
}
// reading of "first in the listing" when the listing is sorted newest first: no eligible Full backup is newer than the selected one
pub open spec fn sorted_desc(l: Seq<BackupMetadata>) -> bool {
    forall|i: int, j: int| 0 <= i <= j < l.len() ==> (#[trigger] l[i]).timestamp >= (#[trigger] l[j]).timestamp
}
pub proof fn lemma_newest_full_is_newest(l: Seq<BackupMetadata>, b: BackupMetadata, ts: u64)
    requires sorted_desc(l), newest_full(l, b, ts),
    ensures forall|k: int| 0 <= k < l.len() && full_at(#[trigger] l[k], ts) ==> l[k].timestamp <= b.timestamp,
{
    let j = choose|j: int| #[trigger] newest_full_at(l, j, ts) && l[j] == b;
    assert forall|k: int| 0 <= k < l.len() && full_at(#[trigger] l[k], ts) implies l[k].timestamp <= b.timestamp by {
        if k < j { assert(!full_at(l[k], ts)); }
    }
}

pub open spec fn is_chain(c: Seq<BackupMetadata>, target: Uuid) -> bool { wanted(c, Goal::ById(target)) }
pub open spec fn verifs(c: Seq<BackupMetadata>, n: int) -> Seq<Fx> decreases n {
    if n <= 0 { Seq::empty() } else { verifs(c, n - 1).push(Fx::Verified(c[n - 1].id)) }
}
pub open spec fn extracts(c: Seq<BackupMetadata>, n: int) -> Seq<Fx> decreases n {
    if n <= 0 { Seq::empty() } else { extracts(c, n - 1).push(Fx::Extract(c[n - 1].id, true)) }
}
// what a successful restore does, in order
pub open spec fn full_trace(c: Seq<BackupMetadata>, allow: bool, dry: bool) -> Seq<Fx> {
    verifs(c, c.len() as int).push(Fx::Clear(allow, dry, true)) + (if dry { Seq::<Fx>::empty() } else { extracts(c, c.len() as int) })
}
// what a failed restore may have done: a prefix of the above whose last step may be the failed one
pub open spec fn err_trace(c: Seq<BackupMetadata>, allow: bool, dry: bool, t: Seq<Fx>) -> bool {
    ||| exists|k: int| 0 <= k <= c.len() && t == #[trigger] verifs(c, k)
    ||| t == verifs(c, c.len() as int).push(Fx::Clear(allow, dry, false))
    ||| (!dry && exists|k: int| 0 <= k < c.len()
            && t == (verifs(c, c.len() as int).push(Fx::Clear(allow, dry, true)) + #[trigger] extracts(c, k)).push(Fx::Extract(c[k].id, false)))
}
#[verifier::opaque]
pub open spec fn ok_post(fx0: Seq<Fx>, fx1: Seq<Fx>, g: Goal, allow: bool, dry: bool) -> bool {
    exists|c: Seq<BackupMetadata>| #[trigger] wanted(c, g) && fx1 == fx0 + full_trace(c, allow, dry)
}
#[verifier::opaque]
pub open spec fn err_post(fx0: Seq<Fx>, fx1: Seq<Fx>, g: Goal, allow: bool, dry: bool) -> bool {
    fx1 == fx0 || exists|c: Seq<BackupMetadata>, t: Seq<Fx>| #[trigger] wanted(c, g) && #[trigger] err_trace(c, allow, dry, t) && fx1 == fx0 + t
}
// the capability clear_data_directory demands: every archive of a complete Full-rooted chain was verified, and nothing happened since
pub open spec fn ends_with_verifs(fx: Seq<Fx>, fx0: Seq<Fx>, c: Seq<BackupMetadata>) -> bool {
    rooted(c) && fx == fx0 + verifs(c, c.len() as int)
}
#[verifier::opaque]
pub open spec fn ready_to_clear(fx: Seq<Fx>) -> bool {
    exists|c: Seq<BackupMetadata>, fx0: Seq<Fx>| #[trigger] ends_with_verifs(fx, fx0, c)
}
// bridges from the concrete log shape (what the loop invariants carry) to the opaque contract predicates
pub proof fn lemma_err_same(fx0: Seq<Fx>, g: Goal, allow: bool, dry: bool)
    ensures err_post(fx0, fx0, g, allow, dry),
{
    reveal(err_post);
}
pub proof fn lemma_err_verifs(fx0: Seq<Fx>, fx: Seq<Fx>, c: Seq<BackupMetadata>, k: int, g: Goal, allow: bool, dry: bool)
    ensures (wanted(c, g) && 0 <= k <= c.len() && fx =~= fx0 + verifs(c, k)) ==> err_post(fx0, fx, g, allow, dry),
{
    reveal(err_post);
    if wanted(c, g) && 0 <= k <= c.len() && fx =~= fx0 + verifs(c, k) {
        assert(err_trace(c, allow, dry, verifs(c, k)));
    }
}
pub proof fn lemma_ready(fx0: Seq<Fx>, fx: Seq<Fx>, c: Seq<BackupMetadata>, g: Goal)
    ensures (wanted(c, g) && fx =~= fx0 + verifs(c, c.len() as int)) ==> ready_to_clear(fx),
{
    reveal(ready_to_clear);
    if wanted(c, g) && fx =~= fx0 + verifs(c, c.len() as int) {
        assert(ends_with_verifs(fx, fx0, c));
    }
}
pub proof fn lemma_err_clear(fx0: Seq<Fx>, fx: Seq<Fx>, c: Seq<BackupMetadata>, g: Goal, allow: bool, dry: bool)
    ensures (wanted(c, g) && fx =~= fx0 + verifs(c, c.len() as int)) ==> err_post(fx0, fx.push(Fx::Clear(allow, dry, false)), g, allow, dry),
{
    reveal(err_post);
    if wanted(c, g) && fx =~= fx0 + verifs(c, c.len() as int) {
        let t = verifs(c, c.len() as int).push(Fx::Clear(allow, dry, false));
        assert(err_trace(c, allow, dry, t));
        assert(fx.push(Fx::Clear(allow, dry, false)) =~= fx0 + t);
    }
}
pub proof fn lemma_err_extract(fx0: Seq<Fx>, fx: Seq<Fx>, c: Seq<BackupMetadata>, k: int, g: Goal, allow: bool, dry: bool)
    ensures (wanted(c, g) && !dry && 0 <= k < c.len()
            && fx =~= fx0 + (verifs(c, c.len() as int).push(Fx::Clear(allow, dry, true)) + extracts(c, k)))
        ==> err_post(fx0, fx.push(Fx::Extract(c[k].id, false)), g, allow, dry),
{
    reveal(err_post);
    if wanted(c, g) && !dry && 0 <= k < c.len()
        && fx =~= fx0 + (verifs(c, c.len() as int).push(Fx::Clear(allow, dry, true)) + extracts(c, k)) {
        let t = (verifs(c, c.len() as int).push(Fx::Clear(allow, dry, true)) + extracts(c, k)).push(Fx::Extract(c[k].id, false));
        assert(err_trace(c, allow, dry, t));
        assert(fx.push(Fx::Extract(c[k].id, false)) =~= fx0 + t);
    }
}
pub proof fn lemma_ok(fx0: Seq<Fx>, fx: Seq<Fx>, c: Seq<BackupMetadata>, g: Goal, allow: bool, dry: bool)
    ensures (wanted(c, g) && fx =~= fx0 + full_trace(c, allow, dry)) ==> ok_post(fx0, fx, g, allow, dry),
{
    reveal(ok_post);
}

impl RestoreManager {
    #[verifier::external_body]
    fn verify_backup_archive(&mut self, metadata: &BackupMetadata) -> (r: Result<PathBuf>)
        ensures
            final(self).backup_dir == old(self).backup_dir, final(self).data_dir == old(self).data_dir,
            r.is_ok() ==> final(self).fx == old(self).fx.push(Fx::Verified(metadata.id)) && verified(r.unwrap(), metadata.id),
            r.is_err() ==> final(self).fx == old(self).fx,
    { unimplemented!() }
    #[verifier::external_body]
    fn backup_archive_path(&self, backup_id: Uuid) -> PathBuf { unimplemented!() }
    #[verifier::external_body]
    fn clear_data_directory(&mut self, options: &ClearDirectoryOptions) -> (r: Result<()>)
        requires ready_to_clear(old(self).fx),
        ensures
            final(self).backup_dir == old(self).backup_dir, final(self).data_dir == old(self).data_dir,
            final(self).fx == old(self).fx.push(Fx::Clear(options.allow_clear, options.dry_run, r.is_ok())),
    { unimplemented!() }
    #[verifier::external_body]
    fn extract_backup_archive(&mut self, backup_id: Uuid, backup_path: &Path) -> (r: Result<()>)
        requires verified(*backup_path, backup_id),
        ensures
            final(self).backup_dir == old(self).backup_dir, final(self).data_dir == old(self).data_dir,
            final(self).fx == old(self).fx.push(Fx::Extract(backup_id, r.is_ok())),
    { unimplemented!() }

    // list_backups_from_dir: reads every *.json of the backup directory, sorts newest first (trusted; closure-based, not verified)
    #[verifier::external_body]
    fn list_backups(&self) -> (r: Result<Vec<BackupMetadata>>)
        ensures r.is_ok() ==> r.unwrap()@ == listing() && sorted_desc(listing()),
    { unimplemented!() }
}
} // verus! (restore_env)
