// Spec functions of the HnswBackend::batch_delete contract (inside verus!, after backend_env.rs).  Pure spec text plus one
// uninterpreted capability; nothing here is an axiom.  Shared by unit backend_batch_delete (which proves the contract) and the
// units that read that contract through `//@stub backend_batch_delete HnswBackend::batch_delete`.
// the requested ids that are live in `dom`, in request order, duplicates kept: exactly the ids the first pass collects
pub open spec fn live_prefix(ids: Seq<u64>, dom: Set<u64>, n: int) -> Seq<u64>
    decreases n
{
    if n <= 0 { Seq::empty() } else {
        let p = live_prefix(ids, dom, n - 1);
        if dom.contains(ids[n - 1]) { p.push(ids[n - 1]) } else { p }
    }
}
// every id of l has a Delete entry in the log; the k-th one carries sequence number base + k (no wrap-around)
pub open spec fn logged_all(l: Seq<u64>, base: u64) -> bool {
    &&& base + l.len() <= u64::MAX
    &&& forall|k: int| 0 <= k < l.len() ==> logged(WalOp::Delete, #[trigger] l[k], (base + k) as u64, Seq::<f32>::empty(), Map::<String, String>::empty())
}
// capability: this call obtained the n sequence numbers base .. base + n from the shared counter
pub uninterp spec fn seq_reserved(base: u64, n: u64) -> bool;
// the whole batch is in the log under a block of sequence numbers that was reserved for it
pub open spec fn batch_logged(l: Seq<u64>, base: u64) -> bool {
    seq_reserved(base, l.len() as u64) && logged_all(l, base)
}
