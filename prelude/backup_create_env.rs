// Shared environment of the backup CREATION units (backup_create, backup_incremental).  Included at CRATE level after head.rs /
// macros.rs / anyhow.rs / io_mods.rs / archive_env.rs: it defines helper modules and opens its own `verus!` block.
//@assume quiescent directories for ONE call: the directory listing of data_dir (`wal_listing(dir)`), the parsed MANIFEST (`disk_layout(path)`), `file_exists` and `file_bytes` are functions of the path, i.e. nobody adds, removes or rewrites files between the steps of one create_*_backup call.  (The code's own detector for a violation is the fingerprint re-check, carried as the capability recheck_passed.)
//@assume sequential semantics: nobody else writes into the backup directory during the call; `stored_meta(id)` (content of backup_<id>.json) is a function of the id
//@trusted list_wal_segments_in_dir(dir) Ok yields wal_listing(dir): entries (name, dir/name) with pairwise distinct names, each an existing file whose name starts with "wal_" and ends with ".wal" (is_wal_name); NO order is promised (its read_dir loop and its own sort_by closure are not under contract here)
//@trusted read_manifest_layout(path) Ok yields disk_layout(path) (None iff the file does not exist); serde_json / legacy text parsing is not under contract
//@trusted parse_wal_file_id(name) == wal_file_id(name) (uninterpreted: "wal_<decimal u64>.wal"); strip_prefix / strip_suffix / str::parse are not under contract
//@trusted String::cmp is a total order on the characters (str_cmp: Equal iff same string, antisymmetric, transitive: axiom_str_cmp / axiom_str_cmp_trans); u64::cmp is vstd's; Ordering::then_with(o, f) is o unless o == Equal, else f()
//@trusted serde_json::to_vec_pretty(&Manifest) Ok yields manifest_json(m) (uninterpreted); serde_json::to_string_pretty(&BackupMetadata) Ok yields a text whose record is the metadata value; serde_json::from_str(read_to_string(backup_dir/backup_<id>.json)) Ok yields stored_meta(id)
//@trusted format!("backup_{}.tar" | "backup_{}.json" | "snapshot_{}", x) keeps the literal and the argument (fmt1(literal, text of x)); Path::join(c) == child(dir, c)
//@trusted BTreeSet<String> model: a set of strings (new / insert returns "was absent" / contains); abstract-expr stubs vx_names_of (`v.iter().map(|(name, _)| name.clone()).collect()`), vx_set_of (`v.iter().cloned().collect()`), vx_set_difference (`a.difference(&b)` collected into a Vec without duplicates)
//@trusted Vec::dedup is dedup_spec (consecutive runs collapse; same reading as unit engine_write_paths); Option::filter(p) keeps the value iff p answered true; Uuid::new_v4 / SystemTime::now are arbitrary values
//@trusted fs::write(path, json) is ONLY used for the metadata record: it REQUIRES meta_write_allowed(path, record) (the archive of that record is durable, its sources were re-checked, the record carries the archive's checksum) and Ok grants meta_written(path, record); Err grants nothing (the file may hold a partial JSON text: not modelled)
//@trusted verify_source_fingerprints(entries, expected) Ok grants, besides the contract proved in unit backup_archive_write (fps_match), the capability recheck_passed(entries, expected): "this very call returned Ok".  Hand-written here because fp_obs is a timeless observation
macro_rules! format { ($l:literal, $a:expr) => { crate::vx_fmt1($l, $a) }; ($($t:tt)*) => { crate::FmtMsg::mk() } }
pub mod serde_json {
    use vstd::prelude::*;
    verus! {
    #[derive(Debug)] pub struct Error { pub x: bool }
    impl core::convert::From<Error> for crate::anyhow::Error {
        #[verifier::external_body] fn from(e: Error) -> (r: crate::anyhow::Error) { unimplemented!() }
    }
    impl vstd::std_specs::convert::FromSpecImpl<Error> for crate::anyhow::Error {
        open spec fn obeys_from_spec() -> bool { false }
        open spec fn from_spec(v: Error) -> Self { crate::anyhow::Error { x: true } }
    }
    #[verifier::external_body] pub fn to_vec_pretty(m: &crate::Manifest) -> (r: core::result::Result<Vec<u8>, Error>)
        ensures r.is_ok() ==> r.unwrap()@ == crate::manifest_json(*m) { unimplemented!() }
    #[verifier::external_body] pub fn to_string_pretty(m: &crate::BackupMetadata) -> (r: core::result::Result<crate::MetaJson, Error>)
        ensures r.is_ok() ==> r.unwrap().record() == *m { unimplemented!() }
    #[verifier::external_body] pub fn from_str(t: &crate::FileText) -> (r: core::result::Result<crate::BackupMetadata, Error>)
        ensures r.is_ok() && t.src_meta_id() is Some ==> r.unwrap() == crate::stored_meta(t.src_meta_id()->Some_0) { unimplemented!() }
    }
}
pub mod fs {
    use vstd::prelude::*;
    verus! {
    #[verifier::external_body] pub struct Metadata { _p: core::marker::PhantomData<()> }
    impl Metadata { #[verifier::external_body] pub fn len(&self) -> u64 { unimplemented!() } }
    #[verifier::external_body] pub fn metadata(p: &crate::Path) -> (r: core::result::Result<Metadata, crate::io::Error>) { unimplemented!() }
    #[verifier::external_body] pub fn remove_file(p: &crate::Path) -> (r: core::result::Result<(), crate::io::Error>) { unimplemented!() }
    #[verifier::external_body] pub fn write(p: crate::PathBuf, j: crate::MetaJson) -> (r: core::result::Result<(), crate::io::Error>)
        requires crate::meta_write_allowed(p@, j.record()),
        ensures r.is_ok() ==> crate::meta_written(p@, j.record()) { unimplemented!() }
    #[verifier::external_body] pub fn read_to_string(p: crate::PathBuf) -> (r: core::result::Result<crate::FileText, crate::io::Error>)
        ensures r.is_ok() ==> r.unwrap().src_meta_id() == crate::meta_id_of(p@) { unimplemented!() }
    }
}
verus! {
//@include anyhow_ext.rs
//@include string_axioms.rs
//@include archive_io_env.rs
//@include archive_checksum_spec.rs
//@include backup_archive_spec.rs
//@include backup_roundtrip_lemmas.rs
//@include sort_specs.rs

#[derive(Debug, Clone, Copy, PartialEq, Eq, Structural)]
pub struct Uuid { pub v: u128 }
impl Uuid { #[verifier::external_body] pub fn new_v4() -> Uuid { unimplemented!() } }
//@item engine/src/backup.rs enum BackupType
//@ derive Debug, Clone, Copy, PartialEq, Eq, Structural
//@end
//@item engine/src/backup.rs struct BackupMetadata
//@end
//@item engine/src/backup.rs struct BackupManager
//@end
//@item engine/src/persistence.rs struct Manifest
//@end
//@item engine/src/backup.rs enum ManifestLayout
//@end
//@item engine/src/backup.rs const BACKUP_CONSISTENCY_MAX_ATTEMPTS
//@end

// ---- clock
pub struct SystemTime { pub t: u64 }
pub struct Duration { pub s: u64 }
pub struct SystemTimeError { pub x: bool }
pub const UNIX_EPOCH: SystemTime = SystemTime { t: 0 };
impl SystemTime {
    #[verifier::external_body] pub fn now() -> SystemTime { unimplemented!() }
    #[verifier::external_body] pub fn duration_since(&self, e: SystemTime) -> core::result::Result<Duration, SystemTimeError> { unimplemented!() }
}
impl Duration { pub fn as_secs(&self) -> (r: u64) ensures r == self.s { self.s } }
impl Default for Duration { fn default() -> Duration { Duration { s: 0 } } }

// ---- names and paths
pub uninterp spec fn child(dir: Seq<char>, name: Seq<char>) -> Seq<char>;          // Path::join
pub uninterp spec fn fmt1(lit: Seq<char>, arg: Seq<char>) -> Seq<char>;            // format!(lit, arg) with one `{}`
pub uninterp spec fn uuid_text(id: Uuid) -> Seq<char>;
pub uninterp spec fn u64_text(n: u64) -> Seq<char>;
pub trait FmtArg { spec fn fmt_text(&self) -> Seq<char>; }
impl FmtArg for Uuid { open spec fn fmt_text(&self) -> Seq<char> { uuid_text(*self) } }
impl FmtArg for u64 { open spec fn fmt_text(&self) -> Seq<char> { u64_text(*self) } }
#[verifier::external_body] pub fn vx_fmt1<T: FmtArg>(l: &str, a: T) -> (r: String) ensures r@ == fmt1(l@, a.fmt_text()) { unimplemented!() }
pub trait JoinArg { spec fn join_text(&self) -> Seq<char>; }
impl JoinArg for String { open spec fn join_text(&self) -> Seq<char> { self@ } }
impl<'a> JoinArg for &'a String { open spec fn join_text(&self) -> Seq<char> { (**self)@ } }
impl<'a> JoinArg for &'a str { open spec fn join_text(&self) -> Seq<char> { (*self)@ } }
impl Path {
    #[verifier::external_body] pub fn join<T: JoinArg>(&self, x: T) -> (r: PathBuf) ensures r@ == child(self@, x.join_text()) { unimplemented!() }
}
// backup_dir/backup_<id>.tar and backup_dir/backup_<id>.json
pub open spec fn archive_path(dir: Seq<char>, id: Uuid) -> Seq<char> { child(dir, fmt1("backup_{}.tar"@, uuid_text(id))) }
pub open spec fn meta_path(dir: Seq<char>, id: Uuid) -> Seq<char> { child(dir, fmt1("backup_{}.json"@, uuid_text(id))) }

// ---- what is on disk (functions of the path: quiescence assumption)
pub uninterp spec fn disk_layout(manifest_path: Seq<char>) -> Option<ManifestLayout>;
pub uninterp spec fn wal_listing(dir: Seq<char>) -> Seq<(String, PathBuf)>;
pub uninterp spec fn is_wal_name(name: Seq<char>) -> bool;                          // starts with "wal_", ends with ".wal"
pub uninterp spec fn manifest_json(m: Manifest) -> Seq<u8>;                        // serde_json::to_vec_pretty
pub uninterp spec fn wal_file_id(name: Seq<char>) -> Option<u64>;                  // parse_wal_file_id
pub open spec fn listing_ok(dir: Seq<char>, l: Seq<(String, PathBuf)>) -> bool {
    &&& forall|i: int| 0 <= i < l.len() ==> (#[trigger] l[i]).1@ == child(dir, l[i].0@) && is_wal_name(l[i].0@) && file_exists(l[i].1@)
    &&& forall|i: int, j: int| 0 <= i < j < l.len() ==> (#[trigger] l[i]).0@ != (#[trigger] l[j]).0@
}
pub open spec fn name_listed(l: Seq<(String, PathBuf)>, x: Seq<char>) -> bool { exists|i: int| 0 <= i < l.len() && (#[trigger] l[i]).0@ == x }
pub open spec fn on_disk(dir: Seq<char>, name: Seq<char>) -> bool { name_listed(wal_listing(dir), name) }
#[verifier::external_body] pub fn list_wal_segments_in_dir(data_dir: &Path) -> (r: Result<Vec<(String, PathBuf)>>)
    ensures r.is_ok() ==> r.unwrap()@ == wal_listing(data_dir@) && listing_ok(data_dir@, wal_listing(data_dir@)) { unimplemented!() }
#[verifier::external_body] pub fn read_manifest_layout(path: &Path) -> (r: Result<Option<ManifestLayout>>)
    ensures r.is_ok() ==> r.unwrap() == disk_layout(path@), r.is_ok() ==> (r.unwrap() is None <==> !file_exists(path@)) { unimplemented!() }
#[verifier::external_body] pub fn parse_wal_file_id(file_name: &str) -> (r: Option<u64>)
    ensures r == wal_file_id(file_name@) { unimplemented!() }
#[verifier::external_body] pub fn read_snapshot_doc_count(path: &Path) -> (r: Result<u64>) { unimplemented!() }

// ---- metadata records on disk
#[verifier::external_body] pub struct MetaJson { _p: core::marker::PhantomData<()> }
impl MetaJson { pub uninterp spec fn record(&self) -> BackupMetadata; }
#[verifier::external_body] pub struct FileText { _p: core::marker::PhantomData<()> }
impl FileText { pub uninterp spec fn src_meta_id(&self) -> Option<Uuid>; }
pub uninterp spec fn stored_meta(id: Uuid) -> BackupMetadata;                       // content of backup_<id>.json (vocabulary of prelude/restore_env.rs)
pub uninterp spec fn meta_id_of(path: Seq<char>) -> Option<Uuid>;                   // Some(id) for <dir>/backup_<id>.json
#[verifier::external_body] pub broadcast proof fn axiom_meta_id_of(dir: Seq<char>, id: Uuid)
    ensures #[trigger] meta_id_of(meta_path(dir, id)) == Some(id) {}
// capabilities
pub uninterp spec fn meta_written(path: Seq<char>, m: BackupMetadata) -> bool;     // granted by fs::write Ok
pub uninterp spec fn recheck_passed(es: Seq<ArchiveEntry>, fps: Map<String, SourceFingerprint>) -> bool;   // granted by verify_source_fingerprints Ok
// the archive of record `m` is complete: written from the entries `es`, flushed, fsynced; its sources had the same fingerprints
// before and after the copy; the record carries the checksum the writer computed
pub open spec fn archive_complete(dir: Seq<char>, m: BackupMetadata, es: Seq<ArchiveEntry>) -> bool {
    &&& durable_file(archive_path(dir, m.id), archive_bytes(es))
    &&& m.checksum == payload_sum(es, es.len() as int)
    &&& es.len() <= 1_000_000
    &&& exists|fps: Map<String, SourceFingerprint>| fps_cover(es, fps) && #[trigger] recheck_passed(es, fps)
}
pub open spec fn meta_write_allowed(path: Seq<char>, m: BackupMetadata) -> bool {
    exists|dir: Seq<char>, es: Seq<ArchiveEntry>| path == meta_path(dir, m.id) && #[trigger] archive_complete(dir, m, es)
}
pub proof fn lemma_archive_complete(dir: Seq<char>, m: BackupMetadata, es: Seq<ArchiveEntry>, fps: Map<String, SourceFingerprint>, path: Seq<char>)
    ensures
        (durable_file(archive_path(dir, m.id), archive_bytes(es)) && m.checksum == payload_sum(es, es.len() as int) && es.len() <= 1_000_000
            && fps_cover(es, fps) && recheck_passed(es, fps)) ==> archive_complete(dir, m, es),
        (archive_complete(dir, m, es) && path == meta_path(dir, m.id)) ==> meta_write_allowed(path, m),
{
}
// what the record's checksum is worth to the reading side (needs members the reader accepts: see backup_roundtrip_lemmas.rs)
pub proof fn lemma_complete_verifies(dir: Seq<char>, m: BackupMetadata, es: Seq<ArchiveEntry>)
    ensures (archive_complete(dir, m, es) && all_members_ok(es)) ==> archive_checksum(archive_bytes(es)) == Some(m.checksum),
{
    lemma_archive_roundtrip(es);
}

#[verifier::external_body] pub fn verify_source_fingerprints(entries: &[ArchiveEntry], expected: &HashMap<String, SourceFingerprint>) -> (r: Result<()>)
    ensures r.is_ok() ==> fps_match(entries@, expected@) && recheck_passed(entries@, expected@) { unimplemented!() }
//@stub backup_archive_write write_backup_archive
//@stub backup_archive_write snapshot_source_fingerprints
impl ArchiveEntry {
//@stub backup_archive_write ArchiveEntry::from_path
//@stub backup_archive_write ArchiveEntry::from_bytes
}

// ---- BTreeSet<String>: a set of strings
#[verifier::external_body] #[verifier::reject_recursive_types(T)] pub struct BTreeSet<T> { _p: core::marker::PhantomData<T> }
impl BTreeSet<String> {
    pub uninterp spec fn view(&self) -> Set<Seq<char>>;
    #[verifier::external_body] pub fn new() -> (r: BTreeSet<String>) ensures r@ == Set::<Seq<char>>::empty() { unimplemented!() }
    #[verifier::external_body] pub fn insert(&mut self, s: String) -> (b: bool)
        ensures final(self)@ == old(self)@.insert(s@), b == !old(self)@.contains(s@) { unimplemented!() }
    #[verifier::external_body] pub fn contains(&self, s: &String) -> (b: bool) ensures b == self@.contains(s@) { unimplemented!() }
}
pub open spec fn name_in(s: Seq<String>, x: Seq<char>) -> bool { exists|i: int| 0 <= i < s.len() && (#[trigger] s[i])@ == x }
#[verifier::external_body] pub fn vx_names_of(v: &Vec<(String, PathBuf)>) -> (r: BTreeSet<String>)
    ensures forall|x: Seq<char>| #[trigger] r@.contains(x) <==> name_listed(v@, x) { unimplemented!() }
#[verifier::external_body] pub fn vx_set_of(v: &Vec<String>) -> (r: BTreeSet<String>)
    ensures forall|x: Seq<char>| #[trigger] r@.contains(x) <==> name_in(v@, x) { unimplemented!() }
#[verifier::external_body] pub fn vx_set_difference(a: &BTreeSet<String>, b: &BTreeSet<String>) -> (r: Vec<String>)
    ensures forall|x: Seq<char>| #[trigger] name_in(r@, x) <==> (a@.contains(x) && !b@.contains(x)) { unimplemented!() }

// ---- Vec::dedup, Option::filter, Ordering::then_with, String::cmp
pub open spec fn dedup_spec<T: PartialEq>(s: Seq<T>) -> Seq<T> decreases s.len() {
    if s.len() == 0 { s } else {
        let r = dedup_spec(s.drop_last());
        if r.len() > 0 && s.last().eq_spec(&r.last()) { r } else { r.push(s.last()) }
    }
}
pub assume_specification<T: PartialEq, A: std::alloc::Allocator>[Vec::<T, A>::dedup](v: &mut Vec<T, A>)
    ensures <T as PartialEqSpec>::obeys_eq_spec() ==> final(v)@ == dedup_spec(old(v)@);
pub assume_specification<T, P: FnOnce(&T) -> bool>[Option::<T>::filter](o: Option<T>, p: P) -> (r: Option<T>)
    requires o matches Some(v) ==> p.requires((&v,)),
    ensures
        o is None ==> r is None,
        o matches Some(v) ==> (r == o && p.ensures((&v,), true)) || (r is None && p.ensures((&v,), false));
pub assume_specification<F: FnOnce() -> CmpOrdering>[CmpOrdering::then_with](o: CmpOrdering, f: F) -> (r: CmpOrdering)
    requires o == CmpOrdering::Equal ==> f.requires(()),
    ensures o != CmpOrdering::Equal ==> r == o, o == CmpOrdering::Equal ==> f.ensures((), r);
pub uninterp spec fn str_cmp(a: Seq<char>, b: Seq<char>) -> CmpOrdering;
#[verifier::external_body] pub broadcast proof fn axiom_str_cmp(a: Seq<char>, b: Seq<char>)
    ensures #![trigger str_cmp(a, b)] (str_cmp(a, b) == CmpOrdering::Equal <==> a == b) && str_cmp(b, a) == ord_rev(str_cmp(a, b)) {}
#[verifier::external_body] pub proof fn axiom_str_cmp_trans(a: Seq<char>, b: Seq<char>, c: Seq<char>)
    ensures (str_cmp(a, b) != CmpOrdering::Greater && str_cmp(b, c) != CmpOrdering::Greater) ==> str_cmp(a, c) != CmpOrdering::Greater {}
#[verifier::external_body] pub fn vx_string_cmp(a: &String, b: &String) -> (o: CmpOrdering) ensures o == str_cmp(a@, b@) { unimplemented!() }

// ---- the order of WAL segment names: by file id (unparsable = 0), ties by name.  Recovery replays manifest.wal_segments in LIST
//      order (unit recover_segments), so the list that goes into the archive must be ascending in the file id
pub open spec fn id0(name: Seq<char>) -> u64 { match wal_file_id(name) { Some(i) => i, None => 0 } }
pub open spec fn seg_cmp(a: Seq<char>, b: Seq<char>) -> CmpOrdering {
    if id0(a) < id0(b) { CmpOrdering::Less } else if id0(a) > id0(b) { CmpOrdering::Greater } else { str_cmp(a, b) }
}
pub open spec fn seg_le(a: Seq<char>, b: Seq<char>) -> bool { seg_cmp(a, b) != CmpOrdering::Greater }
pub open spec fn seg_lt(a: Seq<char>, b: Seq<char>) -> bool { seg_cmp(a, b) == CmpOrdering::Less }
pub open spec fn segs_sorted(s: Seq<String>) -> bool { forall|i: int, j: int| 0 <= i < j < s.len() ==> seg_le((#[trigger] s[i])@, (#[trigger] s[j])@) }
pub open spec fn segs_strict(s: Seq<String>) -> bool { forall|i: int, j: int| 0 <= i < j < s.len() ==> seg_lt((#[trigger] s[i])@, (#[trigger] s[j])@) }
// what replay order needs, and what a reversed comparator breaks
pub open spec fn ids_ascending(s: Seq<String>) -> bool { forall|i: int, j: int| 0 <= i < j < s.len() ==> id0((#[trigger] s[i])@) <= id0((#[trigger] s[j])@) }
pub open spec fn names_distinct(s: Seq<String>) -> bool { forall|i: int, j: int| 0 <= i < j < s.len() ==> (#[trigger] s[i])@ != (#[trigger] s[j])@ }
pub open spec fn cmp_is_seg_cmp<F: FnMut(&String, &String) -> CmpOrdering>(f: F) -> bool {
    forall|a: String, b: String, o: CmpOrdering| #[trigger] cl_ens(f, a, b, o) ==> o == seg_cmp(a@, b@)
}
pub proof fn lemma_seg_le_trans(a: Seq<char>, b: Seq<char>, c: Seq<char>)
    ensures (seg_le(a, b) && seg_le(b, c)) ==> seg_le(a, c), (seg_le(a, b) && seg_lt(b, c)) ==> seg_lt(a, c), (seg_lt(a, b) && seg_le(b, c)) ==> seg_lt(a, c),
{
    broadcast use axiom_str_cmp;
    axiom_str_cmp_trans(a, b, c);
    axiom_str_cmp_trans(c, a, b);
    axiom_str_cmp_trans(b, c, a);
}
pub proof fn lemma_seg_cmp_consistent<F: FnMut(&String, &String) -> CmpOrdering>(f: F, s: Seq<String>)
    ensures cmp_is_seg_cmp(f) ==> cmp_consistent(f, s),
{
    broadcast use axiom_str_cmp;
    if cmp_is_seg_cmp(f) {
        assert forall|i: int, j: int, l: int, o1: CmpOrdering, o2: CmpOrdering, o3: CmpOrdering| 0 <= i < s.len() && 0 <= j < s.len() && 0 <= l < s.len()
            && #[trigger] cl_ens(f, s[i], s[j], o1) && #[trigger] cl_ens(f, s[j], s[l], o2) && #[trigger] cl_ens(f, s[i], s[l], o3)
            && o1 != CmpOrdering::Greater && o2 != CmpOrdering::Greater implies o3 != CmpOrdering::Greater by {
            lemma_seg_le_trans(s[i]@, s[j]@, s[l]@);
        }
    }
}
pub proof fn lemma_sorted_segs<F: FnMut(&String, &String) -> CmpOrdering>(f: F, s: Seq<String>)
    ensures (cmp_is_seg_cmp(f) && sorted_by_closure(f, s)) ==> segs_sorted(s),
{
    if cmp_is_seg_cmp(f) && sorted_by_closure(f, s) {
        assert forall|i: int, j: int| 0 <= i < j < s.len() implies seg_le((#[trigger] s[i])@, (#[trigger] s[j])@) by {
            assert(closure_le(f, s[i], s[j]));
        }
    }
}
pub proof fn lemma_multiset_names(a: Seq<String>, b: Seq<String>)
    ensures a.to_multiset() == b.to_multiset() ==> forall|x: Seq<char>| name_in(a, x) <==> name_in(b, x),
{
    if a.to_multiset() == b.to_multiset() {
        a.to_multiset_ensures(); b.to_multiset_ensures();
        assert forall|x: Seq<char>| name_in(a, x) implies name_in(b, x) by {
            let i = choose|i: int| 0 <= i < a.len() && (#[trigger] a[i])@ == x;
            assert(a.contains(a[i]));
            assert(a.to_multiset().count(a[i]) > 0);
            assert(b.contains(a[i]));
            let j = choose|j: int| 0 <= j < b.len() && b[j] == a[i];
            assert(b[j]@ == x);
        }
        assert forall|x: Seq<char>| name_in(b, x) implies name_in(a, x) by {
            let i = choose|i: int| 0 <= i < b.len() && (#[trigger] b[i])@ == x;
            assert(b.contains(b[i]));
            assert(b.to_multiset().count(b[i]) > 0);
            assert(a.contains(b[i]));
            let j = choose|j: int| 0 <= j < a.len() && a[j] == b[i];
            assert(a[j]@ == x);
        }
    }
}
// sorted, then dedup: strictly ascending, same names
pub proof fn lemma_dedup_sorted(s: Seq<String>)
    requires segs_sorted(s),
    ensures
        segs_strict(dedup_spec(s)),
        forall|x: Seq<char>| name_in(s, x) <==> name_in(dedup_spec(s), x),
        s.len() > 0 ==> dedup_spec(s).len() > 0 && dedup_spec(s).last() == s.last(),
    decreases s.len()
{
    broadcast use axiom_str_cmp, axiom_string_eq_spec, axiom_string_ext;
    if s.len() > 0 {
        let t = s.drop_last();
        let r = dedup_spec(t);
        let d = dedup_spec(s);
        assert forall|i: int, j: int| 0 <= i < j < t.len() implies seg_le((#[trigger] t[i])@, (#[trigger] t[j])@) by {
            assert(t[i] == s[i] && t[j] == s[j]);
        }
        lemma_dedup_sorted(t);
        if r.len() > 0 && s.last().eq_spec(&r.last()) {
            assert(d == r);
            assert(s.last()@ == r.last()@);
            assert forall|x: Seq<char>| name_in(s, x) implies name_in(d, x) by {
                let i = choose|i: int| 0 <= i < s.len() && (#[trigger] s[i])@ == x;
                if i < t.len() { assert(t[i]@ == x); assert(name_in(t, x)); assert(name_in(r, x)); } else { assert(r[r.len() - 1]@ == x); assert(name_in(r, x)); }
            }
            assert forall|x: Seq<char>| name_in(d, x) implies name_in(s, x) by {
                assert(name_in(r, x));
                assert(name_in(t, x));
                let i = choose|i: int| 0 <= i < t.len() && (#[trigger] t[i])@ == x;
                assert(s[i]@ == x);
            }
        } else {
            assert(d == r.push(s.last()));
            assert forall|i: int, j: int| 0 <= i < j < d.len() implies seg_lt((#[trigger] d[i])@, (#[trigger] d[j])@) by {
                if j < r.len() {
                    assert(d[i] == r[i] && d[j] == r[j]);
                } else {
                    assert(d[j] == s.last());
                    assert(d[i] == r[i]);
                    // r is non-empty here (i < r.len()): r.last() == t.last() == s[s.len() - 2]
                    assert(r.last() == t.last());
                    assert(t.last() == s[s.len() - 2]);
                    assert(seg_le(s[s.len() - 2]@, s[s.len() - 1]@));
                    assert(!s.last().eq_spec(&r.last()));
                    assert(s.last()@ != r.last()@);
                    assert(seg_lt(r.last()@, s.last()@));
                    if i < r.len() - 1 {
                        assert(seg_lt(r[i]@, r[r.len() - 1]@));
                        lemma_seg_le_trans(r[i]@, r.last()@, s.last()@);
                    }
                }
            }
            assert forall|x: Seq<char>| name_in(s, x) implies name_in(d, x) by {
                let i = choose|i: int| 0 <= i < s.len() && (#[trigger] s[i])@ == x;
                if i < t.len() {
                    assert(t[i]@ == x); assert(name_in(t, x)); assert(name_in(r, x));
                    let j = choose|j: int| 0 <= j < r.len() && (#[trigger] r[j])@ == x;
                    assert(d[j] == r[j]);
                    assert(d[j]@ == x);
                } else { assert(d[d.len() - 1] == s.last()); assert(d[d.len() - 1]@ == x); }
            }
            assert forall|x: Seq<char>| name_in(d, x) implies name_in(s, x) by {
                let j = choose|j: int| 0 <= j < d.len() && (#[trigger] d[j])@ == x;
                if j < r.len() {
                    assert(d[j] == r[j]);
                    assert(r[j]@ == x); assert(name_in(r, x)); assert(name_in(t, x));
                    let i = choose|i: int| 0 <= i < t.len() && (#[trigger] t[i])@ == x;
                    assert(s[i] == t[i]);
                    assert(s[i]@ == x);
                } else { assert(d[j] == s.last()); assert(s[s.len() - 1]@ == x); }
            }
        }
    }
}
pub proof fn lemma_dedup_sorted_imp(s: Seq<String>)
    ensures
        segs_sorted(s) ==> segs_strict(dedup_spec(s)),
        segs_sorted(s) ==> forall|x: Seq<char>| name_in(s, x) <==> name_in(dedup_spec(s), x),
{
    if segs_sorted(s) { lemma_dedup_sorted(s); }
}
pub proof fn lemma_concat_names(a: Seq<String>, d: Seq<String>)
    ensures forall|x: Seq<char>| name_in(a + d, x) <==> (name_in(a, x) || name_in(d, x)),
{
    let c = a + d;
    assert forall|x: Seq<char>| name_in(c, x) implies (name_in(a, x) || name_in(d, x)) by {
        let i = choose|i: int| 0 <= i < c.len() && (#[trigger] c[i])@ == x;
        if i < a.len() { assert(a[i]@ == x); } else { assert(d[i - a.len()]@ == x); }
    }
    assert forall|x: Seq<char>| (name_in(a, x) || name_in(d, x)) implies name_in(c, x) by {
        if name_in(a, x) {
            let i = choose|i: int| 0 <= i < a.len() && (#[trigger] a[i])@ == x;
            assert(c[i]@ == x);
        } else {
            let i = choose|i: int| 0 <= i < d.len() && (#[trigger] d[i])@ == x;
            assert(c[a.len() + i]@ == x);
        }
    }
}
// the MANIFEST that goes into the archive (m1) for the MANIFEST found on disk (m0): snapshot pointer, its sequence number and the
// other header fields are kept; the segment list is strictly ascending in (file id, name) -- hence ascending in the file id and
// free of duplicates -- and names exactly the listed segments plus the `added` ones
pub open spec fn shipped_manifest(m0: Manifest, m1: Manifest, added: spec_fn(Seq<char>) -> bool) -> bool {
    &&& m1.version == m0.version
    &&& m1.latest_snapshot == m0.latest_snapshot
    &&& m1.latest_snapshot_wal_seq == m0.latest_snapshot_wal_seq
    &&& m1.last_updated == m0.last_updated
    &&& segs_strict(m1.wal_segments@)
    &&& forall|x: Seq<char>| #[trigger] name_in(m1.wal_segments@, x) <==> (name_in(m0.wal_segments@, x) || added(x))
}
pub proof fn lemma_shipped(m0: Manifest, m1: Manifest, added: spec_fn(Seq<char>) -> bool, diff: Seq<String>, sa: Seq<String>, sb: Seq<String>)
    ensures
        (m1.version == m0.version && m1.latest_snapshot == m0.latest_snapshot && m1.latest_snapshot_wal_seq == m0.latest_snapshot_wal_seq
            && m1.last_updated == m0.last_updated
            && (forall|x: Seq<char>| #[trigger] name_in(diff, x) <==> (added(x) && !name_in(m0.wal_segments@, x)))
            && sa == m0.wal_segments@ + diff.take(diff.len() as int) && sa.to_multiset() == sb.to_multiset() && segs_sorted(sb) && m1.wal_segments@ == dedup_spec(sb))
        ==> shipped_manifest(m0, m1, added),
{
    if m1.version == m0.version && m1.latest_snapshot == m0.latest_snapshot && m1.latest_snapshot_wal_seq == m0.latest_snapshot_wal_seq
            && m1.last_updated == m0.last_updated
            && (forall|x: Seq<char>| #[trigger] name_in(diff, x) <==> (added(x) && !name_in(m0.wal_segments@, x)))
            && sa == m0.wal_segments@ + diff.take(diff.len() as int) && sa.to_multiset() == sb.to_multiset() && segs_sorted(sb) && m1.wal_segments@ == dedup_spec(sb) {
        assert(diff.take(diff.len() as int) =~= diff);
        lemma_concat_names(m0.wal_segments@, diff);
        lemma_multiset_names(sa, sb);
        lemma_dedup_sorted_imp(sb);
        assert forall|x: Seq<char>| #[trigger] name_in(m1.wal_segments@, x) <==> (name_in(m0.wal_segments@, x) || added(x)) by {
            assert(name_in(m1.wal_segments@, x) <==> name_in(sb, x));
            assert(name_in(sb, x) <==> name_in(sa, x));
            assert(name_in(sa, x) <==> (name_in(m0.wal_segments@, x) || name_in(diff, x)));
            assert(name_in(diff, x) <==> (added(x) && !name_in(m0.wal_segments@, x)));
        }
    }
}
pub open spec fn is_file_entry(e: ArchiveEntry, dir: Seq<char>, name: Seq<char>) -> bool {
    e.name@ == name && e.source is Path && e.source->Path_0@ == child(dir, name)
}
pub open spec fn is_bytes_entry(e: ArchiveEntry, name: Seq<char>, bytes: Seq<u8>) -> bool {
    e.name@ == name && e.source is Bytes && e.source->Bytes_0@ == bytes
}
// entry off + i is the i-th listed segment, as a file of the data directory
pub open spec fn seg_entry_ok(es: Seq<ArchiveEntry>, off: int, segs: Seq<String>, dir: Seq<char>, i: int) -> bool {
    is_file_entry(es[off + i], dir, segs[i]@)
}
// entry off + i is the i-th element (name, path) of a directory listing
pub open spec fn listing_entry_ok(es: Seq<ArchiveEntry>, off: int, l: Seq<(String, PathBuf)>, i: int) -> bool {
    es[off + i].name == l[i].0 && es[off + i].source == ArchiveEntrySource::Path(l[i].1)
}
pub open spec fn max_id_listing(l: Seq<(String, PathBuf)>, n: int) -> Option<u64> decreases n {
    if n <= 0 { None } else { max_opt(max_id_listing(l, n - 1), wal_file_id(l[n - 1].0@)) }
}
// ---- the de-duplication pass over the entry list: the FIRST entry of every name survives
pub open spec fn entry_named(es: Seq<ArchiveEntry>, n: int, x: Seq<char>) -> bool { exists|k: int| 0 <= k < n && (#[trigger] es[k]).name@ == x }
pub open spec fn uniq_first(es: Seq<ArchiveEntry>, n: int) -> Seq<ArchiveEntry> decreases n {
    if n <= 0 { Seq::empty() } else if entry_named(es, n - 1, es[n - 1].name@) { uniq_first(es, n - 1) } else { uniq_first(es, n - 1).push(es[n - 1]) }
}
pub open spec fn entry_names_distinct(es: Seq<ArchiveEntry>) -> bool {
    forall|i: int, j: int| 0 <= i < j < es.len() ==> (#[trigger] es[i]).name@ != (#[trigger] es[j]).name@
}
// with pairwise distinct names (the normal case) the pass changes nothing
pub proof fn lemma_uniq_distinct(es: Seq<ArchiveEntry>, n: int)
    requires entry_names_distinct(es), 0 <= n <= es.len(),
    ensures uniq_first(es, n) == es.take(n),
    decreases n
{
    if n > 0 {
        lemma_uniq_distinct(es, n - 1);
        if entry_named(es, n - 1, es[n - 1].name@) {
            let k = choose|k: int| 0 <= k < n - 1 && (#[trigger] es[k]).name@ == es[n - 1].name@;
            assert(es[k].name@ != es[n - 1].name@);
        }
        assert(es.take(n - 1).push(es[n - 1]) =~= es.take(n));
    } else {
        assert(es.take(0) =~= Seq::<ArchiveEntry>::empty());
    }
}
pub proof fn lemma_strict_props(s: Seq<String>)
    ensures segs_strict(s) ==> ids_ascending(s) && names_distinct(s),
{
    broadcast use axiom_str_cmp;
}

// ---- max file id over the archived segments
pub open spec fn max_opt(cur: Option<u64>, cand: Option<u64>) -> Option<u64> {
    match (cur, cand) { (Some(c), Some(x)) => Some(if c >= x { c } else { x }), (None, Some(x)) => Some(x), (c, None) => c }
}
pub open spec fn max_id(s: Seq<String>, n: int) -> Option<u64> decreases n {
    if n <= 0 { None } else { max_opt(max_id(s, n - 1), wal_file_id(s[n - 1]@)) }
}
// max_id is the greatest parsable id (and None iff no name parses)
pub proof fn lemma_max_id(s: Seq<String>, n: int)
    requires 0 <= n <= s.len(),
    ensures
        forall|i: int| 0 <= i < n && wal_file_id((#[trigger] s[i])@) is Some ==> max_id(s, n) is Some && wal_file_id(s[i]@)->Some_0 <= max_id(s, n)->Some_0,
        max_id(s, n) is Some ==> exists|i: int| 0 <= i < n && wal_file_id((#[trigger] s[i])@) == max_id(s, n),
    decreases n
{
    if n > 0 {
        lemma_max_id(s, n - 1);
        if max_id(s, n) is Some {
            if max_id(s, n) == wal_file_id(s[n - 1]@) { } else {
                let i = choose|i: int| 0 <= i < n - 1 && wal_file_id((#[trigger] s[i])@) == max_id(s, n - 1);
                assert(wal_file_id(s[i]@) == max_id(s, n));
            }
        }
    }
}

} // verus! (backup_create_env)
