// PackedLevel0 (engine/src/ann_backend.rs) as seen by unit packed_level0 and by its client units (inside verus!): the real struct
// and constants (extracted), the pointer model used for its unsafe accessors, and the layout invariant `wf`.
//@assume a `*const u32` derived from `PackedLevel0::data` is modelled as the pair (borrow of `data`, word offset) (`VxWordPtr`), a `*const i8` derived from it as (borrow of `data`, byte offset) (`VxBytePtr`, the offset is ghost: a `wrapping_add` may leave the allocation); pointer casts are erased: u32 and f32 have the same size and alignment, every bit pattern is a valid f32
//@item engine/src/ann_backend.rs const PACKED_LEVEL0_RECORD_ALIGN_WORDS
//@end
//@item engine/src/ann_backend.rs const INVALID_DENSE_ID
//@end
//@item engine/src/ann_backend.rs struct PackedLevel0
//@end

// ---------------------------------------------------------------- model of a word pointer into `data`
pub struct VxWordPtr<'a> {
    pub base: &'a Vec<u32>,
    pub off: usize,
}

/// bit pattern of an f32 lane (`f32::to_bits`; the lanes live in the `Vec<u32>` as bit patterns)
pub uninterp spec fn f32_bits(x: f32) -> u32;

/// model of a byte pointer (`*const i8`) derived from `data`; `byte_off` may lie outside the allocation (after `wrapping_add`)
pub struct VxBytePtr<'a> {
    pub base: &'a Vec<u32>,
    pub byte_off: Ghost<int>,
}

impl<'a> VxWordPtr<'a> {
    /// `p as *const i8`: same address, byte units
    pub fn cast_i8(self) -> (r: VxBytePtr<'a>)
        ensures r.base == self.base, r.byte_off@ == self.off * 4,
    { VxBytePtr { base: self.base, byte_off: Ghost(self.off as int * 4) } }
}

// ---------------------------------------------------------------- layout invariant
pub open spec fn imin(a: int, b: int) -> int { if a <= b { a } else { b } }

impl PackedLevel0 {
    /// number of records
    pub open spec fn spec_len(&self) -> int { self.data.len() as int / self.record_words as int }

    /// record layout: [count word | cap neighbour words | dimension lane words | padding], `data` holds whole records only
    pub open spec fn wf(&self) -> bool {
        &&& self.cap >= 1
        &&& self.dimension >= 1
        &&& self.vector_offset_words == 1 + self.cap
        &&& self.vector_offset_words + self.dimension <= self.record_words
        &&& self.record_words * 4 <= usize::MAX
        &&& self.spec_len() * self.record_words == self.data.len()
    }

    pub open spec fn same_layout(&self, o: &PackedLevel0) -> bool {
        self.cap == o.cap && self.dimension == o.dimension && self.record_words == o.record_words
            && self.vector_offset_words == o.vector_offset_words
    }

    /// first word of record `dense`
    pub open spec fn rec(&self, dense: int) -> int { dense * self.record_words }
}

