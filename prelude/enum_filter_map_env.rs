// Stub of std's `enumerate()` / `filter_map(f)` / `collect()` for chains `v.iter().enumerate().filter_map(f).collect::<Vec<_>>()`
// whose RESULT ORDER AND POSITIONS matter (inside verus!, after prelude/iter_chain_env.rs for `VxIter` / `.vx_iter()`).
// The chain text stays the real one; only `.iter()` is renamed to `.vx_iter()` (declared `std-rename` rewrite).  The adapters take the
// REAL closures and speak about them only through `f.requires` / `f.ensures`, so each closure body is verified against its own declared
// closure contract.  Unlike `VxIter::filter_map` (prelude/iter_chain_env.rs: "some items that f answered Some for"), the `filter_map`
// of this file is EXACT: it says which source item every output item stems from (ghost `vx_origin`), that the origins are strictly
// increasing (order preserved, no item used twice) and that every source item that is NOT an origin was answered `None`.
//@trusted VxIter::enumerate (Iterator::enumerate over slice::Iter, prelude/enum_filter_map_env.rs): yields (i, item_i) for every item, in order, i counted from 0 (no overflow: a slice has at most usize::MAX elements)
//@trusted VxSeqIter::filter_map(f) (Iterator::filter_map, prelude/enum_filter_map_env.rs), exact and order-preserving: f is called on every source item once, in order (so `f.requires` must hold for each of them); the output is the sequence of payloads of the `Some` answers in source order: stated with the ghost witness `vx_origin()` = strictly increasing source indices, `f.ensures(src[origin[j]], Some(out[j]))` for every output position j, `f.ensures(src[i], None)` for every source index i that is no origin.  The closure is `FnMut` in std; the stub takes `Fn` (a closure that mutates captured state does not type-check against it) and says nothing about captured state
//@trusted VxSeqIter::map(f) (Iterator::map, prelude/enum_filter_map_env.rs): position-wise, `f.ensures(src[j], out[j])` for every j, same length; VxIter<&Option<U>>::flatten() (Iterator::flatten over `&Option` items): the payloads of the `Some` items in order (recursive spec vx_somes).  Neither occurs in the chains under contract today: they are there so that a chain restructured with them still reaches the verifier (and fails a named obligation) instead of stopping at "no such method"
//@trusted VxSeqIter::collect::<Vec<U>>() (Iterator::collect / FromIterator for Vec, prelude/enum_filter_map_env.rs): the Vec holds exactly the iterator's items, in order
#[verifier::external_body]
#[verifier::reject_recursive_types(T)]
pub struct VxSeqIter<T> { _p: core::marker::PhantomData<T> }

// out = filter_map(f) over src, with origin[j] = index in src of the item that produced out[j]
pub open spec fn vx_filter_map_exact<T, U, F: Fn(T) -> Option<U>>(src: Seq<T>, f: F, out: Seq<U>, origin: Seq<int>) -> bool {
    &&& origin.len() == out.len()
    &&& forall|j: int| 0 <= j < origin.len() ==> 0 <= #[trigger] origin[j] < src.len()
    &&& forall|j: int, k: int| 0 <= j < k < origin.len() ==> #[trigger] origin[j] < #[trigger] origin[k]
    &&& forall|j: int| 0 <= j < origin.len() ==> f.ensures((src[#[trigger] origin[j]],), Some(out[j]))
    &&& forall|i: int| 0 <= i < src.len() && !#[trigger] origin.contains(i) ==> f.ensures((src[i],), None::<U>)
}

// Iterator::flatten over `&Option<U>` items: the payload of every Some, in order
pub open spec fn vx_somes<'a, U>(s: Seq<&'a Option<U>>) -> Seq<&'a U>
    decreases s.len(),
{
    if s.len() == 0 {
        Seq::empty()
    } else {
        let rest = vx_somes(s.drop_last());
        match s.last() {
            Some(x) => rest.push(x),
            None => rest,
        }
    }
}

// what `collect()` may build from the items of an iterator (FromIterator); only Vec is modelled
pub trait VxFromIter<U>: Sized {
    spec fn vx_collected_from(&self, items: Seq<U>) -> bool;
}
impl<U> VxFromIter<U> for Vec<U> {
    open spec fn vx_collected_from(&self, items: Seq<U>) -> bool { self@ == items }
}

impl<T> VxIter<T> {
    #[verifier::external_body]
    pub fn enumerate(self) -> (r: VxSeqIter<(usize, T)>)
        ensures
            r@.len() == self@.len(),
            forall|i: int| 0 <= i < self@.len() ==> (#[trigger] r@[i]).0 as int == i && r@[i].1 == self@[i],
    { unimplemented!() }
}

impl<'a, U> VxIter<&'a Option<U>> {
    #[verifier::external_body]
    pub fn flatten(self) -> (r: VxIter<&'a U>)
        ensures
            r@ == vx_somes(self@),
    { unimplemented!() }
}

impl<T> VxSeqIter<T> {
    pub uninterp spec fn view(&self) -> Seq<T>;
    // ghost: for an iterator returned by `filter_map`, the source index of every item
    pub uninterp spec fn vx_origin(&self) -> Seq<int>;

    #[verifier::external_body]
    pub fn filter_map<U, F: Fn(T) -> Option<U>>(self, f: F) -> (r: VxSeqIter<U>)
        requires
            forall|i: int| 0 <= i < self@.len() ==> f.requires((#[trigger] self@[i],)),
        ensures
            vx_filter_map_exact(self@, f, r@, r.vx_origin()),
    { unimplemented!() }

    #[verifier::external_body]
    pub fn map<U, F: Fn(T) -> U>(self, f: F) -> (r: VxSeqIter<U>)
        requires
            forall|i: int| 0 <= i < self@.len() ==> f.requires((#[trigger] self@[i],)),
        ensures
            r@.len() == self@.len(),
            forall|j: int| 0 <= j < r@.len() ==> f.ensures((self@[j],), #[trigger] r@[j]),
    { unimplemented!() }

    #[verifier::external_body]
    pub fn collect<B: VxFromIter<T>>(self) -> (r: B)
        ensures
            r.vx_collected_from(self@),
    { unimplemented!() }
}
