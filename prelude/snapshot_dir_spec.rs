// Vocabulary of the snapshot-fallback contract (inside verus!): shared by unit snapshot_fallback (which PROVES
// Snapshot::load_with_validation against it) and by the units that see that function through `//@stub`.
// Needs in scope: the stub type `Path`, `Snapshot`, `load_ok` (prelude/snapshot_file_spec.rs).
//@assume quiescent snapshot directory: nobody creates, removes or renames entries of the directory while load_with_validation runs (`dir_listing(dir)`, `dir_readable(dir)` are functions of the directory path)

// final component of a path as text ("" when there is none or it is not UTF-8)
pub uninterp spec fn path_name(p: &Path) -> Seq<char>;
// the directory part of a path (Path::parent)
pub uninterp spec fn path_parent(p: &Path) -> Option<Path>;
// `NAME.trim_start_matches("snapshot_").trim_end_matches(".snap").parse::<u64>().ok()` as a function of the text
pub uninterp spec fn snap_num(name: Seq<char>) -> Option<u64>;
pub open spec fn has_prefix(s: Seq<char>, p: Seq<char>) -> bool { p.len() <= s.len() && s.subrange(0, p.len() as int) == p }
pub open spec fn has_suffix(s: Seq<char>, p: Seq<char>) -> bool { p.len() <= s.len() && s.subrange(s.len() - p.len(), s.len() as int) == p }
pub open spec fn is_snap_name(name: Seq<char>) -> bool { has_prefix(name, "snapshot_"@) && has_suffix(name, ".snap"@) }

// ghost view of one directory entry: its file name (lossy UTF-8) and its full path
pub struct DirItem { pub name: Seq<char>, pub path: Path }
pub uninterp spec fn dir_readable(dir: &Path) -> bool;           // fs::read_dir(dir) succeeds
pub uninterp spec fn dir_listing(dir: &Path) -> Seq<DirItem>;    // the entries read_dir(dir) yields without error, in its order
// observation (capability, granted only by the stub of Path::exists): this execution looked at the file
pub uninterp spec fn probed(p: &Path) -> bool;

pub open spec fn is_cand(e: DirItem) -> bool { is_snap_name(e.name) && snap_num(e.name) is Some }
// the candidate list the directory scan builds from the first n entries: (number, path) of every entry called snapshot_<u64>.snap
pub open spec fn cands_of(l: Seq<DirItem>, n: int) -> Seq<(u64, Path)>
    decreases n
{
    if n <= 0 { Seq::empty() }
    else if is_cand(l[n - 1]) { cands_of(l, n - 1).push((snap_num(l[n - 1].name).unwrap(), l[n - 1].path)) }
    else { cands_of(l, n - 1) }
}
// newest first
pub open spec fn desc(c: Seq<(u64, Path)>) -> bool {
    forall|i: int, j: int| 0 <= i < j < c.len() ==> (#[trigger] c[i]).0 >= (#[trigger] c[j]).0
}
// c is the candidate list of the listing l, sorted newest first (ties: any order)
pub open spec fn sorted_cands(c: Seq<(u64, Path)>, l: Seq<DirItem>) -> bool {
    c.to_multiset() == cands_of(l, l.len() as int).to_multiset() && desc(c)
}
pub open spec fn num_at(c: Seq<(u64, Path)>, k: int) -> u64 { c[k].0 }
pub open spec fn has_num(c: Seq<(u64, Path)>, num: u64) -> bool { exists|k: int| 0 <= k < c.len() && #[trigger] num_at(c, k) == num }
// `skip` candidates are passed over: none when the primary's name has no number or that number is not in the list
// ("trying newest available"), otherwise everything up to and including the FIRST candidate carrying the primary's number
pub open spec fn skip_ok(c: Seq<(u64, Path)>, num: Option<u64>, skip: int) -> bool {
    match num {
        None => skip == 0,
        Some(n) => (skip == 0 && !has_num(c, n))
            || (1 <= skip <= c.len() && num_at(c, skip - 1) == n && forall|j: int| 0 <= j < skip - 1 ==> #[trigger] num_at(c, j) != n),
    }
}
// at most 5 candidates after the skipped ones are tried
pub open spec fn in_window(c: Seq<(u64, Path)>, skip: int, i: int) -> bool { skip <= i < skip + 5 && 0 <= i < c.len() }
// s was loaded from the i-th candidate of the sorted list c of path's directory, i inside the window
pub open spec fn fallback_pick(path: &Path, s: Snapshot, c: Seq<(u64, Path)>, skip: int, i: int) -> bool {
    &&& path_parent(path) is Some
    &&& dir_readable(&path_parent(path).unwrap())
    &&& sorted_cands(c, dir_listing(&path_parent(path).unwrap()))
    &&& skip_ok(c, snap_num(path_name(path)), skip)
    &&& in_window(c, skip, i)
    &&& load_ok(&c[i].1, s)
}
pub open spec fn is_fallback_of(path: &Path, s: Snapshot) -> bool {
    exists|c: Seq<(u64, Path)>, skip: int, i: int| #[trigger] fallback_pick(path, s, c, skip, i)
}
// every candidate of the window was looked at
pub open spec fn window_probed(path: &Path, c: Seq<(u64, Path)>, skip: int) -> bool {
    &&& path_parent(path) is Some
    &&& sorted_cands(c, dir_listing(&path_parent(path).unwrap()))
    &&& skip_ok(c, snap_num(path_name(path)), skip)
    &&& forall|i: int| in_window(c, skip, i) ==> probed(&(#[trigger] c[i]).1)
}
pub open spec fn all_fallbacks_probed(path: &Path) -> bool {
    exists|c: Seq<(u64, Path)>, skip: int| #[trigger] window_probed(path, c, skip)
}
// e is an entry of the directory that the scan accepts as a snapshot file, and s was loaded from it
pub open spec fn listed_source(l: Seq<DirItem>, j: int, s: Snapshot) -> bool {
    0 <= j < l.len() && is_cand(l[j]) && load_ok(&l[j].path, s)
}

// ---- reading aids (proved): what a fallback pick means in terms of the directory listing
pub proof fn lemma_cands_listed(l: Seq<DirItem>, n: int, x: (u64, Path))
    requires 0 <= n <= l.len(), cands_of(l, n).contains(x),
    ensures exists|j: int| 0 <= j < n && is_cand(#[trigger] l[j]) && snap_num(l[j].name) == Some(x.0) && l[j].path == x.1,
    decreases n
{
    if n > 0 {
        let c = cands_of(l, n - 1);
        if is_cand(l[n - 1]) {
            let cn = cands_of(l, n);
            let k = choose|k: int| 0 <= k < cn.len() && #[trigger] cn[k] == x;
            if k == c.len() {
                assert(is_cand(l[n - 1]) && snap_num(l[n - 1].name) == Some(x.0) && l[n - 1].path == x.1);
            } else {
                assert(c[k] == x);
                lemma_cands_listed(l, n - 1, x);
            }
        } else {
            lemma_cands_listed(l, n - 1, x);
        }
    }
}
// a picked candidate is a directory entry named snapshot_<number>.snap
pub proof fn lemma_pick_listed(c: Seq<(u64, Path)>, l: Seq<DirItem>, i: int)
    requires sorted_cands(c, l), 0 <= i < c.len(),
    ensures exists|j: int| 0 <= j < l.len() && is_cand(#[trigger] l[j]) && snap_num(l[j].name) == Some(c[i].0) && l[j].path == c[i].1,
{
    broadcast use vstd::seq_lib::group_to_multiset_ensures;
    let full = cands_of(l, l.len() as int);
    assert(c.contains(c[i]));
    assert(c.to_multiset().count(c[i]) > 0);
    assert(full.to_multiset().count(c[i]) > 0);
    assert(full.contains(c[i]));
    lemma_cands_listed(l, l.len() as int, c[i]);
}
// when the primary's number is in the list, every tried candidate is not newer than the primary
// (and strictly older if no two candidates carry the same number)
pub proof fn lemma_window_not_newer(c: Seq<(u64, Path)>, n: u64, skip: int, i: int)
    requires desc(c), skip_ok(c, Some(n), skip), has_num(c, n), in_window(c, skip, i),
    ensures c[i].0 <= n,
        (forall|a: int, b: int| 0 <= a < b < c.len() ==> #[trigger] num_at(c, a) != #[trigger] num_at(c, b)) ==> c[i].0 < n,
{
    let w = choose|k: int| 0 <= k < c.len() && #[trigger] num_at(c, k) == n;
    assert(skip >= 1);
    assert(num_at(c, skip - 1) == n);
    assert(c[skip - 1].0 >= c[i].0);
    if forall|a: int, b: int| 0 <= a < b < c.len() ==> #[trigger] num_at(c, a) != #[trigger] num_at(c, b) {
        assert(num_at(c, skip - 1) != num_at(c, i));
    }
}

// the directory holds an accepted entry carrying the number n
pub open spec fn listed_num(l: Seq<DirItem>, n: u64) -> bool {
    exists|k: int| 0 <= k < l.len() && is_cand(#[trigger] l[k]) && snap_num(l[k].name) == Some(n)
}
// s was loaded from the accepted directory entry l[j]; if the primary's name carries a number that some accepted entry of the
// directory carries too, l[j]'s number is not greater (the snapshot is not NEWER than the requested one)
pub open spec fn older_source(path: &Path, l: Seq<DirItem>, j: int, s: Snapshot) -> bool {
    &&& listed_source(l, j, s)
    &&& forall|n: u64| snap_num(path_name(path)) == Some(n) && #[trigger] listed_num(l, n) ==> snap_num(l[j].name).unwrap() <= n
}
pub open spec fn has_older_source(path: &Path, s: Snapshot) -> bool {
    path_parent(path) is Some && exists|j: int| #[trigger] older_source(path, dir_listing(&path_parent(path).unwrap()), j, s)
}
pub proof fn lemma_listed_in_cands(l: Seq<DirItem>, n: int, k: int)
    requires 0 <= k < n <= l.len(), is_cand(l[k]),
    ensures cands_of(l, n).contains((snap_num(l[k].name).unwrap(), l[k].path)),
    decreases n
{
    let x = (snap_num(l[k].name).unwrap(), l[k].path);
    if k == n - 1 {
        assert(cands_of(l, n)[cands_of(l, n).len() - 1] == x);
    } else {
        lemma_listed_in_cands(l, n - 1, k);
        let cc = cands_of(l, n - 1);
        let w = choose|w: int| 0 <= w < cc.len() && #[trigger] cc[w] == x;
        assert(cands_of(l, n)[w] == x);
    }
}
// the contract clause `is_fallback_of` read in terms of the directory listing (implication form: used as a proof hint)
pub proof fn lemma_fallback_reading(path: &Path, s: Snapshot, c: Seq<(u64, Path)>, skip: int, i: int)
    ensures fallback_pick(path, s, c, skip, i) ==> has_older_source(path, s),
{
    if fallback_pick(path, s, c, skip, i) {
        broadcast use vstd::seq_lib::group_to_multiset_ensures;
        let l = dir_listing(&path_parent(path).unwrap());
        lemma_pick_listed(c, l, i);
        let j = choose|j: int| 0 <= j < l.len() && is_cand(#[trigger] l[j]) && snap_num(l[j].name) == Some(c[i].0) && l[j].path == c[i].1;
        assert forall|n: u64| snap_num(path_name(path)) == Some(n) && #[trigger] listed_num(l, n) implies snap_num(l[j].name).unwrap() <= n by {
            let k = choose|k: int| 0 <= k < l.len() && is_cand(#[trigger] l[k]) && snap_num(l[k].name) == Some(n);
            lemma_listed_in_cands(l, l.len() as int, k);
            let x = (n, l[k].path);
            let full = cands_of(l, l.len() as int);
            assert(full.to_multiset().count(x) > 0);
            assert(c.to_multiset().count(x) > 0);
            assert(c.contains(x));
            let w = choose|w: int| 0 <= w < c.len() && #[trigger] c[w] == x;
            assert(num_at(c, w) == n);
            assert(has_num(c, n));
            lemma_window_not_newer(c, n, skip, i);
        }
        assert(older_source(path, l, j, s));
    }
}
