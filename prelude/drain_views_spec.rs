// view-level vocabulary of the drain contracts (shared by units drain and engine_write_paths)
impl TieredEngine {
    /// (a) + (c) on the canonical store: nothing canonical is overwritten or removed; a new record comes from a mirror-only entry: the
    /// mirror's metadata and a vector of the mirror's length whose digest is the new token's digest; it is the mirror's vector bit for
    /// bit when that vector passed the pre-flight (HnswBackend::insert normalises anything else; a planted mirror entry may be anything)
    pub open spec fn drain_cold_ok(&self, pre: &Self) -> bool {
        &&& map_le(pre.cold_tier@, self.cold_tier@)
        &&& forall|d: u64| #[trigger] self.cold_tier@.contains_key(d) && !pre.cold_tier@.contains_key(d) ==>
                pre.hot_tier@.contains_key(d) && self.cold_tier@[d].0.len() == pre.hot_tier@[d].0.len() && self.cold_tier@[d].1 == pre.hot_tier@[d].1
                && self.cold_tier@[d].2.digest == spec_digest(self.cold_tier@[d].0)
                && (preflight_ok(pre.hot_tier@[d].0) ==> self.cold_tier@[d].0 == pre.hot_tier@[d].0)
    }
    /// (d) hot tier after a drain = exactly the entries whose repair failed (still without canonical record), unchanged
    pub open spec fn drain_hot_ok(&self, pre: &Self) -> bool {
        &&& map_le(self.hot_tier@, pre.hot_tier@)
        &&& forall|d: u64| #[trigger] pre.hot_tier@.contains_key(d) ==> (self.hot_tier@.contains_key(d) <==> !self.cold_tier@.contains_key(d))
    }
    /// (c) query cache: untouched or emptied; emptied whenever a mirror diverged or a repair happened
    pub open spec fn drain_qc_ok(&self, pre: &Self) -> bool {
        &&& self.query_cache@ == pre.query_cache@ || self.query_cache@ == qc_empty()
        &&& (exists|d: u64| #[trigger] pre.hot_tier@.contains_key(d) && pre.cold_tier@.contains_key(d) && entry_diverged(pre.cold_tier@[d], pre.hot_tier@[d]))
                ==> self.query_cache@ == qc_empty()
        &&& (exists|d: u64| #[trigger] self.cold_tier@.contains_key(d) && !pre.cold_tier@.contains_key(d)) ==> self.query_cache@ == qc_empty()
    }
    /// (c) L1a: entries of ids whose mirror vector differs from the canonical one are gone, nothing else is touched
    pub open spec fn drain_l1a_ok(&self, pre: &Self) -> bool {
        &&& map_le(self.cache_strategy@, pre.cache_strategy@)
        &&& forall|d: u64| #[trigger] pre.cache_strategy@.contains_key(d) ==> (self.cache_strategy@.contains_key(d) <==>
                !(pre.hot_tier@.contains_key(d) && pre.cold_tier@.contains_key(d) && !f32s_eq(pre.cold_tier@[d].0, pre.hot_tier@[d].0)))
    }
    /// C20: every drained entry is either counted as reconciled or back in the hot tier; a non-empty drain that returns Ok reconciled at least one
    pub open spec fn drain_count_ok(&self, pre: &Self, r: Result<usize>) -> bool {
        r.is_ok() ==> self.hot_tier@.len() + r.unwrap() == pre.hot_tier@.len() && (pre.hot_tier@.len() > 0 ==> r.unwrap() >= 1)
    }
    /// the mirror entry of `d` would be served by a read: token = canonical token, payload matches it
    pub open spec fn mirror_canonical(&self, d: u64) -> bool {
        self.hot_tier@.contains_key(d) && self.entry_canonical(d, self.hot_tier@[d].0, self.hot_tier@[d].2)
    }
    pub open spec fn unchanged(&self, pre: &Self) -> bool {
        self.cold_tier@ == pre.cold_tier@ && self.hot_tier@ == pre.hot_tier@ && self.query_cache@ == pre.query_cache@
            && self.cache_strategy@ == pre.cache_strategy@
    }
}
