// Iterator::any / Iterator::all on the iterator stub `VxIter<T>` of prelude/iter_chain_env.rs (include that file first), stated operationally:
// `any` answers true only if some call f(item) answered true and every earlier item was answered false; false only if every item was
// answered false (`all` is the dual).  The closure is the REAL closure, seen only through f.requires / f.ensures.
//@trusted VxIter::any(f) / VxIter::all(f) (Iterator::any / all, prelude/iter_any_env.rs): operational contract over the closure's own requires / ensures; laziness (stop at the first decisive item) is part of the contract
impl<T> VxIter<T> {
    #[verifier::external_body]
    pub fn any<F: FnMut(T) -> bool>(self, f: F) -> (r: bool)
        requires
            forall|i: int| 0 <= i < self@.len() ==> f.requires((#[trigger] self@[i],)),
        ensures
            r ==> exists|i: int| 0 <= i < self@.len() && f.ensures((#[trigger] self@[i],), true)
                && (forall|k: int| 0 <= k < i ==> f.ensures((#[trigger] self@[k],), false)),
            !r ==> forall|i: int| 0 <= i < self@.len() ==> f.ensures((#[trigger] self@[i],), false),
    { unimplemented!() }

    #[verifier::external_body]
    pub fn all<F: FnMut(T) -> bool>(self, f: F) -> (r: bool)
        requires
            forall|i: int| 0 <= i < self@.len() ==> f.requires((#[trigger] self@[i],)),
        ensures
            r ==> forall|i: int| 0 <= i < self@.len() ==> f.ensures((#[trigger] self@[i],), true),
            !r ==> exists|i: int| 0 <= i < self@.len() && f.ensures((#[trigger] self@[i],), false)
                && (forall|k: int| 0 <= k < i ==> f.ensures((#[trigger] self@[k],), true)),
    { unimplemented!() }
}

