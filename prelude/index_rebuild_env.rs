// Trusted stubs for (re)building the HNSW index from a DocumentStore (inside verus!, after backend_env.rs and compact_spec.rs).
//@trusted vx_index_batch (abstract-expr of `E.iter().enumerate().map(|(internal_id, emb)| (emb.as_slice(), internal_id)).collect()`): element i of the result is (E[i] as a slice, i); the closure text is inside the abstracted expression and is NOT verified
//@trusted HnswVectorIndex::new_with_params Ok => nothing inserted, build_params() = (dimension, m, ef_construction, disable_normalization_check); parallel_insert_batch Ok => inserted() grows by exactly the batch's (vector, id) pairs in order, build_params() kept; dimension()/m()/ef_construction()/normalization_check_disabled() read build_params()
#[verifier::external_body]
fn vx_index_batch<'a>(e: &'a Vec<Vec<f32>>) -> (r: Vec<(&'a [f32], usize)>)
    ensures r@.len() == e@.len(), forall|i: int| 0 <= i < e@.len() ==> (#[trigger] r@[i]).0@ == e@[i]@ && r@[i].1 == i,
{ unimplemented!() }
impl HnswVectorIndex {
    #[verifier::external_body] fn dimension(&self) -> (r: usize) ensures r == self.build_params().0 { unimplemented!() }
    #[verifier::external_body] fn m(&self) -> (r: usize) ensures r == self.build_params().1 { unimplemented!() }
    #[verifier::external_body] fn ef_construction(&self) -> (r: usize) ensures r == self.build_params().2 { unimplemented!() }
    #[verifier::external_body] fn normalization_check_disabled(&self) -> (r: bool) ensures r == self.build_params().3 { unimplemented!() }
    #[verifier::external_body]
    fn new_with_params(dimension: usize, max_elements: usize, distance: DistanceMetric, m: usize, ef_construction: usize, disable_normalization_check: bool) -> (r: Result<Self>)
        ensures r.is_ok() ==> r.unwrap().inserted() == Seq::<(Seq<f32>, usize)>::empty()
            && r.unwrap().build_params() == (dimension, m, ef_construction, disable_normalization_check),
    { unimplemented!() }
    #[verifier::external_body]
    fn parallel_insert_batch(&mut self, data: &[(&[f32], usize)]) -> (r: Result<()>)
        ensures r.is_ok() ==> final(self).inserted() == old(self).inserted() + batch_pairs(data@)
            && final(self).build_params() == old(self).build_params(),
    { unimplemented!() }
}
// the rebuilt HNSW batch is the slot layout of the embedding vector it was collected from
pub proof fn lemma_batch_layout(data: Seq<(&[f32], usize)>, e: Seq<Vec<f32>>)
    ensures (data.len() == e.len() && forall|i: int| 0 <= i < e.len() ==> (#[trigger] data[i]).0@ == e[i]@ && data[i].1 == i)
        ==> Seq::<(Seq<f32>, usize)>::empty() + batch_pairs(data) =~= vector_layout(e),
{
}

