// Environment of unit qcache_similar (engine/src/query_hash_cache.rs); inside verus!.
// Same items as qcache_core_env.rs, but `LruIndex<K>` is the REAL struct of engine/src/lru_index.rs with the open abstraction of
// lru_index_spec.rs (`wf()` / `order()` / `keys()`), so that a unit can put a real LruIndex method (for_each_recent) under contract
// next to the cache code that calls it.  The other LruIndex methods are brought in by `//@stub lru_index LruIndex::<fn>` (contract
// stubs generated from the contracts PROVED in unit lru_index); there are no lock stubs here.
//@assume derive(Hash, PartialEq, Eq) on QueryCacheKey {scope: u64, query_hash: u64} is lawful: obeys_key_model (axiom_qck_key_model), and exec `==` is spec equality (axiom_qck_eq: obeys_eq_spec, eq_spec <==> ==)
//@trusted hash_embedding is a function of the exact f32 bit patterns of the query (uninterpreted spec_hash); it is NOT assumed injective
//@include lru_model.rs
//@include lru_index_spec.rs

//@item engine/src/hnsw_index.rs struct SearchResult
//@ derive Debug, Clone, PartialEq
//@end

#[verifier::external_body] pub struct Instant { _p: core::marker::PhantomData<()> }
impl Instant { #[verifier::external_body] pub fn now() -> Instant { unimplemented!() } }

// AtomicU64 under sequential semantics: a counter whose fetch_add is visible in the frame (&mut)
pub enum Ordering { SeqCst, Relaxed, Acquire, Release, AcqRel }
#[verifier::external_body] pub struct GenCounter { _p: core::marker::PhantomData<()> }
pub open spec fn wrap_add(a: u64, n: u64) -> u64 { if a + n > u64::MAX { (a + n - u64::MAX - 1) as u64 } else { (a + n) as u64 } }
impl GenCounter {
    pub uninterp spec fn view(&self) -> u64;
    #[verifier::external_body] pub fn load(&self, o: Ordering) -> (r: u64) ensures r == self@ { unimplemented!() }
    #[verifier::external_body] pub fn fetch_add(&mut self, n: u64, o: Ordering) -> (r: u64)
        ensures r == old(self)@, final(self)@ == wrap_add(old(self)@, n)
    { unimplemented!() }
}

//@item engine/src/query_hash_cache.rs const INSERT_INVALIDATION_PREFIX_DIMS
//@end
//@item engine/src/query_hash_cache.rs struct CachedQueryResult
//@end
//@item engine/src/query_hash_cache.rs struct QueryCacheKey
//@ derive Clone, Copy, Debug, Hash, PartialEq, Eq, Structural
//@end
#[verifier::external_body] pub broadcast proof fn axiom_qck_key_model() ensures #[trigger] obeys_key_model::<QueryCacheKey>() {}
#[verifier::external_body] pub proof fn axiom_qck_eq() ensures eq_is_structural::<QueryCacheKey>() {}
//@item engine/src/query_hash_cache.rs struct QueryEmbeddingStats
//@ derive Clone, Copy, Debug
//@end
//@item engine/src/query_hash_cache.rs struct QueryCacheStatsInternal
//@end
//@item engine/src/query_hash_cache.rs struct QueryCacheState
//@end
//@item engine/src/query_hash_cache.rs enum CacheInsertDisposition
//@end
//@item engine/src/query_hash_cache.rs struct QueryHashCache
//@ rw lock-erasure /Arc<RwLock<(QueryCacheState|QueryCacheStatsInternal)>>/ -> "\1" n=2
//@ rw component-erasure /AtomicU64/ -> "GenCounter"
//@end

pub uninterp spec fn spec_hash(e: Seq<f32>) -> u64;
pub open spec fn qkey(scope: u64, q: Seq<f32>) -> QueryCacheKey { QueryCacheKey { scope, query_hash: spec_hash(q) } }

//@trusted [T]::to_vec clones element-wise; derive(Clone) on SearchResult {u64, f32} yields an equal value (axiom_search_result_cloned)
pub assume_specification<T: Clone>[<[T]>::to_vec](s: &[T]) -> (r: Vec<T>)
    ensures r@.len() == s@.len(), forall|i: int| 0 <= i < s@.len() ==> cloned(#[trigger] s@[i], r@[i]);
#[verifier::external_body] pub broadcast proof fn axiom_search_result_cloned(a: SearchResult, b: SearchResult)
    ensures #[trigger] cloned(a, b) ==> a == b {}
