// Reference semantics of TieredEngine::{filter_hot_knn_results_to_canonical, filter_search_results_to_canonical}
// (inside verus!, after engine_env.rs; shared by units hot_filter and search_path).
//@include search_result.rs
pub type HotPairs = Seq<(u64, f32)>;
pub type ResSeq = Seq<SearchResult>;

/// reference semantics of both filters: keep, in order, the elements of the first `n` whose id satisfies `keep`
pub open spec fn keep_pairs(keep: spec_fn(u64) -> bool, s: HotPairs, n: int) -> HotPairs
    decreases n
{
    if n <= 0 { Seq::empty() } else {
        let p = keep_pairs(keep, s, n - 1);
        if keep(s[n - 1].0) { p.push(s[n - 1]) } else { p }
    }
}
pub open spec fn keep_results(keep: spec_fn(u64) -> bool, s: ResSeq, n: int) -> ResSeq
    decreases n
{
    if n <= 0 { Seq::empty() } else {
        let p = keep_results(keep, s, n - 1);
        if keep(s[n - 1].doc_id) { p.push(s[n - 1]) } else { p }
    }
}
/// property-level reading: nothing invented, every survivor satisfies `keep`, no element satisfying `keep` is lost
pub open spec fn pairs_props(keep: spec_fn(u64) -> bool, s: HotPairs, n: int, out: HotPairs) -> bool {
    &&& out.len() <= n
    &&& forall|j: int| 0 <= j < out.len() ==> keep((#[trigger] out[j]).0) && exists|i: int| 0 <= i < n && s[i] == out[j]
    &&& forall|i: int| 0 <= i < n && keep((#[trigger] s[i]).0) ==> out.contains(s[i])
    &&& (out.len() == n <==> forall|i: int| 0 <= i < n ==> keep((#[trigger] s[i]).0))
}
pub open spec fn results_props(keep: spec_fn(u64) -> bool, s: ResSeq, n: int, out: ResSeq) -> bool {
    &&& out.len() <= n
    &&& forall|j: int| 0 <= j < out.len() ==> keep((#[trigger] out[j]).doc_id) && exists|i: int| 0 <= i < n && s[i] == out[j]
    &&& forall|i: int| 0 <= i < n && keep((#[trigger] s[i]).doc_id) ==> out.contains(s[i])
    &&& (out.len() == n <==> forall|i: int| 0 <= i < n ==> keep((#[trigger] s[i]).doc_id))
}
/// the two predicates as functions of the views only (two engine states with equal views give the same predicate term)
pub open spec fn hot_keep_of(h: HotView, c: ColdView) -> spec_fn(u64) -> bool {
    |d: u64| h.contains_key(d) && c.contains_key(d) && c[d].2 == h[d].2 && spec_digest(h[d].0) == h[d].2.digest
}
pub open spec fn cold_keep_of(c: ColdView) -> spec_fn(u64) -> bool { |d: u64| c.contains_key(d) }
impl TieredEngine {
    /// the hot mirror of `d` is servable: present, token = canonical token, payload matches the token (= CanonicalVectorState::Match)
    pub open spec fn hot_match(&self, d: u64) -> bool {
        self.hot_tier@.contains_key(d) && self.entry_canonical(d, self.hot_tier@[d].0, self.hot_tier@[d].2)
    }
    pub open spec fn hot_keep(&self) -> spec_fn(u64) -> bool { hot_keep_of(self.hot_tier@, self.cold_tier@) }
    pub open spec fn cold_keep(&self) -> spec_fn(u64) -> bool { cold_keep_of(self.cold_tier@) }
    /// no servable-looking stale mirror of `d` is left: an entry is canonical or an orphan (canonical record missing)
    pub open spec fn hot_scrubbed(&self, d: u64) -> bool {
        self.hot_tier@.contains_key(d) ==> !self.cold_tier@.contains_key(d) || self.entry_canonical(d, self.hot_tier@[d].0, self.hot_tier@[d].2)
    }

}
