// Shared environment of the gRPC server helper units (engine/src/bin/kyrodb_server.rs); inside verus!.
//@assume sequential semantics: the caller owns every lock-protected field of ServerState for the whole call (lock-erasure mode A; the per-tenant quota mutex and the counts RwLock are not modelled)
//@trusted tonic::Status is an opaque value; its constructors have no effect on server state
//@include string_axioms.rs

#[verifier::external_body]
pub struct Status { _p: core::marker::PhantomData<()> }
impl Status {
    #[verifier::external_body] pub fn invalid_argument(msg: &str) -> Status { unimplemented!() }
    #[verifier::external_body] pub fn internal(msg: &str) -> Status { unimplemented!() }
    #[verifier::external_body] pub fn resource_exhausted(msg: String) -> Status { unimplemented!() }
}

//@item engine/src/bin/kyrodb_server.rs struct TenantContext
//@end

// opaque components of ServerState (never inspected by the units that include this file)
#[verifier::external_body] pub struct TieredEngine { _p: core::marker::PhantomData<()> }
impl TieredEngine {
    // abstract "document with this global id exists in the engine"
    pub uninterp spec fn has(&self, d: u64) -> bool;
    #[verifier::external_body] pub fn exists(&self, d: u64) -> (r: bool) ensures r == self.has(d) { unimplemented!() }
    // abstract "the hot tier is at its hard limit": an insert into such an engine starts with an EMERGENCY DRAIN of the hot tier, for which
    // the engine-side contract (unit engine_write_paths, TieredEngine::insert) states no frame: neither `Err ==> nothing changed` nor
    // `Ok ==> only this id changed` is proved for that call.  The server units' insert stubs claim their frame clauses only for
    // `!at_limit()` (checked against the proved contract by unit implied_server_engine)
    pub uninterp spec fn at_limit(&self) -> bool;
}
#[verifier::external_body] pub struct Instant { _p: core::marker::PhantomData<()> }
#[verifier::external_body] pub struct KyroDbConfig { _p: core::marker::PhantomData<()> }
#[verifier::external_body] pub struct TieredEngineConfig { _p: core::marker::PhantomData<()> }
#[verifier::external_body] pub struct MetricsCollector { _p: core::marker::PhantomData<()> }
#[verifier::external_body] pub struct AuthManager { _p: core::marker::PhantomData<()> }
#[verifier::external_body] pub struct RateLimiter { _p: core::marker::PhantomData<()> }
#[verifier::external_body] pub struct UsageTracker { _p: core::marker::PhantomData<()> }
#[verifier::external_body] pub struct PathBuf { _p: core::marker::PhantomData<()> }
#[verifier::external_body] pub struct QuotaLocks { _p: core::marker::PhantomData<()> }

//@item engine/src/bin/kyrodb_server.rs struct TenantIdMapper
//@ rw type-ascription /std::path::PathBuf/ -> "PathBuf"
//@ rw lock-erasure /parking_lot::RwLock<std::collections::HashMap<String, u32>>/ -> "HashMap<String, u32>"
//@end

//@item engine/src/bin/kyrodb_server.rs struct ServerState
//@ rw component-erasure /Arc<(TieredEngine|UsageTracker)>/ -> "\1" n=2
//@ rw type-ascription /kyrodb_engine::config::KyroDbConfig/ -> "KyroDbConfig"
//@ rw lock-erasure /Option<parking_lot::RwLock<HashMap<String, usize>>>/ -> "Option<HashMap<String, usize>>"
//@ rw lock-erasure /parking_lot::RwLock<HashMap<String, Arc<parking_lot::Mutex<\(\)>>>>/ -> "QuotaLocks"
//@end

//@item engine/src/bin/kyrodb_server.rs struct KyroDBServiceImpl
//@ rw component-erasure /Arc<ServerState>/ -> "ServerState"
//@end
