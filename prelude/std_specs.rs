// extra std specifications (trusted): inside verus!
pub assume_specification<'a, K, V, S, A, Q>
    [HashMap::<K, V, S, A>::get_mut::<Q>](m: &'a mut HashMap<K, V, S, A>, k: &Q) -> (r: Option<&'a mut V>)
    where
        A: Allocator,
        K: Eq + Hash + Borrow<Q>,
        Q: Hash + Eq + ?Sized,
        S: BuildHasher,
    ensures
        obeys_key_model::<K>() && builds_valid_hashers::<S>() ==> (match r {
            Some(v) => contains_borrowed_key(old(m)@, k) && maps_borrowed_key_to_value(old(m)@, k, *v)
                && final(m)@.dom() == old(m)@.dom()
                && maps_borrowed_key_to_value(final(m)@, k, *final(v))
                && (forall|kk: K| #[trigger] old(m)@.contains_key(kk) && contains_borrowed_key(old(m)@.remove(kk), k) ==> final(m)@[kk] == old(m)@[kk]),
            None => !contains_borrowed_key(old(m)@, k) && final(m)@ == old(m)@,
        });
pub assume_specification<'a, T: Copy>[Option::<&'a T>::copied](o: Option<&'a T>) -> (r: Option<T>)
    ensures r == (match o { Some(x) => Some(*x), None => None });
pub assume_specification<T: Default>[std::mem::take](t: &mut T) -> (r: T)
    ensures r == *old(t);
pub assume_specification<T>[std::mem::replace](dest: &mut T, src: T) -> (r: T)
    ensures r == *old(dest), *final(dest) == src;
#[verifier::external_body]
pub fn vx_unreached<T>() -> T requires false { unimplemented!() }
pub assume_specification<T, F: FnOnce(T) -> bool>[Option::<T>::is_some_and](o: Option<T>, f: F) -> (r: bool)
    requires o is Some ==> f.requires((o->Some_0,)),
    ensures o is None ==> !r, o is Some ==> f.ensures((o->Some_0,), r);
