// `FlatGraph` helpers as seen by the search units (inside verus!, after flat_graph_env.rs): external_body stubs whose
// requires/ensures are clause-for-clause copies of the contracts discharged for the real methods in units
// prefetch_bounds (len, prefetch_level0_neighbor_lookahead) and kernel_lengths (distance_to_unchecked).
//@trusted FlatGraph::{len, prefetch_level0_neighbor_lookahead, distance_to_unchecked} stub contracts = copies of the contracts discharged in units prefetch_bounds / kernel_lengths
impl FlatGraph {
    #[verifier::external_body]
    fn len(&self) -> (r: usize)
        ensures r == self.dense_to_origin@.len(),
    { unimplemented!() }

    #[verifier::external_body]
    unsafe fn prefetch_level0_neighbor_lookahead(&self, dense_id: u32, neighbor_count: usize, idx: usize, frontier_depth: usize, ef: usize)
        requires
            self.graph_wf(),
            dense_id < self.level0.spec_len(),
            neighbor_count <= self.level0.cap,
            idx < neighbor_count,
    { unimplemented!() }

    #[verifier::external_body]
    unsafe fn distance_to_unchecked(&self, query: &[f32], dense_id: u32) -> (r: f32)
        requires
            self.graph_wf(),
            dense_id < self.level0.spec_len(),
            query@.len() == self.dimension,
    { unimplemented!() }
}
