// FlatSearchScratch (engine/src/ann_backend.rs) as seen by unit visited_bits and by its client units (inside verus!): the real structs
// (extracted) and the bit-set geometry the unchecked accessor relies on.
//@assume 64-bit target (`global size_of usize == 8`): on a 32-bit target `node_count.saturating_add(63) / 64` words do NOT cover ids >= 2^32 - 64 when node_count > 2^32 - 64
global size_of usize == 8;
//@item engine/src/ann_backend.rs struct CandidateHeapItem
//@end
//@item engine/src/ann_backend.rs struct ResultHeapItem
//@end
//@item engine/src/ann_backend.rs struct SearchHeap
//@end
//@item engine/src/ann_backend.rs struct FlatSearchScratch
//@end

// ---------------------------------------------------------------- bit-set geometry
/// word of the bit set that holds the bit of `dense_id`
pub open spec fn word_of(dense_id: u32) -> int { (dense_id as usize >> 6) as int }
/// mask of the bit of `dense_id` inside its word
pub open spec fn mask_of(dense_id: u32) -> u64 { 1u64 << ((dense_id as usize & 63) as u64) }

/// `len` words hold a bit for every id below `node_count`
pub open spec fn words_cover(len: int, node_count: int) -> bool {
    forall|d: u32| (d as int) < node_count ==> #[trigger] word_of(d) < len
}

impl FlatSearchScratch {
    /// the word of `dense_id` exists
    pub open spec fn word_in_bounds(&self, dense_id: u32) -> bool { word_of(dense_id) < self.visited_bits@.len() }
    /// every id below `node_count` has its word
    pub open spec fn covers(&self, node_count: int) -> bool { words_cover(self.visited_bits@.len() as int, node_count) }
    pub open spec fn visited(&self, dense_id: u32) -> bool {
        self.word_in_bounds(dense_id) && (self.visited_bits@[word_of(dense_id)] & mask_of(dense_id)) != 0
    }
}
