// `FlatSearchScratch` methods as seen by client units (inside verus!, after scratch_env.rs): external_body stubs whose
// requires/ensures are clause-for-clause copies of the contracts that unit `visited_bits` (units/visited_bits.vrs)
// discharges for the real methods of engine/src/ann_backend.rs.
//@trusted FlatSearchScratch::{prepare, mark_visited, mark_if_unvisited_unchecked, finish_query} stub contracts = copies of the contracts discharged in unit visited_bits
impl FlatSearchScratch {
    #[verifier::external_body]
    fn prepare(&mut self, node_count: usize, target_heap_len: usize)
        ensures
            final(self).covers(node_count as int),
            final(self).visited_bits@.len() >= old(self).visited_bits@.len(),
            final(self).touched_dense_ids@.len() == 0,
            final(self).candidates.items@.len() == 0,
            final(self).results.items@.len() == 0,
    { unimplemented!() }

    #[verifier::external_body]
    fn finish_query(&mut self)
        ensures
            !old(self).trim_visited_after_query ==> final(self).visited_bits@.len() == old(self).visited_bits@.len(),
            old(self).trim_visited_after_query ==> final(self).visited_bits@.len() == 0,
            final(self).touched_dense_ids@.len() == 0,
            !final(self).trim_visited_after_query,
    { unimplemented!() }

    #[verifier::external_body]
    fn mark_visited(&mut self, dense_id: u32)
        ensures
            final(self).visited_bits@.len() == old(self).visited_bits@.len(),
            old(self).word_in_bounds(dense_id) ==> final(self).visited(dense_id),
            forall|w: int| 0 <= w < old(self).visited_bits@.len() && w != word_of(dense_id) ==> #[trigger] final(self).visited_bits@[w] == old(self).visited_bits@[w],
            final(self).candidates == old(self).candidates && final(self).results == old(self).results,
    { unimplemented!() }

    #[verifier::external_body]
    unsafe fn mark_if_unvisited_unchecked(&mut self, dense_id: u32) -> (r: bool)
        requires old(self).word_in_bounds(dense_id),
        ensures
            final(self).visited_bits@.len() == old(self).visited_bits@.len(),
            r == !old(self).visited(dense_id),
            final(self).visited(dense_id),
            forall|w: int| 0 <= w < old(self).visited_bits@.len() && w != word_of(dense_id) ==> #[trigger] final(self).visited_bits@[w] == old(self).visited_bits@[w],
            r ==> final(self).touched_dense_ids@ == old(self).touched_dense_ids@.push(dense_id),
            !r ==> final(self).touched_dense_ids@ == old(self).touched_dense_ids@ && final(self).visited_bits@ == old(self).visited_bits@,
            final(self).candidates == old(self).candidates && final(self).results == old(self).results,
    { unimplemented!() }
}
