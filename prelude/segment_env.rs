// Environment of the units that walk the WAL segment list of a MANIFEST (recover_segments, compaction); inside verus!.
// Needs `WalEntry` (item) and `anyhow::Result` in scope.
//@assume the files of the data directory are not modified by anyone else while the function under contract runs (segment content `seg_entries(name)` is a function of the file name)
//@trusted Path::join(name) yields a path whose last component is `name`; Path::exists() == false / remove_file -> NotFound are observations "file missing" (capability seg_missing), exists() == true is the observation seg_present
//@trusted WalReader::read_all_strict Ok => no corrupted frame and the returned entries are the segment's entries; WalReader::read_all Ok with corrupted_entries() == 0 => likewise.  Hand-written stubs, but every clause is IMPLIED (unit implied_storage, //@assumed segment_env.rs WalReader::read_all[_strict]) by the contracts unit wal_reader proves on the real reader, under the interpretation seg_entries(name) = parse(bytes of the file, 4).0, seg_clean = `that parse counts no corrupted frame`, seg_read_strict = strict_clean, for a reader as WalReader::open returns it (attached to the file named seg(), positioned behind the magic, counters 0).  What stays trusted: the stub of WalReader::open (not extracted by any unit)
//@residue an incomplete frame in a non-final segment is indistinguishable from a torn tail for both readers (known finding F-C13-b): `seg_entries` means "the entries of the complete, CRC-valid frames"

// ghost content of a segment file, keyed by its file name (view of the String in the MANIFEST)
pub uninterp spec fn seg_entries(name: Seq<char>) -> Seq<WalEntry>;
// observations (capabilities: granted only by the stubs below)
pub uninterp spec fn seg_present(name: Seq<char>) -> bool;       // the file existed when this execution looked
pub uninterp spec fn seg_missing(name: Seq<char>) -> bool;       // the file did not exist when this execution looked
pub uninterp spec fn seg_read_strict(name: Seq<char>) -> bool;   // read_all_strict returned Ok for it
pub uninterp spec fn seg_clean(name: Seq<char>) -> bool;         // a complete read found no corrupted frame

#[verifier::external_body] pub struct Path { _p: core::marker::PhantomData<()> }
#[verifier::external_body] pub struct PathBuf { _p: core::marker::PhantomData<()> }
impl PathBuf {
    pub uninterp spec fn name(&self) -> Seq<char>;
    #[verifier::external_body] pub fn join(&self, s: &String) -> (r: PathBuf) ensures r.name() == s@ { unimplemented!() }
    #[verifier::external_body] pub fn exists(&self) -> (r: bool)
        ensures r ==> seg_present(self.name()), !r ==> seg_missing(self.name()) { unimplemented!() }
    #[verifier::external_body] pub fn display(&self) -> u8 { unimplemented!() }
}
impl Path {
    #[verifier::external_body] pub fn join(&self, s: &String) -> (r: PathBuf) ensures r.name() == s@ { unimplemented!() }
}

#[verifier::external_body] pub struct WalReader { _p: core::marker::PhantomData<()> }
impl WalReader {
    pub uninterp spec fn seg(&self) -> Seq<char>;
    pub uninterp spec fn corrupted(&self) -> usize;
    #[verifier::external_body] pub fn open(p: &PathBuf) -> (r: Result<WalReader>)
        ensures r.is_ok() ==> r.unwrap().seg() == p.name() { unimplemented!() }
    // tolerant reader: skips frames with a bad CRC and counts them.  (A former clause `final(self).seg() == old(self).seg()` of the two readers was
    // dropped: no consumer needs it and the real reader has no field it could be a function of -- the ghost label is only read in the pre-state)
    #[verifier::external_body] pub fn read_all(&mut self) -> (r: Result<Vec<WalEntry>>)
        ensures
            r.is_ok() && final(self).corrupted() == 0 ==> r.unwrap()@ == seg_entries(old(self).seg()) && seg_clean(old(self).seg()),
    { unimplemented!() }
    // strict reader: Err on the first corrupted frame
    #[verifier::external_body] pub fn read_all_strict(&mut self) -> (r: Result<Vec<WalEntry>>)
        ensures
            r.is_ok() ==> seg_read_strict(old(self).seg()) && seg_clean(old(self).seg()) && final(self).corrupted() == 0
                && r.unwrap()@ == seg_entries(old(self).seg()),
    { unimplemented!() }
    #[verifier::external_body] pub fn valid_entries(&self) -> usize { unimplemented!() }
    #[verifier::external_body] pub fn corrupted_entries(&self) -> (r: usize) ensures r == self.corrupted() { unimplemented!() }
}
