// Replays of findings against the REAL kyrodb-engine crate (linked from /repo/engine, or $VERIF_REPO/engine).
// usage: vx_replay <scenario>     prints what happens and a final line `VERDICT <scenario> DEFECT|OK`; exit 1 on DEFECT.
// Each scenario is a concrete history/input that violates a property on the pinned tree (DESIGN.md section 7).
#![allow(dead_code)]
use kyrodb_engine::backup::{compute_backup_checksum, BackupManager, BackupMetadata, BackupType, ClearDirectoryOptions, RestoreManager, RetentionPolicy};
use kyrodb_engine::config::DistanceMetric;
use kyrodb_engine::hnsw_backend::HnswBackend;
use kyrodb_engine::metrics::MetricsCollector;
use kyrodb_engine::persistence::{FsyncPolicy, Manifest};
use kyrodb_engine::proto::{metadata_filter::FilterType, ExactMatch, MetadataFilter};
use kyrodb_engine::{LruCacheStrategy, QueryHashCache, TieredEngine, TieredEngineConfig};
use std::collections::HashMap;
use std::sync::Arc;

// F-C03-a  (C03, C15)  failed overwrite is undone on disk by the compensating Delete
//   metric=Euclidean bad=[NaN, 0.0] -> insert result: Err("HNSW insert failed after WAL append")
//     live after failed overwrite: Some([1.0, 0.0]) (before Some([1.0, 0.0]))
//     recovered doc 7: None  len=0
//   (same for Cosine with [3e19, 3e19] (norm overflows to +inf, normalises to zeros) and [inf, 0.0])
fn failed_overwrite(metric: DistanceMetric, good: Vec<f32>, bad: Vec<f32>) -> bool {
    let dir = tempfile::tempdir().unwrap();
    let b = HnswBackend::with_persistence(2, metric, vec![], vec![], 100, dir.path(), FsyncPolicy::Always, 0, 1 << 20).unwrap();
    let mut m = HashMap::new();
    m.insert("k".to_string(), "v".to_string());
    b.insert(7, good.clone(), m.clone()).unwrap();
    let before = b.fetch_document(7);
    let r = b.insert(7, bad.clone(), m.clone());
    println!("metric={:?} bad={:?} -> insert result: {:?}", metric, bad, r.as_ref().map_err(|e| e.to_string()));
    println!("  live after failed overwrite: {:?} (before {:?})", b.fetch_document(7), before);
    drop(b);
    let failed = r.is_err();
    match HnswBackend::recover(2, metric, dir.path(), 100, FsyncPolicy::Always, 0, 1 << 20, MetricsCollector::new()) {
        Ok(rb) => {
            println!("  recovered doc 7: {:?}  len={}", rb.fetch_document(7), rb.len());
            // a failed write must change nothing, now or after restart
            failed && rb.fetch_document(7) != before
        }
        Err(e) => { println!("  RECOVERY FAILED: {e:#}"); true }
    }
}

// F-C01-a  (C01)  kill between unlinking compacted segments and saving the pruned MANIFEST
//   segments before snapshot: [5 segments]   segments after snapshot: [1 segment]
//   RECOVERY FAILED: strict recovery mode: required WAL segment missing: wal_....wal
fn crash_window() -> bool {
    let dir = tempfile::tempdir().unwrap();
    let b = HnswBackend::with_persistence(2, DistanceMetric::Euclidean, vec![], vec![], 100, dir.path(), FsyncPolicy::Always, 0, 64).unwrap();
    for i in 1..=4u64 {
        b.insert(i, vec![i as f32, 1.0], HashMap::new()).unwrap();
    }
    let before = Manifest::load(dir.path().join("MANIFEST")).unwrap();
    b.create_snapshot().unwrap();
    let after = Manifest::load(dir.path().join("MANIFEST")).unwrap();
    // crash state = step-1 manifest (pointer + full segment list) with the covered files already unlinked
    let mut step1 = after.clone();
    step1.wal_segments = before.wal_segments.clone();
    drop(b);
    step1.save(dir.path().join("MANIFEST")).unwrap();
    match HnswBackend::recover(2, DistanceMetric::Euclidean, dir.path(), 100, FsyncPolicy::Always, 0, 64, MetricsCollector::new()) {
        Ok(r) => { println!("  recovered len={}", r.len()); r.len() != 4 }
        Err(e) => { println!("  RECOVERY FAILED: {e:#}"); true }
    }
}

// F-C12-a  (C12)  prune removes the full backup a retained incremental depends on
//   deleted=[<full id>] remaining=[("inc", Some(<full id>))]
fn prune_parent() -> bool {
    let bdir = tempfile::tempdir().unwrap();
    let ddir = tempfile::tempdir().unwrap();
    let now = std::time::SystemTime::now().duration_since(std::time::UNIX_EPOCH).unwrap().as_secs();
    let day = 86400u64;
    let t = (now - 10 * day) / day * day + 100; // same daily bucket, 10 days old
    let full = BackupMetadata { id: uuid::Uuid::new_v4(), timestamp: t, backup_type: BackupType::Full, size_bytes: 1, vector_count: 0, checksum: 0, parent_id: None, description: "full".into(), max_wal_file_id: None, snapshot_file: None };
    let inc = BackupMetadata { id: uuid::Uuid::new_v4(), timestamp: t + 60, backup_type: BackupType::Incremental, size_bytes: 1, vector_count: 0, checksum: 0, parent_id: Some(full.id), description: "inc".into(), max_wal_file_id: None, snapshot_file: None };
    for m in [&full, &inc] {
        std::fs::write(bdir.path().join(format!("backup_{}.json", m.id)), serde_json::to_string(m).unwrap()).unwrap();
        std::fs::write(bdir.path().join(format!("backup_{}.tar", m.id)), b"x").unwrap();
    }
    let mgr = BackupManager::new(bdir.path(), ddir.path()).unwrap();
    let policy = RetentionPolicy { hourly_hours: 24, daily_days: 30, weekly_weeks: 4, monthly_months: 6, min_age_days: 1 };
    let deleted = mgr.prune_backups(&policy).unwrap();
    let left: Vec<_> = mgr.list_backups().unwrap().into_iter().map(|m| (m.description.clone(), m.parent_id)).collect();
    println!("  deleted={:?} full_id={} remaining={:?}", deleted, full.id, left);
    // a retained backup whose parent is gone
    let ids: Vec<_> = mgr.list_backups().unwrap().into_iter().map(|m| m.id).collect();
    mgr.list_backups().unwrap().into_iter().any(|m| m.parent_id.map(|p| !ids.contains(&p)).unwrap_or(false))
}

// F-C11-a  (C11)  filtered batch delete trusts the stale recent-write mirror's metadata
//   canonical metadata of doc 1: Some({"color": "blue"})
//   batch_delete(color=red) deleted=1 ; doc 1 exists now: false
fn filtered_delete_stale_hot() -> bool {
    let cfg = TieredEngineConfig { hot_tier_max_size: 100, hot_tier_hard_limit: 200, hnsw_max_elements: 100, embedding_dimension: 2, hnsw_distance: DistanceMetric::Euclidean, data_dir: None, ..Default::default() };
    let e = TieredEngine::new(Box::new(LruCacheStrategy::new(10)), Arc::new(QueryHashCache::new(10, 0.9)), vec![], vec![], cfg).unwrap();
    let mut red = HashMap::new();
    red.insert("color".to_string(), "red".to_string());
    let mut blue = HashMap::new();
    blue.insert("color".to_string(), "blue".to_string());
    e.insert(1, vec![1.0, 0.0], red).unwrap();
    e.bulk_load_cold_tier(vec![(1, vec![1.0, 0.0], blue)]).unwrap();
    println!("  canonical metadata of doc 1: {:?}", e.get_metadata(1));
    let f = MetadataFilter { filter_type: Some(FilterType::Exact(ExactMatch { key: "color".into(), value: "red".into() })) };
    let n = e.batch_delete_by_metadata_filter(&f).unwrap();
    println!("  batch_delete(color=red) deleted={} ; doc 1 exists now: {}", n, e.exists(1));
    !e.exists(1) || n != 0
}

// F-C13-a  (C13)  one flipped bit in the newest snapshot: strict recovery silently falls back to an
//                 older snapshot whose successor log segments were already compacted
//   live before shutdown: [1, 2, 3, 4, 5]; manifest seq=Some(4)
//   STRICT RECOVERY SUCCEEDED with docs [1, 2, 5]
fn strict_fallback_loss() -> bool {
    let dir = tempfile::tempdir().unwrap();
    let b = HnswBackend::with_persistence(2, DistanceMetric::Euclidean, vec![], vec![], 100, dir.path(), FsyncPolicy::Always, 0, 64).unwrap();
    for i in 1..=2u64 {
        b.insert(i, vec![i as f32, 1.0], HashMap::new()).unwrap();
    }
    b.create_snapshot().unwrap();
    std::thread::sleep(std::time::Duration::from_millis(5));
    for i in 3..=4u64 {
        b.insert(i, vec![i as f32, 1.0], HashMap::new()).unwrap();
    }
    b.create_snapshot().unwrap();
    b.insert(5, vec![5.0, 1.0], HashMap::new()).unwrap();
    drop(b);
    let m = Manifest::load(dir.path().join("MANIFEST")).unwrap();
    let snap = dir.path().join(m.latest_snapshot.clone().unwrap());
    let mut bytes = std::fs::read(&snap).unwrap();
    let n = bytes.len();
    bytes[n / 2] ^= 0x01;
    std::fs::write(&snap, bytes).unwrap();
    match HnswBackend::recover(2, DistanceMetric::Euclidean, dir.path(), 100, FsyncPolicy::Always, 0, 64, MetricsCollector::new()) {
        Ok(r) => {
            let mut v = r.scan(|_| true);
            v.sort();
            println!("  STRICT RECOVERY SUCCEEDED with docs {:?}", v);
            v != vec![1, 2, 3, 4, 5]
        }
        Err(e) => { println!("  recovery refused: {e:#}"); false }
    }
}

// F-C13-c  (C13)  one flipped bit inside a KEY of the MANIFEST JSON ("latest_snapshot" -> "latest_snapshou"): serde treats the
//                 unknown key as ignorable and the missing Option field as None, so strict recovery starts WITHOUT the snapshot
//                 and replays only the segments that survived compaction
fn manifest_key_flip(key: &'static str) -> bool {
    let dir = tempfile::tempdir().unwrap();
    let b = HnswBackend::with_persistence(2, DistanceMetric::Euclidean, vec![], vec![], 100, dir.path(), FsyncPolicy::Always, 0, 64).unwrap();
    for i in 1..=4u64 {
        b.insert(i, vec![i as f32, 1.0], HashMap::new()).unwrap();
    }
    b.create_snapshot().unwrap();
    b.insert(5, vec![5.0, 1.0], HashMap::new()).unwrap();
    drop(b);
    let mp = dir.path().join("MANIFEST");
    let mut bytes = std::fs::read(&mp).unwrap();
    let text = String::from_utf8(bytes.clone()).unwrap();
    let needle = format!("\"{}\"", key);
    let pos = text.find(&needle).expect("key present") + needle.len() - 2; // last character of the key
    println!("  MANIFEST before: {}", text.replace('\n', " "));
    bytes[pos] ^= 0x01;
    std::fs::write(&mp, &bytes).unwrap();
    println!("  MANIFEST after : {}", String::from_utf8_lossy(&bytes).replace('\n', " "));
    match HnswBackend::recover(2, DistanceMetric::Euclidean, dir.path(), 100, FsyncPolicy::Always, 0, 64, MetricsCollector::new()) {
        Ok(r) => {
            let mut v = r.scan(|_| true);
            v.sort();
            println!("  STRICT RECOVERY SUCCEEDED with docs {:?} (expected [1, 2, 3, 4, 5])", v);
            v != vec![1, 2, 3, 4, 5]
        }
        Err(e) => { println!("  recovery refused: {e:#}"); false }
    }
}

// F-C13-e  (C13)  one flipped bit in the LENGTH prefix of a frame in the middle of the newest segment (after a clean stop): the frame now
//                 "extends past the end of the file", which the reader takes for a torn tail: strict recovery succeeds without that entry
//                 and without every entry behind it
fn length_flip_reads_as_torn_tail() -> bool {
    let dir = tempfile::tempdir().unwrap();
    let b = HnswBackend::with_persistence(2, DistanceMetric::Euclidean, vec![], vec![], 100, dir.path(), FsyncPolicy::Always, 0, 0).unwrap();
    for i in 1..=5u64 {
        b.insert(i, vec![i as f32, 1.0], HashMap::new()).unwrap();
    }
    drop(b);
    let m = Manifest::load(dir.path().join("MANIFEST")).unwrap();
    let seg = dir.path().join(m.wal_segments.last().unwrap());
    let mut bytes = std::fs::read(&seg).unwrap();
    // layout: 4-byte magic, then frames [len: u32 LE][payload][crc: u32 LE]; walk to the third frame
    let mut off = 4usize;
    for _ in 0..2 {
        let len = u32::from_le_bytes(bytes[off..off + 4].try_into().unwrap()) as usize;
        off += 4 + len + 4;
    }
    let old = u32::from_le_bytes(bytes[off..off + 4].try_into().unwrap());
    bytes[off + 1] ^= 0x04; // bit 10: length + 1024 (or - 1024), still far below the 100 MiB sanity limit
    let new = u32::from_le_bytes(bytes[off..off + 4].try_into().unwrap());
    std::fs::write(&seg, &bytes).unwrap();
    println!("  segment {} bytes; frame 3 at offset {off}: length {old} -> {new}", bytes.len());
    match HnswBackend::recover(2, DistanceMetric::Euclidean, dir.path(), 100, FsyncPolicy::Always, 0, 0, MetricsCollector::new()) {
        Ok(r) => {
            let mut v = r.scan(|_| true);
            v.sort();
            println!("  STRICT RECOVERY SUCCEEDED with docs {:?} (expected [1, 2, 3, 4, 5])", v);
            v != vec![1, 2, 3, 4, 5]
        }
        Err(e) => { println!("  recovery refused: {e:#}"); false }
    }
}

// F-C13-b  (C13)  truncation inside a frame of a rotated (non-final) segment is read as a torn tail
//   live=[1, 2, 3, 4, 5, 6] segments=3
//   STRICT RECOVERY SUCCEEDED with docs [1, 2, 4, 5, 6]
fn truncated_older_segment() -> bool {
    let dir = tempfile::tempdir().unwrap();
    let b = HnswBackend::with_persistence(2, DistanceMetric::Euclidean, vec![], vec![], 100, dir.path(), FsyncPolicy::Always, 0, 150).unwrap();
    for i in 1..=6u64 {
        b.insert(i, vec![i as f32, 1.0], HashMap::new()).unwrap();
    }
    drop(b);
    let m = Manifest::load(dir.path().join("MANIFEST")).unwrap();
    let first = dir.path().join(&m.wal_segments[0]);
    let len = std::fs::metadata(&first).unwrap().len();
    let f = std::fs::OpenOptions::new().write(true).open(&first).unwrap();
    f.set_len(len - 5).unwrap();
    match HnswBackend::recover(2, DistanceMetric::Euclidean, dir.path(), 100, FsyncPolicy::Always, 0, 150, MetricsCollector::new()) {
        Ok(r) => {
            let mut v = r.scan(|_| true);
            v.sort();
            println!("  STRICT RECOVERY SUCCEEDED with docs {:?}", v);
            v != vec![1, 2, 3, 4, 5, 6]
        }
        Err(e) => { println!("  recovery refused: {e:#}"); false }
    }
}

// F-C04-a  (C04)  a drain makes a mirror-only entry durable (needs a planted entry; intended repair behaviour)
//   before drain: exists(9)=false cold len=1
//   after  drain: exists(9)=true cold len=2
fn drain_resurrects() -> bool {
    let cfg = TieredEngineConfig { hot_tier_max_size: 100, hot_tier_hard_limit: 200, hnsw_max_elements: 100, embedding_dimension: 2, hnsw_distance: DistanceMetric::Euclidean, data_dir: None, ..Default::default() };
    let e = TieredEngine::new(Box::new(LruCacheStrategy::new(10)), Arc::new(QueryHashCache::new(10, 0.9)), vec![], vec![], cfg).unwrap();
    e.insert(1, vec![1.0, 0.0], HashMap::new()).unwrap();
    e.hot_tier().insert(9, vec![0.0, 1.0], HashMap::new());
    println!("  before drain: exists(9)={} cold len={}", e.exists(9), e.cold_tier().len());
    e.flush_hot_tier(true).unwrap();
    println!("  after  drain: exists(9)={} cold len={}", e.exists(9), e.cold_tier().len());
    e.exists(9)
}

// F-C07-a  (C07)  the exact-hit key is a hash of the query quantised to i16 (saturating for |x| >= 1):
//                 a different query is answered with another query's cached result, with no write in between
//   query [2,0]  -> [SearchResult { doc_id: 1, distance: 0.0 }] via HotAndCold
//   query [9,0]  -> [SearchResult { doc_id: 1, distance: 0.0 }] via CacheHit   (true nearest is doc 2 at distance 0)
fn query_cache_key_collision() -> bool {
    let cfg = TieredEngineConfig { hot_tier_max_size: 100, hot_tier_hard_limit: 200, hnsw_max_elements: 100, embedding_dimension: 2, hnsw_distance: DistanceMetric::Euclidean, data_dir: None, ..Default::default() };
    let e = TieredEngine::new(Box::new(LruCacheStrategy::new(10)), Arc::new(QueryHashCache::new(10, 0.99)), vec![], vec![], cfg).unwrap();
    e.insert(1, vec![2.0, 0.0], HashMap::new()).unwrap();
    e.insert(2, vec![9.0, 0.0], HashMap::new()).unwrap();
    let (r1, p1) = e.knn_search_with_ef_detailed(&[2.0, 0.0], 1, None).unwrap();
    println!("  query [2,0]  -> {:?} via {:?}", r1, p1);
    let (r2, p2) = e.knn_search_with_ef_detailed(&[9.0, 0.0], 1, None).unwrap();
    println!("  query [9,0]  -> {:?} via {:?}", r2, p2);
    r2.first().map(|x| x.doc_id) != Some(2)
}


// F-C01-a (real crash point): the process is KILLED at the first unlink of a compacted segment (observed through
// inotify on the data directory); the next strict start-up must succeed with all four documents.
//   pinned tree: RECOVERY FAILED: strict recovery mode: required WAL segment missing
fn crash_at_first_unlink() -> bool {
    use std::os::unix::ffi::OsStrExt;
    let dir = tempfile::tempdir().unwrap();
    let cpath = std::ffi::CString::new(dir.path().as_os_str().as_bytes()).unwrap();
    let fd = unsafe { libc::inotify_init1(0) };
    assert!(fd >= 0);
    let wd = unsafe { libc::inotify_add_watch(fd, cpath.as_ptr(), libc::IN_DELETE) };
    assert!(wd >= 0);
    let exe = std::env::current_exe().unwrap();
    let mut child = std::process::Command::new(exe).arg("F-C01-a-child").arg(dir.path()).spawn().unwrap();
    // block until the first delete of a wal segment, then kill -9
    let mut buf = [0u8; 4096];
    let mut killed = false;
    let fdc = fd;
    let pid = child.id() as i32;
    let watcher = std::thread::spawn(move || {
        loop {
            let n = unsafe { libc::read(fdc, buf.as_mut_ptr() as *mut libc::c_void, buf.len()) };
            if n <= 0 { return false; }
            let mut off = 0usize;
            while off + std::mem::size_of::<libc::inotify_event>() <= n as usize {
                let ev = unsafe { &*(buf.as_ptr().add(off) as *const libc::inotify_event) };
                let name_bytes = &buf[off + std::mem::size_of::<libc::inotify_event>()..off + std::mem::size_of::<libc::inotify_event>() + ev.len as usize];
                let name = String::from_utf8_lossy(name_bytes).trim_end_matches('\0').to_string();
                if name.starts_with("wal_") && name.ends_with(".wal") {
                    unsafe { libc::kill(pid, libc::SIGKILL); }
                    println!("  killed child at unlink of {name}");
                    return true;
                }
                off += std::mem::size_of::<libc::inotify_event>() + ev.len as usize;
            }
        }
    });
    let status = child.wait().unwrap();
    if status.success() {
        // child finished without any unlink being observed: unblock the watcher
        std::fs::write(dir.path().join("wal_unblock.wal"), b"x").unwrap();
        std::fs::remove_file(dir.path().join("wal_unblock.wal")).unwrap();
    }
    killed = watcher.join().unwrap() && !status.success();
    unsafe { libc::close(fd); }
    println!("  child killed mid-compaction: {killed}");
    if !killed {
        println!("  (no crash point reached: nothing to decide)");
        return false;
    }
    match HnswBackend::recover(2, DistanceMetric::Euclidean, dir.path(), 100, FsyncPolicy::Always, 0, 64, MetricsCollector::new()) {
        Ok(r) => { println!("  recovered len={}", r.len()); r.len() != 4 }
        Err(e) => { println!("  RECOVERY FAILED: {e:#}"); true }
    }
}
fn crash_child(dir: &std::path::Path) {
    let b = HnswBackend::with_persistence(2, DistanceMetric::Euclidean, vec![], vec![], 100, dir, FsyncPolicy::Always, 0, 64).unwrap();
    for i in 1..=4u64 {
        b.insert(i, vec![i as f32, 1.0], HashMap::new()).unwrap();
    }
    b.create_snapshot().unwrap();
}

// F-C01-b (C01, known finding): a fresh start over an EXISTING MANIFEST.  kyrodb_server with persistence.enable_recovery=false (or any
// TieredEngine::new / HnswBackend::with_persistence on a used directory) starts EMPTY, but Manifest::load_or_create inherits the old
// snapshot pointer + segment list and next_wal_seq restarts at 1: writes acknowledged in that run carry sequence numbers the old
// snapshot already "covers" and are skipped by the next recovery, which brings the old collection back.
//   run1 manifest: seq=Some(4)   run2 len=0, insert 100/101 -> Ok, create_snapshot -> Ok (skipped as stale, pointer unchanged)
//   run3 recovered len=5 ids=[1, 2, 3, 4, 5]
fn fresh_over_manifest() -> bool {
    let dir = tempfile::tempdir().unwrap();
    // run 1: normal life
    let b = HnswBackend::with_persistence(2, DistanceMetric::Euclidean, vec![], vec![], 100, dir.path(), FsyncPolicy::Always, 0, 0).unwrap();
    for i in 1..=4u64 { b.insert(i, vec![i as f32, 1.0], HashMap::new()).unwrap(); }
    b.create_snapshot().unwrap();
    b.insert(5, vec![5.0, 1.0], HashMap::new()).unwrap();
    drop(b);
    let m1 = Manifest::load(dir.path().join("MANIFEST")).unwrap();
    println!("  run1 manifest: snapshot={:?} seq={:?} segments={}", m1.latest_snapshot, m1.latest_snapshot_wal_seq, m1.wal_segments.len());
    // run 2: what the server does with enable_recovery=false: with_persistence over the SAME directory
    let b = HnswBackend::with_persistence(2, DistanceMetric::Euclidean, vec![], vec![], 100, dir.path(), FsyncPolicy::Always, 0, 0).unwrap();
    println!("  run2 (fresh start over existing MANIFEST): len={}", b.len());
    let r100 = b.insert(100, vec![100.0, 1.0], HashMap::new());
    let r101 = b.insert(101, vec![101.0, 1.0], HashMap::new());
    println!("  run2 insert 100 -> ok={}, insert 101 -> ok={} (acknowledged)", r100.is_ok(), r101.is_ok());
    println!("  run2 create_snapshot -> ok={}", b.create_snapshot().is_ok());
    drop(b);
    let m2 = Manifest::load(dir.path().join("MANIFEST")).unwrap();
    println!("  run2 manifest: snapshot={:?} seq={:?} segments={}", m2.latest_snapshot, m2.latest_snapshot_wal_seq, m2.wal_segments.len());
    if !(r100.is_ok() && r101.is_ok()) { return false; }
    // run 3: recovery enabled again
    match HnswBackend::recover(2, DistanceMetric::Euclidean, dir.path(), 100, FsyncPolicy::Always, 0, 0, MetricsCollector::new()) {
        Ok(r) => {
            let ids: Vec<u64> = (0..200u64).filter(|i| r.fetch_document(*i).is_some()).collect();
            println!("  run3 recovered len={} ids={:?}", r.len(), ids);
            !ids.contains(&100) || !ids.contains(&101)
        }
        Err(e) => { println!("  run3 RECOVERY FAILED: {e:#}"); true }
    }
}

// F-C03-c (C01/C03, candidate): a FAILED rollback does not fence the WAL writer.  Two storage faults in one append -- the frame is
// written only partly (here: RLIMIT_FSIZE 10 bytes past the end of the segment, SIGXFSZ ignored) and the rollback's ftruncate fails
// (here: the segment carries the append-only inode flag, so O_APPEND writes work and ftruncate answers EPERM) -- make the insert return
// Err and leave the torn bytes in the file; nothing marks the writer damaged, so the NEXT insert is appended behind the torn bytes,
// fsynced and acknowledged.  (Variant inside one call: write_with_retry retries after a failed rollback whenever the rollback error is
// classified Transient; not reproducible without fault injection: EPERM is terminal.)  No syscall interposition is used.
//   needs root + a file system with FS_IOC_SETFLAGS (ext4/xfs/btrfs/tmpfs>=6.0); otherwise "nothing to decide"
fn set_append_only(path: &std::path::Path, on: bool) -> bool {
    use std::os::unix::io::AsRawFd;
    const FS_IOC_GETFLAGS: libc::c_ulong = 0x8008_6601;
    const FS_IOC_SETFLAGS: libc::c_ulong = 0x4008_6602;
    const FS_APPEND_FL: libc::c_long = 0x20;
    let f = match std::fs::File::open(path) { Ok(f) => f, Err(_) => return false };
    let mut flags: libc::c_long = 0;
    if unsafe { libc::ioctl(f.as_raw_fd(), FS_IOC_GETFLAGS as _, &mut flags) } != 0 { return false; }
    if on { flags |= FS_APPEND_FL } else { flags &= !FS_APPEND_FL }
    unsafe { libc::ioctl(f.as_raw_fd(), FS_IOC_SETFLAGS as _, &flags) == 0 }
}
fn failed_rollback_not_fenced() -> bool {
    let dir = tempfile::tempdir().unwrap();
    let b = HnswBackend::with_persistence(2, DistanceMetric::Euclidean, vec![], vec![], 100, dir.path(), FsyncPolicy::Always, 0, 0).unwrap();
    b.insert(1, vec![1.0, 1.0], HashMap::new()).unwrap();
    let m = Manifest::load(dir.path().join("MANIFEST")).unwrap();
    let wal = dir.path().join(m.wal_segments.last().unwrap());
    let len0 = std::fs::metadata(&wal).unwrap().len();
    if !set_append_only(&wal, true) {
        println!("  cannot set the append-only flag on {} (not root / unsupported file system): nothing to decide", wal.display());
        return false;
    }
    // fault 1: the next frame is cut after 10 bytes; fault 2: the rollback's ftruncate fails (append-only inode)
    let mut old = libc::rlimit { rlim_cur: 0, rlim_max: 0 };
    unsafe {
        libc::signal(libc::SIGXFSZ, libc::SIG_IGN);
        libc::getrlimit(libc::RLIMIT_FSIZE, &mut old);
        let lim = libc::rlimit { rlim_cur: (len0 + 10) as libc::rlim_t, rlim_max: old.rlim_max };
        libc::setrlimit(libc::RLIMIT_FSIZE, &lim);
    }
    let r2 = b.insert(2, vec![2.0, 1.0], HashMap::new());
    unsafe { libc::setrlimit(libc::RLIMIT_FSIZE, &old); }
    let len1 = std::fs::metadata(&wal).unwrap().len();
    println!("  insert 2 under faults -> {} ; segment {} -> {} bytes (torn bytes left: {})",
        match &r2 { Ok(()) => "Ok".to_string(), Err(e) => format!("Err({:#})", e).chars().take(160).collect() }, len0, len1, len1 - len0);
    // storage healthy again: the next insert is acknowledged
    let r3 = b.insert(3, vec![3.0, 1.0], HashMap::new());
    let len2 = std::fs::metadata(&wal).unwrap().len();
    println!("  insert 3 (no fault) -> ok={} ; segment -> {} bytes ; wal_inconsistent={}", r3.is_ok(), len2, b.is_wal_inconsistent());
    let live3 = b.fetch_document(3).is_some();
    drop(b);
    set_append_only(&wal, false);
    if r2.is_ok() || len1 == len0 {
        println!("  (faults did not produce the two-fault state: nothing to decide)");
        return false;
    }
    if let Err(e) = &r3 {
        println!("  insert 3 refused (writer fenced after the failed rollback): {}", format!("{e:#}").chars().take(120).collect::<String>());
    }
    // every acknowledged write (doc 1, and doc 3 iff its insert returned Ok) must survive a strict restart
    match HnswBackend::recover(2, DistanceMetric::Euclidean, dir.path(), 100, FsyncPolicy::Always, 0, 0, MetricsCollector::new()) {
        Ok(r) => {
            let ids: Vec<u64> = (0..10u64).filter(|i| r.fetch_document(*i).is_some()).collect();
            println!("  strict recovery succeeded: ids={:?} (live before the restart: doc 3 present={})", ids, live3);
            !ids.contains(&1) || (r3.is_ok() && !ids.contains(&3)) || ids.contains(&2)
        }
        Err(e) => { println!("  STRICT RECOVERY FAILED after an acknowledged write: {e:#}"); true }
    }
}

// F-C07-b (candidate, C07): the similarity path compares queries by COSINE similarity whatever the metric; under Euclidean
// two collinear un-normalised queries are "similar" although their nearest neighbours differ.
fn similarity_ignores_metric() -> bool {
    let cfg = TieredEngineConfig { hot_tier_max_size: 100, hot_tier_hard_limit: 200, hnsw_max_elements: 100, embedding_dimension: 2, hnsw_distance: DistanceMetric::Euclidean, data_dir: None, ..Default::default() };
    let e = TieredEngine::new(Box::new(LruCacheStrategy::new(10)), Arc::new(QueryHashCache::new(10, 0.99)), vec![], vec![], cfg).unwrap();
    e.insert(1, vec![0.5, 0.0], HashMap::new()).unwrap();
    e.insert(2, vec![0.9, 0.0], HashMap::new()).unwrap();
    let (r1, p1) = e.knn_search_with_ef_detailed(&[0.5, 0.0], 1, None).unwrap();
    println!("  query [0.5,0] -> {:?} via {:?}", r1, p1);
    let (r2, p2) = e.knn_search_with_ef_detailed(&[0.9, 0.0], 1, None).unwrap();
    println!("  query [0.9,0] -> {:?} via {:?}", r2, p2);
    r2.first().map(|x| x.doc_id) != Some(2)
}

// ---- C12 restore findings (units archive_header / archive_checksum / restore_order / restore_pitr; notes/c12_restore_replays.rs)
// hand-built archives in the documented format: count:u32le { name_len:u32le name data_len:u64le data }*
fn c12_write_archive(path: &std::path::Path, entries: &[(&str, &[u8])]) {
    let mut out = Vec::new();
    out.extend_from_slice(&(entries.len() as u32).to_le_bytes());
    for (name, data) in entries {
        out.extend_from_slice(&(name.len() as u32).to_le_bytes());
        out.extend_from_slice(name.as_bytes());
        out.extend_from_slice(&(data.len() as u64).to_le_bytes());
        out.extend_from_slice(data);
    }
    std::fs::write(path, out).unwrap();
}
fn c12_write_meta(dir: &std::path::Path, file_id: uuid::Uuid, m: &BackupMetadata) {
    std::fs::write(dir.join(format!("backup_{}.json", file_id)), serde_json::to_string(m).unwrap()).unwrap();
}
fn c12_backup(dir: &std::path::Path, ty: BackupType, parent: Option<uuid::Uuid>, ts: u64, entries: &[(&str, &[u8])]) -> BackupMetadata {
    let id = uuid::Uuid::new_v4();
    let tar = dir.join(format!("backup_{}.tar", id));
    c12_write_archive(&tar, entries);
    let m = BackupMetadata { id, timestamp: ts, backup_type: ty, size_bytes: 0, vector_count: 0, checksum: compute_backup_checksum(&tar).unwrap(),
        parent_id: parent, description: String::new(), max_wal_file_id: None, snapshot_file: None };
    c12_write_meta(dir, id, &m);
    m
}
fn c12_ls(dir: &std::path::Path) -> Vec<(String, String)> {
    let mut v: Vec<_> = std::fs::read_dir(dir).unwrap().map(|e| { let e = e.unwrap(); (e.file_name().to_string_lossy().to_string(),
        if e.path().is_file() { String::from_utf8_lossy(&std::fs::read(e.path()).unwrap()).to_string() } else { "<dir>".into() }) }).collect();
    v.sort();
    v
}
// backup dir + a LIVE data dir {MANIFEST: "live-manifest", wal_9.wal: "live-wal"}
fn c12_dirs() -> (tempfile::TempDir, tempfile::TempDir) {
    let b = tempfile::tempdir().unwrap();
    let d = tempfile::tempdir().unwrap();
    std::fs::write(d.path().join("MANIFEST"), b"live-manifest").unwrap();
    std::fs::write(d.path().join("wal_9.wal"), b"live-wal").unwrap();
    (b, d)
}
fn c12_live_intact(d: &std::path::Path) -> bool {
    c12_ls(d) == vec![("MANIFEST".to_string(), "live-manifest".to_string()), ("wal_9.wal".to_string(), "live-wal".to_string())]
}
fn c12_allow() -> ClearDirectoryOptions { ClearDirectoryOptions::new().with_allow_clear(true) }
// alter the last byte of the first member name ("MANIFEST") of a one-Full backup and restore it over the live directory
fn c12_altered_name(new_last: u8) -> (anyhow::Result<()>, Vec<(String, String)>, bool) {
    let (b, d) = c12_dirs();
    let m = c12_backup(b.path(), BackupType::Full, None, 100, &[("MANIFEST", b"m1"), ("wal_1.wal", b"w1")]);
    let tar = b.path().join(format!("backup_{}.tar", m.id));
    let mut bytes = std::fs::read(&tar).unwrap();
    let pos = 4 + 4 + 7;
    assert_eq!(bytes[pos], b'T');
    bytes[pos] = new_last;
    std::fs::write(&tar, bytes).unwrap();
    let r = RestoreManager::new(b.path(), d.path()).unwrap().restore_from_backup_with_options(m.id, &c12_allow());
    let ls = c12_ls(d.path());
    let intact = c12_live_intact(d.path());
    (r, ls, intact)
}
// F-C12-b.name  (C12)  one flipped bit in a member NAME: the checksum (wrapping sum of payload CRC32s) does not notice
//   restore -> Ok(()); data dir = [("MANIFESU", "m1"), ("wal_1.wal", "w1")]
fn c12_name_bit_flip() -> bool {
    let (r, ls, intact) = c12_altered_name(b'T' ^ 0x01);
    println!("  one bit of a member name flipped: restore -> {:?}; data dir = {:?}", r.as_ref().map_err(|e| e.to_string()), ls);
    // an altered archive must be rejected before the target directory is touched
    !(r.is_err() && intact)
}
// F-C12-b.slash  (C12)  last name byte becomes '/': Path::components() drops the trailing separator, validation and checksum pass,
//   the live directory is cleared, then the extraction fails
//   restore -> Err("Failed to create restore target <data>/MANIFES/"); data dir = []
fn c12_name_slash() -> bool {
    let (r, ls, intact) = c12_altered_name(b'/');
    println!("  member name 'MANIFES/': restore -> {:?}; data dir = {:?}", r.as_ref().map_err(|e| e.to_string()), ls);
    !(r.is_err() && intact)
}
// F-C12-c.type  (C12)  "Incremental" -> "Full" in backup_<id>.json: the incremental is restored alone
//   restore -> Ok(()); data dir = [("MANIFEST", "m2"), ("wal_2.wal", "w2")]   (wal_1.wal of the parent is missing)
fn c12_meta_type_altered() -> bool {
    let (b, d) = c12_dirs();
    let f = c12_backup(b.path(), BackupType::Full, None, 100, &[("MANIFEST", b"m1"), ("wal_1.wal", b"w1")]);
    let i = c12_backup(b.path(), BackupType::Incremental, Some(f.id), 200, &[("MANIFEST", b"m2"), ("wal_2.wal", b"w2")]);
    let jp = b.path().join(format!("backup_{}.json", i.id));
    std::fs::write(&jp, std::fs::read_to_string(&jp).unwrap().replace("\"Incremental\"", "\"Full\"")).unwrap();
    let r = RestoreManager::new(b.path(), d.path()).unwrap().restore_from_backup_with_options(i.id, &c12_allow());
    println!("  backup_type of an incremental altered to Full: restore -> {:?}; data dir = {:?}", r.as_ref().map_err(|e| e.to_string()), c12_ls(d.path()));
    // altered metadata must be rejected before the target directory is touched
    !(r.is_err() && c12_live_intact(d.path()))
}
// F-C12-c.id  (C12)  backup_<f>.json holds the record of another backup g: restore(f) verifies and restores archive g
//   restore(f) -> Ok(()); data dir = [("state", "B")]
fn c12_meta_id_mismatch() -> bool {
    let (b, d) = c12_dirs();
    let f = c12_backup(b.path(), BackupType::Full, None, 100, &[("state", b"A")]);
    let g = c12_backup(b.path(), BackupType::Full, None, 100, &[("state", b"B")]);
    c12_write_meta(b.path(), f.id, &g);
    let r = RestoreManager::new(b.path(), d.path()).unwrap().restore_from_backup_with_options(f.id, &c12_allow());
    println!("  restore(f) where backup_f.json holds record g: -> {:?}; data dir = {:?}", r.as_ref().map_err(|e| e.to_string()), c12_ls(d.path()));
    !(r.is_err() && c12_live_intact(d.path()))
}
// F-C12-d.cycle  (C12)  a parent_id cycle: the parent walk (restore_from_backup) / the child walk (point-in-time) never end and
//   keep growing their chain.  Run in a child process, killed after 10 s.   DEFECT = still running
fn c12_cycle_child(kind: &str, bdir: &std::path::Path, ddir: &std::path::Path, arg: &str) {
    let mgr = RestoreManager::new(bdir, ddir).unwrap();
    let r = if kind == "parent" {
        mgr.restore_from_backup_with_options(arg.parse().unwrap(), &ClearDirectoryOptions::new().with_dry_run(true))
    } else {
        mgr.restore_point_in_time_with_options(arg.parse().unwrap(), &ClearDirectoryOptions::new().with_dry_run(true))
    };
    println!("  child {kind}: returned {:?}", r.map_err(|e| e.to_string()));
}
fn c12_runs_forever(kind: &str, bdir: &std::path::Path, ddir: &std::path::Path, arg: &str) -> bool {
    let exe = std::env::current_exe().unwrap();
    let mut child = std::process::Command::new(exe).arg("F-C12-d-child").arg(kind).arg(bdir).arg(ddir).arg(arg).spawn().unwrap();
    let t0 = std::time::Instant::now();
    loop {
        if let Some(st) = child.try_wait().unwrap() {
            println!("  {kind} walk: child finished after {:?} ({st})", t0.elapsed());
            return false;
        }
        if t0.elapsed() > std::time::Duration::from_secs(10) {
            let _ = child.kill();
            let _ = child.wait();
            println!("  {kind} walk: still running after 10 s, killed");
            return true;
        }
        std::thread::sleep(std::time::Duration::from_millis(50));
    }
}
fn c12_cycle() -> bool {
    // parent walk: an Incremental whose parent_id is its own id
    let (b, d) = c12_dirs();
    let f = c12_backup(b.path(), BackupType::Full, None, 100, &[("state", b"v1")]);
    let mut j = c12_backup(b.path(), BackupType::Incremental, Some(f.id), 300, &[("state", b"v3")]);
    j.parent_id = Some(j.id);
    c12_write_meta(b.path(), j.id, &j);
    let hang1 = c12_runs_forever("parent", b.path(), d.path(), &j.id.to_string());
    // child walk: a second record (in its own file) that is an Incremental child of the Full and carries the Full's id
    let (b2, d2) = c12_dirs();
    let f2 = c12_backup(b2.path(), BackupType::Full, None, 100, &[("state", b"v1")]);
    let mut k = c12_backup(b2.path(), BackupType::Incremental, Some(f2.id), 200, &[("state", b"v2")]);
    let k_file = k.id;
    k.id = f2.id;
    c12_write_meta(b2.path(), k_file, &k);
    let hang2 = c12_runs_forever("pitr", b2.path(), d2.path(), "250");
    hang1 || hang2
}

// F-C12-e  (C12)  an incremental backup ships the CURRENT MANIFEST but never the snapshot it points to
//   history: full backup -> writes 20..22 into the archived segment -> restart (new active segment) -> write 30 -> create_snapshot
//   (snapshot_B; the old segment is compacted away) -> write 40 -> incremental I1(parent = full) -> write 50 -> incremental I2(parent = I1)
//   -> write 60 -> incremental I3(parent = I2); restore I1, I2, I3 into empty directories and start from them.
//   pinned tree: restored MANIFEST names snapshot_B, which is in no archive of the chain:
//     recovery of the restored directory REFUSED: strict recovery mode: snapshot covers WAL seq 0 but MANIFEST committed snapshot seq 7
//     and 6 WAL entries in between are no longer available; refusing to recover from the older snapshot
//   unit backup_incremental (finding: lemma_incremental_never_ships_snapshot; after the fix: inc_content snapshot clauses + lemma_chain_has_snapshot)
fn c12e_ids(b: &HnswBackend) -> Vec<u64> {
    let mut x: Vec<u64> = (0..80u64).filter(|i| b.fetch_document(*i).is_some()).collect();
    x.sort();
    x
}
fn c12e_recover(dir: &std::path::Path) -> anyhow::Result<HnswBackend> {
    HnswBackend::recover(4, DistanceMetric::Euclidean, dir, 1000, FsyncPolicy::Always, 1_000_000, 100 * 1024 * 1024, MetricsCollector::new())
}
fn c12e_restore_differs(bdir: &std::path::Path, m: &BackupMetadata, expected: &[u64], label: &str) -> bool {
    let rdir = tempfile::tempdir().unwrap();
    let r = RestoreManager::new(bdir, rdir.path()).unwrap();
    if let Err(e) = r.restore_from_backup(m.id) {
        println!("  restore({label}) failed: {e:#}");
        return true;
    }
    let rm = Manifest::load(rdir.path().join("MANIFEST")).unwrap();
    let snap_there = rm.latest_snapshot.as_ref().map(|s| rdir.path().join(s).exists()).unwrap_or(true);
    println!("  restore({label}): record snapshot_file={:?}; restored MANIFEST latest_snapshot={:?} present={} dir={:?}",
        m.snapshot_file, rm.latest_snapshot, snap_there, c12_ls(rdir.path()).iter().map(|e| e.0.clone()).collect::<Vec<_>>());
    match c12e_recover(rdir.path()) {
        Ok(rb) => {
            let got = c12e_ids(&rb);
            println!("    recovered {:?} (expected {:?})", got, expected);
            got != expected
        }
        Err(e) => {
            println!("    recovery of the restored directory REFUSED: {e:#}");
            true
        }
    }
}
fn c12_incremental_after_compaction() -> bool {
    let v = |id: u64| vec![id as f32 + 1.0, 0.5, (id % 7) as f32, 2.0];
    let data = tempfile::tempdir().unwrap();
    let bdir = tempfile::tempdir().unwrap();
    let b = HnswBackend::with_persistence(4, DistanceMetric::Euclidean, (0..3u64).map(v).collect(), (0..3u64).map(|_| HashMap::new()).collect(),
        1000, data.path(), FsyncPolicy::Always, 1_000_000, 100 * 1024 * 1024).unwrap();
    for id in 10..13u64 { b.insert(id, v(id), HashMap::new()).unwrap(); }
    b.sync_wal().unwrap();
    let mgr = BackupManager::new(bdir.path(), data.path()).unwrap();
    let full = mgr.create_full_backup("full".into()).unwrap();
    println!("  FULL snapshot_file={:?} max_wal_file_id={:?}", full.snapshot_file, full.max_wal_file_id);
    for id in 20..23u64 { b.insert(id, v(id), HashMap::new()).unwrap(); }
    b.sync_wal().unwrap();
    drop(b);
    std::thread::sleep(std::time::Duration::from_millis(1100));
    let b = c12e_recover(data.path()).unwrap();
    b.insert(30, v(30), HashMap::new()).unwrap();
    b.sync_wal().unwrap();
    b.create_snapshot().unwrap();
    let m = Manifest::load(data.path().join("MANIFEST")).unwrap();
    println!("  after create_snapshot: latest_snapshot={:?} wal_segments={:?}", m.latest_snapshot, m.wal_segments);
    let mut defect = false;
    let mut parent = full;
    for (k, id) in [40u64, 50, 60].iter().enumerate() {
        b.insert(*id, v(*id), HashMap::new()).unwrap();
        b.sync_wal().unwrap();
        std::thread::sleep(std::time::Duration::from_millis(1100));
        let inc = match mgr.create_incremental_backup(parent.id, format!("inc{}", k + 1)) {
            Ok(i) => i,
            Err(e) => { println!("  create_incremental_backup #{} failed: {e:#}", k + 1); return true; }
        };
        let expected = c12e_ids(&b);
        defect |= c12e_restore_differs(bdir.path(), &inc, &expected, &format!("I{}", k + 1));
        parent = inc;
    }
    defect
}

// ---- F-C10-a (C10): a tenant's search hit count depends on ANOTHER tenant's documents (real kyrodb_server over gRPC, auth enabled)
//   the k-NN search is global (search_k = k * oversampling(filter, namespace); the tenant is not part of it) and the tenant check is a
//   post-filter in build_search_response: tenant A owns a matching document, tenant B inserts nearer ones, A's Search(k=1) comes back empty.
//   unit handler_isolation, obligation KyroDBServiceImpl::build_search_response_c10/ensures#1
struct KillOnDrop(std::process::Child);
impl Drop for KillOnDrop {
    fn drop(&mut self) {
        let _ = self.0.kill();
        let _ = self.0.wait();
    }
}
fn c10_repo() -> String { std::env::var("VERIF_REPO").unwrap_or_else(|_| "/repo".to_string()) }
/// build (offline, once per repo tree; cargo decides what is stale) and return the path of the real server binary
fn c10_server_binary() -> std::path::PathBuf {
    if let Ok(p) = std::env::var("VERIF_SERVER_BIN") { return p.into(); }
    let repo = c10_repo();
    let target = format!("/verif/out/server-target{}", repo.replace('/', "_"));
    println!("  building kyrodb_server from {repo} into {target} (offline; the first build takes minutes)");
    let out = std::process::Command::new("cargo")
        .args(["build", "--offline", "-q", "-p", "kyrodb-engine", "--bin", "kyrodb_server"])
        .current_dir(&repo)
        .env("CARGO_NET_OFFLINE", "true")
        .env("CARGO_TARGET_DIR", &target)
        .output()
        .expect("cannot run cargo");
    if !out.status.success() {
        let err = String::from_utf8_lossy(&out.stderr);
        let tail: Vec<&str> = err.lines().rev().take(30).collect();
        for l in tail.iter().rev() { eprintln!("  | {l}"); }
        panic!("building kyrodb_server failed");
    }
    std::path::PathBuf::from(target).join("debug").join("kyrodb_server")
}
fn c10_port() -> u16 { std::net::TcpListener::bind("127.0.0.1:0").expect("bind").local_addr().unwrap().port() }
fn c10_keyed<T>(key: &str, body: T) -> tonic::Request<T> {
    let mut r = tonic::Request::new(body);
    r.metadata_mut().insert("x-api-key", key.parse().unwrap());
    r
}
fn c10_vec(x: f32, y: f32) -> Vec<f32> {
    let mut v = vec![0.0f32; 8];
    v[0] = x;
    v[1] = y;
    v
}
fn search_hits_depend_on_other_tenant() -> bool {
    use kyrodb_engine::proto::kyro_db_service_client::KyroDbServiceClient;
    use kyrodb_engine::proto::{InsertRequest, QueryRequest, SearchRequest};
    use std::time::{Duration, Instant};
    const KEY_A: &str = "kyro_tenant_a_aaaaaaaaaaaaaaaaaaaaaaaaaaaaaaaa";
    const KEY_B: &str = "kyro_tenant_b_bbbbbbbbbbbbbbbbbbbbbbbbbbbbbbbb";
    let bin = c10_server_binary();
    let tmp = tempfile::tempdir().unwrap();
    let data_dir = tmp.path().join("data");
    std::fs::create_dir_all(&data_dir).unwrap();
    let keys_path = tmp.path().join("api_keys.yaml");
    let mut keys = String::from("api_keys:\n");
    for (k, t) in [(KEY_A, "tenant_a"), (KEY_B, "tenant_b")] {
        keys += &format!("  - key: {k}\n    tenant_id: {t}\n    tenant_name: {t}\n    max_qps: 100000\n    max_vectors: 10000\n    enabled: true\n    created_at: \"2025-01-01T00:00:00Z\"\n");
    }
    std::fs::write(&keys_path, keys).unwrap();
    let (port, http_port) = (c10_port(), c10_port());
    let log = std::fs::File::create(tmp.path().join("server.log")).unwrap();
    let child = std::process::Command::new(&bin)
        .env("KYRODB_DATA_DIR", &data_dir)
        .env("KYRODB_PORT", port.to_string())
        .env("KYRODB__SERVER__HTTP_PORT", http_port.to_string())
        .env("KYRODB__AUTH__ENABLED", "true")
        .env("KYRODB__AUTH__API_KEYS_FILE", &keys_path)
        .env("KYRODB__HNSW__DIMENSION", "8")
        .env("KYRODB__HNSW__MAX_ELEMENTS", "1000")
        .stdout(std::process::Stdio::null())
        .stderr(log)
        .spawn()
        .unwrap_or_else(|e| panic!("cannot spawn {}: {e}", bin.display()));
    let mut server = KillOnDrop(child);      // killed on every way out of this function, panics included

    let rt = tokio::runtime::Builder::new_multi_thread().worker_threads(2).enable_all().build().unwrap();
    let endpoint = format!("http://127.0.0.1:{port}");
    let outcome = rt.block_on(async {
        let deadline = Instant::now() + Duration::from_secs(60);
        let mut client = loop {
            match KyroDbServiceClient::connect(endpoint.clone()).await {
                Ok(c) => break c,
                Err(e) => {
                    if let Ok(Some(st)) = server.0.try_wait() { panic!("kyrodb_server exited early: {st}"); }
                    assert!(Instant::now() < deadline, "server did not come up: {e}");
                    tokio::time::sleep(Duration::from_millis(100)).await;
                }
            }
        };
        macro_rules! insert { ($key:expr, $id:expr, $v:expr) => {{
            let r = client.insert(c10_keyed($key, InsertRequest { doc_id: $id, embedding: $v, metadata: HashMap::new(), namespace: String::new() })).await.expect("insert rpc");
            assert!(r.get_ref().success, "insert failed: {}", r.get_ref().error);
        }}; }
        macro_rules! search { ($key:expr, $q:expr, $filter:expr) => {{
            let r = client.search(c10_keyed($key, SearchRequest { query_embedding: $q, k: 1, min_score: 0.0, namespace: String::new(), include_embeddings: false,
                ef_search: 0, filter: $filter, metadata_filters: HashMap::new() })).await.expect("search rpc");
            let r = r.into_inner();
            (r.results.iter().map(|h| h.doc_id).collect::<Vec<u64>>(), r.total_found)
        }}; }
        // 1. tenant A stores one document near q = e0 and finds it
        insert!(KEY_A, 1, c10_vec(1.0, 0.3));
        let (hits1, total1) = search!(KEY_A, c10_vec(1.0, 0.0), None);
        println!("  A: Insert(1, [1,0.3,..]); Search([1,0,..], k=1) -> hits {hits1:?} total_found {total1}");
        // 2. tenant B stores 16 nearer documents (colliding local ids): they take every place of the global top search_k of an unfiltered k=1 search
        for i in 1..=16u64 { insert!(KEY_B, i, c10_vec(1.0, 0.001 * i as f32)); }
        println!("  B: Insert(1..=16, [1, 0.001*i, ..])   (all nearer to e0 than A's document)");
        // 3. tenant A searches again with a fresh query vector (no cache can answer); then once more under a different cache scope with a filter that
        //    selects A's document (informational: a filter raises the oversampling factor, so this one may still reach A's document)
        let (hits2, total2) = search!(KEY_A, c10_vec(1.0, 0.0005), None);
        println!("  A: Search([1,0.0005,..], k=1) -> hits {hits2:?} total_found {total2}");
        let not_x = MetadataFilter { filter_type: Some(FilterType::NotFilter(Box::new(kyrodb_engine::proto::NotFilter {
            filter: Some(Box::new(MetadataFilter { filter_type: Some(FilterType::Exact(ExactMatch { key: "kind".into(), value: "x".into() })) })) }))) };
        let (hits3, total3) = search!(KEY_A, c10_vec(1.0, 0.0007), Some(not_x));
        println!("  A: Search([1,0.0007,..], k=1, filter NOT(kind=x)) -> hits {hits3:?} total_found {total3}");
        // A's document is still there and matches both requests
        let own = client.query(c10_keyed(KEY_A, QueryRequest { doc_id: 1, include_embedding: false, namespace: String::new() })).await.expect("query rpc").get_ref().found;
        println!("  A: Query(1) -> found {own}");
        let warranted = if own { 1 } else { 0 };     // min(k, number of A's own matching documents)
        (hits1.len(), hits2.len(), hits3.len(), warranted)
    });
    drop(rt);
    let _ = server.0.kill();
    let _ = server.0.wait();
    let (h1, h2, h3, warranted) = outcome;
    println!("  A owns {warranted} matching document(s), k=1: hits before B's inserts {h1}, after {h2} (no filter) / {h3} (filter)");
    h1 == 1 && (h2 < warranted || h3 < warranted)
}

// F-C13-d  (C13)  the MANIFEST is removed after a clean stop: the real server finds "no MANIFEST", takes the directory for a new one and
//                 starts an EMPTY database next to the old WAL segments and snapshots (HnswBackend::recover itself refuses: "No MANIFEST found")
fn c13_spawn_server(bin: &std::path::Path, data_dir: &std::path::Path, log: &std::path::Path, port: u16, http_port: u16) -> KillOnDrop {
    let log = std::fs::OpenOptions::new().create(true).append(true).open(log).unwrap();
    let child = std::process::Command::new(bin)
        .env("KYRODB_DATA_DIR", data_dir)
        .env("KYRODB_PORT", port.to_string())
        .env("KYRODB__SERVER__HTTP_PORT", http_port.to_string())
        .env("KYRODB__HNSW__DIMENSION", "8")
        .env("KYRODB__HNSW__MAX_ELEMENTS", "1000")
        .stdout(std::process::Stdio::null())
        .stderr(log)
        .spawn()
        .unwrap_or_else(|e| panic!("cannot spawn {}: {e}", bin.display()));
    KillOnDrop(child)
}
fn manifest_removed_server_starts_empty() -> bool {
    use kyrodb_engine::proto::kyro_db_service_client::KyroDbServiceClient;
    use kyrodb_engine::proto::{InsertRequest, QueryRequest};
    use std::time::{Duration, Instant};
    let bin = c10_server_binary();
    let tmp = tempfile::tempdir().unwrap();
    let data_dir = tmp.path().join("data");
    std::fs::create_dir_all(&data_dir).unwrap();
    let logp = tmp.path().join("server.log");
    let rt = tokio::runtime::Builder::new_multi_thread().worker_threads(2).enable_all().build().unwrap();
    // returns Some(client) when the server answers, None when the process exited (= refused to start)
    async fn connect(server: &mut KillOnDrop, endpoint: String) -> Option<kyrodb_engine::proto::kyro_db_service_client::KyroDbServiceClient<tonic::transport::Channel>> {
        let deadline = Instant::now() + Duration::from_secs(60);
        loop {
            match KyroDbServiceClient::connect(endpoint.clone()).await {
                Ok(c) => return Some(c),
                Err(e) => {
                    if let Ok(Some(_)) = server.0.try_wait() { return None; }
                    assert!(Instant::now() < deadline, "server did not come up: {e}");
                    tokio::time::sleep(Duration::from_millis(100)).await;
                }
            }
        }
    }
    // run 1: three acknowledged documents, then a clean stop (SIGTERM)
    let (port, http_port) = (c10_port(), c10_port());
    let mut server = c13_spawn_server(&bin, &data_dir, &logp, port, http_port);
    let ok1 = rt.block_on(async {
        let mut client = connect(&mut server, format!("http://127.0.0.1:{port}")).await.expect("first start");
        for i in 1..=3u64 {
            let r = client.insert(tonic::Request::new(InsertRequest { doc_id: i, embedding: c10_vec(i as f32, 1.0), metadata: HashMap::new(), namespace: String::new() })).await.expect("insert rpc");
            assert!(r.get_ref().success, "insert failed: {}", r.get_ref().error);
        }
        client.query(tonic::Request::new(QueryRequest { doc_id: 1, include_embedding: false, namespace: String::new() })).await.expect("query rpc").get_ref().found
    });
    unsafe { libc::kill(server.0.id() as i32, libc::SIGTERM); }
    let t0 = Instant::now();
    while server.0.try_wait().ok().flatten().is_none() && t0.elapsed() < Duration::from_secs(20) { std::thread::sleep(Duration::from_millis(50)); }
    drop(server);
    let mut names: Vec<String> = std::fs::read_dir(&data_dir).unwrap().map(|e| e.unwrap().file_name().to_string_lossy().to_string()).collect();
    names.sort();
    println!("  run 1: Insert(1..=3) acknowledged, Query(1) found={ok1}; data dir after stop: {names:?}");
    // the single fault: the MANIFEST is removed
    std::fs::remove_file(data_dir.join("MANIFEST")).unwrap();
    println!("  fault: MANIFEST removed");
    // run 2
    let (port, http_port) = (c10_port(), c10_port());
    let mut server = c13_spawn_server(&bin, &data_dir, &logp, port, http_port);
    let verdict = rt.block_on(async {
        match connect(&mut server, format!("http://127.0.0.1:{port}")).await {
            None => { println!("  run 2: the server refused to start"); false }
            Some(mut client) => {
                let mut found = vec![];
                for i in 1..=3u64 {
                    if client.query(tonic::Request::new(QueryRequest { doc_id: i, include_embedding: false, namespace: String::new() })).await.expect("query rpc").get_ref().found { found.push(i); }
                }
                println!("  run 2: the server STARTED; Query(1..=3) finds {found:?} (expected [1, 2, 3])");
                found != vec![1, 2, 3]
            }
        }
    });
    drop(rt);
    let _ = server.0.kill();
    let _ = server.0.wait();
    ok1 && verdict
}

// F-C19-a  (C19)  the state-changing admin RPCs FlushHotTier and CreateSnapshot never consult the rate limiter: a tenant with max_qps = 2
//                 gets 40 FlushHotTier requests admitted back to back (bound: burst 2 + 2/s * elapsed)
fn admin_rpcs_not_rate_limited() -> bool {
    use kyrodb_engine::proto::kyro_db_service_client::KyroDbServiceClient;
    use kyrodb_engine::proto::{FlushRequest, InsertRequest};
    use std::time::{Duration, Instant};
    const KEY_A: &str = "kyro_tenant_a_aaaaaaaaaaaaaaaaaaaaaaaaaaaaaaaa";
    let bin = c10_server_binary();
    let tmp = tempfile::tempdir().unwrap();
    let data_dir = tmp.path().join("data");
    std::fs::create_dir_all(&data_dir).unwrap();
    let keys_path = tmp.path().join("api_keys.yaml");
    std::fs::write(&keys_path, format!("api_keys:\n  - key: {KEY_A}\n    tenant_id: tenant_a\n    tenant_name: tenant_a\n    max_qps: 2\n    max_vectors: 10000\n    enabled: true\n    created_at: \"2025-01-01T00:00:00Z\"\n")).unwrap();
    let (port, http_port) = (c10_port(), c10_port());
    let log = std::fs::File::create(tmp.path().join("server.log")).unwrap();
    let child = std::process::Command::new(&bin)
        .env("KYRODB_DATA_DIR", &data_dir)
        .env("KYRODB_PORT", port.to_string())
        .env("KYRODB__SERVER__HTTP_PORT", http_port.to_string())
        .env("KYRODB__AUTH__ENABLED", "true")
        .env("KYRODB__AUTH__API_KEYS_FILE", &keys_path)
        .env("KYRODB__RATE_LIMIT__ENABLED", "true")
        .env("KYRODB__HNSW__DIMENSION", "8")
        .env("KYRODB__HNSW__MAX_ELEMENTS", "1000")
        .stdout(std::process::Stdio::null())
        .stderr(log)
        .spawn()
        .unwrap_or_else(|e| panic!("cannot spawn {}: {e}", bin.display()));
    let mut server = KillOnDrop(child);
    let rt = tokio::runtime::Builder::new_multi_thread().worker_threads(2).enable_all().build().unwrap();
    let endpoint = format!("http://127.0.0.1:{port}");
    let (admitted_flush, refused_flush, elapsed, inserts_ok) = rt.block_on(async {
        let deadline = Instant::now() + Duration::from_secs(60);
        let mut client = loop {
            match KyroDbServiceClient::connect(endpoint.clone()).await {
                Ok(c) => break c,
                Err(e) => {
                    if let Ok(Some(st)) = server.0.try_wait() { panic!("kyrodb_server exited early: {st}"); }
                    assert!(Instant::now() < deadline, "server did not come up: {e}");
                    tokio::time::sleep(Duration::from_millis(100)).await;
                }
            }
        };
        // control: the data-plane RPC IS limited for this tenant (so the limiter is live)
        let mut inserts_ok = 0;
        for i in 1..=10u64 {
            if client.insert(c10_keyed(KEY_A, InsertRequest { doc_id: i, embedding: c10_vec(i as f32, 1.0), metadata: HashMap::new(), namespace: String::new() })).await.is_ok() { inserts_ok += 1; }
        }
        tokio::time::sleep(Duration::from_millis(1200)).await;
        let t0 = Instant::now();
        let (mut ok, mut refused) = (0u32, 0u32);
        for _ in 0..40 {
            match client.flush_hot_tier(c10_keyed(KEY_A, FlushRequest { force: false })).await {
                Ok(_) => ok += 1,
                Err(st) if st.code() == tonic::Code::ResourceExhausted => refused += 1,
                Err(st) => panic!("unexpected status {st}"),
            }
        }
        (ok, refused, t0.elapsed().as_secs_f64(), inserts_ok)
    });
    drop(rt);
    let _ = server.0.kill();
    let _ = server.0.wait();
    let bound = 2.0 + 2.0 * (elapsed + 1.2) + 1.0;
    println!("  control: 10 Insert back to back, max_qps 2: {inserts_ok} admitted");
    println!("  40 FlushHotTier in {elapsed:.3}s: {admitted_flush} admitted, {refused_flush} RESOURCE_EXHAUSTED (generous bound burst + rate * interval + 1 = {bound:.1})");
    inserts_ok < 10 && (admitted_flush as f64) > bound
}

// F-C13-f  (C13, C10)  one flipped bit in a DIGIT of tenants.json (the tenant -> index map in the data directory) after a clean stop:
//                 {"tenant_a": 0, "tenant_b": 1} becomes {"tenant_a": 0, "tenant_b": 0}; the map is loaded without any check, both tenants now
//                 share index 0 and tenant B reads (and can delete) tenant A's documents
fn tenant_map_digit_flip() -> bool {
    use kyrodb_engine::proto::kyro_db_service_client::KyroDbServiceClient;
    use kyrodb_engine::proto::{InsertRequest, QueryRequest};
    use std::time::{Duration, Instant};
    const KEY_A: &str = "kyro_tenant_a_aaaaaaaaaaaaaaaaaaaaaaaaaaaaaaaa";
    const KEY_B: &str = "kyro_tenant_b_bbbbbbbbbbbbbbbbbbbbbbbbbbbbbbbb";
    let bin = c10_server_binary();
    let tmp = tempfile::tempdir().unwrap();
    let data_dir = tmp.path().join("data");
    std::fs::create_dir_all(&data_dir).unwrap();
    let keys_path = tmp.path().join("api_keys.yaml");
    let mut keys = String::from("api_keys:\n");
    for (k, t) in [(KEY_A, "tenant_a"), (KEY_B, "tenant_b")] {
        keys += &format!("  - key: {k}\n    tenant_id: {t}\n    tenant_name: {t}\n    max_qps: 100000\n    max_vectors: 10000\n    enabled: true\n    created_at: \"2025-01-01T00:00:00Z\"\n");
    }
    std::fs::write(&keys_path, keys).unwrap();
    let logp = tmp.path().join("server.log");
    let spawn = |port: u16, http_port: u16| {
        let log = std::fs::OpenOptions::new().create(true).append(true).open(&logp).unwrap();
        KillOnDrop(std::process::Command::new(&bin)
            .env("KYRODB_DATA_DIR", &data_dir)
            .env("KYRODB_PORT", port.to_string())
            .env("KYRODB__SERVER__HTTP_PORT", http_port.to_string())
            .env("KYRODB__AUTH__ENABLED", "true")
            .env("KYRODB__AUTH__API_KEYS_FILE", &keys_path)
            .env("KYRODB__HNSW__DIMENSION", "8")
            .env("KYRODB__HNSW__MAX_ELEMENTS", "1000")
            .stdout(std::process::Stdio::null())
            .stderr(log)
            .spawn()
            .unwrap_or_else(|e| panic!("cannot spawn {}: {e}", bin.display())))
    };
    let rt = tokio::runtime::Builder::new_multi_thread().worker_threads(2).enable_all().build().unwrap();
    async fn connect(server: &mut KillOnDrop, endpoint: String) -> Option<kyrodb_engine::proto::kyro_db_service_client::KyroDbServiceClient<tonic::transport::Channel>> {
        let deadline = Instant::now() + Duration::from_secs(60);
        loop {
            match KyroDbServiceClient::connect(endpoint.clone()).await {
                Ok(c) => return Some(c),
                Err(e) => {
                    if let Ok(Some(_)) = server.0.try_wait() { return None; }
                    assert!(Instant::now() < deadline, "server did not come up: {e}");
                    tokio::time::sleep(Duration::from_millis(100)).await;
                }
            }
        }
    }
    // run 1: tenant A stores document 1; tenant B cannot see it
    let (port, http_port) = (c10_port(), c10_port());
    let mut server = spawn(port, http_port);
    let b_sees_before = rt.block_on(async {
        let mut client = connect(&mut server, format!("http://127.0.0.1:{port}")).await.expect("first start");
        let r = client.insert(c10_keyed(KEY_A, InsertRequest { doc_id: 1, embedding: c10_vec(1.0, 0.5), metadata: HashMap::new(), namespace: String::new() })).await.expect("insert rpc");
        assert!(r.get_ref().success, "insert failed: {}", r.get_ref().error);
        client.query(c10_keyed(KEY_B, QueryRequest { doc_id: 1, include_embedding: false, namespace: String::new() })).await.expect("query rpc").get_ref().found
    });
    unsafe { libc::kill(server.0.id() as i32, libc::SIGTERM); }
    let t0 = Instant::now();
    while server.0.try_wait().ok().flatten().is_none() && t0.elapsed() < Duration::from_secs(20) { std::thread::sleep(Duration::from_millis(50)); }
    drop(server);
    // the single fault: the digit of tenant_b's index, '1' (0x31) -> '0' (0x30)
    let mp = data_dir.join("tenants.json");
    let mut bytes = std::fs::read(&mp).unwrap();
    let text = String::from_utf8(bytes.clone()).unwrap();
    println!("  run 1: A inserted doc 1; B's Query(1) found={b_sees_before}; tenants.json = {}", text.replace('\n', " "));
    let key_pos = text.find("\"tenant_b\"").expect("tenant_b in map");
    let digit = key_pos + text[key_pos..].find(|c: char| c.is_ascii_digit()).expect("index digit");
    if bytes[digit] != b'1' { println!("  tenant_b does not have index 1 here: nothing to decide"); return false; }
    bytes[digit] ^= 0x01;
    std::fs::write(&mp, &bytes).unwrap();
    println!("  fault: tenants.json = {}", String::from_utf8_lossy(&bytes).replace('\n', " "));
    // run 2
    let (port, http_port) = (c10_port(), c10_port());
    let mut server = spawn(port, http_port);
    let verdict = rt.block_on(async {
        match connect(&mut server, format!("http://127.0.0.1:{port}")).await {
            None => { println!("  run 2: the server refused to start"); false }
            Some(mut client) => {
                let b = client.query(c10_keyed(KEY_B, QueryRequest { doc_id: 1, include_embedding: false, namespace: String::new() })).await.expect("query rpc").get_ref().found;
                println!("  run 2: the server STARTED; tenant B's Query(1) found={b} (B never stored a document)");
                b
            }
        }
    });
    drop(rt);
    let _ = server.0.kill();
    let _ = server.0.wait();
    !b_sees_before && verdict
}

// F-C13-g  (C13, C10)  tenants.json REMOVED over a non-empty database: the map is rebuilt from the sorted list of the current tenant ids, which need
//                 not be the historical order of assignment (tenant "zeta" came first = index 0; "alpha" was added later = index 1; rebuilt: alpha = 0)
fn tenant_map_removed() -> bool {
    use kyrodb_engine::proto::kyro_db_service_client::KyroDbServiceClient;
    use kyrodb_engine::proto::{InsertRequest, QueryRequest};
    use std::time::{Duration, Instant};
    const KEY_Z: &str = "kyro_zeta_cccccccccccccccccccccccccccccccc";
    const KEY_A: &str = "kyro_alpha_aaaaaaaaaaaaaaaaaaaaaaaaaaaaaaaa";
    let bin = c10_server_binary();
    let tmp = tempfile::tempdir().unwrap();
    let data_dir = tmp.path().join("data");
    std::fs::create_dir_all(&data_dir).unwrap();
    let keys_path = tmp.path().join("api_keys.yaml");
    let write_keys = |list: &[(&str, &str)]| {
        let mut keys = String::from("api_keys:\n");
        for (k, t) in list {
            keys += &format!("  - key: {k}\n    tenant_id: {t}\n    tenant_name: {t}\n    max_qps: 100000\n    max_vectors: 10000\n    enabled: true\n    created_at: \"2025-01-01T00:00:00Z\"\n");
        }
        std::fs::write(&keys_path, keys).unwrap();
    };
    let logp = tmp.path().join("server.log");
    let spawn = |port: u16, http_port: u16| {
        let log = std::fs::OpenOptions::new().create(true).append(true).open(&logp).unwrap();
        KillOnDrop(std::process::Command::new(&bin)
            .env("KYRODB_DATA_DIR", &data_dir)
            .env("KYRODB_PORT", port.to_string())
            .env("KYRODB__SERVER__HTTP_PORT", http_port.to_string())
            .env("KYRODB__AUTH__ENABLED", "true")
            .env("KYRODB__AUTH__API_KEYS_FILE", &keys_path)
            .env("KYRODB__HNSW__DIMENSION", "8")
            .env("KYRODB__HNSW__MAX_ELEMENTS", "1000")
            .stdout(std::process::Stdio::null())
            .stderr(log)
            .spawn()
            .unwrap_or_else(|e| panic!("cannot spawn {}: {e}", bin.display())))
    };
    let stop = |mut server: KillOnDrop| {
        unsafe { libc::kill(server.0.id() as i32, libc::SIGTERM); }
        let t0 = Instant::now();
        while server.0.try_wait().ok().flatten().is_none() && t0.elapsed() < Duration::from_secs(20) { std::thread::sleep(Duration::from_millis(50)); }
    };
    let rt = tokio::runtime::Builder::new_multi_thread().worker_threads(2).enable_all().build().unwrap();
    async fn connect(server: &mut KillOnDrop, endpoint: String) -> Option<kyrodb_engine::proto::kyro_db_service_client::KyroDbServiceClient<tonic::transport::Channel>> {
        let deadline = Instant::now() + Duration::from_secs(60);
        loop {
            match KyroDbServiceClient::connect(endpoint.clone()).await {
                Ok(c) => return Some(c),
                Err(e) => {
                    if let Ok(Some(_)) = server.0.try_wait() { return None; }
                    assert!(Instant::now() < deadline, "server did not come up: {e}");
                    tokio::time::sleep(Duration::from_millis(100)).await;
                }
            }
        }
    }
    // run 1: only tenant "zeta" exists; it stores document 1
    write_keys(&[(KEY_Z, "zeta")]);
    let (port, http_port) = (c10_port(), c10_port());
    let mut server = spawn(port, http_port);
    rt.block_on(async {
        let mut client = match connect(&mut server, format!("http://127.0.0.1:{port}")).await { Some(c) => c, None => { eprintln!("run 1 did not start:\n{}", std::fs::read_to_string(&logp).unwrap_or_default().lines().rev().take(15).collect::<Vec<_>>().join("\n")); panic!("run 1") } };
        let r = client.insert(c10_keyed(KEY_Z, InsertRequest { doc_id: 1, embedding: c10_vec(1.0, 0.5), metadata: HashMap::new(), namespace: String::new() })).await.expect("insert rpc");
        assert!(r.get_ref().success, "insert failed: {}", r.get_ref().error);
    });
    stop(server);
    // run 2: tenant "alpha" is added; it sees nothing
    write_keys(&[(KEY_Z, "zeta"), (KEY_A, "alpha")]);
    let (port, http_port) = (c10_port(), c10_port());
    let mut server = spawn(port, http_port);
    let a_sees_before = rt.block_on(async {
        let mut client = match connect(&mut server, format!("http://127.0.0.1:{port}")).await { Some(c) => c, None => { eprintln!("run 2 did not start:\n{}", std::fs::read_to_string(&logp).unwrap_or_default().lines().rev().take(15).collect::<Vec<_>>().join("\n")); panic!("run 2") } };
        client.query(c10_keyed(KEY_A, QueryRequest { doc_id: 1, include_embedding: false, namespace: String::new() })).await.expect("query rpc").get_ref().found
    });
    stop(server);
    let mp = data_dir.join("tenants.json");
    println!("  run 1: zeta inserted doc 1; run 2: alpha added, alpha's Query(1) found={a_sees_before}; tenants.json = {}", std::fs::read_to_string(&mp).unwrap().replace('\n', " "));
    // the single fault: tenants.json is removed
    std::fs::remove_file(&mp).unwrap();
    println!("  fault: tenants.json removed");
    let (port, http_port) = (c10_port(), c10_port());
    let mut server = spawn(port, http_port);
    let verdict = rt.block_on(async {
        match connect(&mut server, format!("http://127.0.0.1:{port}")).await {
            None => { println!("  run 3: the server refused to start"); false }
            Some(mut client) => {
                let a = client.query(c10_keyed(KEY_A, QueryRequest { doc_id: 1, include_embedding: false, namespace: String::new() })).await.expect("query rpc").get_ref().found;
                let z = client.query(c10_keyed(KEY_Z, QueryRequest { doc_id: 1, include_embedding: false, namespace: String::new() })).await.expect("query rpc").get_ref().found;
                println!("  run 3: the server STARTED; tenants.json = {}; alpha's Query(1) found={a} (alpha never stored a document), zeta's Query(1) found={z}",
                         std::fs::read_to_string(&mp).unwrap_or_default().replace('\n', " "));
                a || !z
            }
        }
    });
    drop(rt);
    let _ = server.0.kill();
    let _ = server.0.wait();
    !a_sees_before && verdict
}

// F-C01-c  (C01, periodic-fsync clause)  under the DEFAULT policy (data_only = periodic fsync, 100 ms) the WAL writer only syncs when an APPEND finds the
//                 interval elapsed, and nothing else ever syncs it (HnswBackend::sync_wal, "for periodic fsync policy", has no caller): the frames
//                 written since the last such append stay in the page cache for as long as the server is idle.  Witness: system-call trace of the
//                 real server (strace): after the last write(2) to the WAL segment no fsync/fdatasync of that descriptor follows within 15 intervals.
fn periodic_fsync_never_catches_up() -> bool {
    use kyrodb_engine::proto::kyro_db_service_client::KyroDbServiceClient;
    use kyrodb_engine::proto::InsertRequest;
    use std::time::{Duration, Instant};
    if std::process::Command::new("strace").arg("-V").output().is_err() { println!("  strace not available: nothing to decide"); return false; }
    let bin = c10_server_binary();
    let tmp = tempfile::tempdir().unwrap();
    let data_dir = tmp.path().join("data");
    std::fs::create_dir_all(&data_dir).unwrap();
    let trace = tmp.path().join("trace.txt");
    let (port, http_port) = (c10_port(), c10_port());
    let log = std::fs::File::create(tmp.path().join("server.log")).unwrap();
    let child = std::process::Command::new("strace")
        .args(["-f", "-ttt", "-e", "trace=openat,write,pwrite64,writev,fsync,fdatasync", "-o"]).arg(&trace)
        .arg(&bin)
        .env("KYRODB_DATA_DIR", &data_dir)
        .env("KYRODB_PORT", port.to_string())
        .env("KYRODB__SERVER__HTTP_PORT", http_port.to_string())
        .env("KYRODB__PERSISTENCE__FSYNC_POLICY", "data_only")
        .env("KYRODB__PERSISTENCE__WAL_FLUSH_INTERVAL_MS", "100")
        .env("KYRODB__HNSW__DIMENSION", "8")
        .env("KYRODB__HNSW__MAX_ELEMENTS", "1000")
        .stdout(std::process::Stdio::null())
        .stderr(log)
        .spawn()
        .unwrap_or_else(|e| panic!("cannot spawn strace: {e}"));
    let mut server = KillOnDrop(child);
    let rt = tokio::runtime::Builder::new_multi_thread().worker_threads(2).enable_all().build().unwrap();
    let endpoint = format!("http://127.0.0.1:{port}");
    rt.block_on(async {
        let deadline = Instant::now() + Duration::from_secs(90);
        let mut client = loop {
            match KyroDbServiceClient::connect(endpoint.clone()).await {
                Ok(c) => break c,
                Err(e) => {
                    if let Ok(Some(st)) = server.0.try_wait() { panic!("server exited early: {st}"); }
                    assert!(Instant::now() < deadline, "server did not come up: {e}");
                    tokio::time::sleep(Duration::from_millis(100)).await;
                }
            }
        };
        tokio::time::sleep(Duration::from_millis(300)).await;
        // three acknowledged inserts back to back (well inside one 100 ms interval), then the client goes quiet
        for i in 1..=3u64 {
            let r = client.insert(tonic::Request::new(InsertRequest { doc_id: i, embedding: c10_vec(i as f32, 1.0), metadata: HashMap::new(), namespace: String::new() })).await.expect("insert rpc");
            assert!(r.get_ref().success, "insert failed: {}", r.get_ref().error);
        }
        tokio::time::sleep(Duration::from_millis(1500)).await;   // 15 flush intervals of idleness
    });
    drop(rt);
    unsafe { libc::kill(server.0.id() as i32, libc::SIGTERM); }   // strace flushes its output file and detaches
    let t0 = Instant::now();
    while server.0.try_wait().ok().flatten().is_none() && t0.elapsed() < Duration::from_secs(10) { std::thread::sleep(Duration::from_millis(50)); }
    // the server process itself may survive the death of strace for a moment: kill whatever still holds the port's data dir is not needed, the trace is complete up to here
    let text = std::fs::read_to_string(&trace).unwrap_or_default();
    // find the descriptor of the WAL segment, then the last write to it and the syncs after that write
    let mut wal_fd: Option<String> = None;
    let mut pending_open: Option<String> = None;
    let (mut last_write, mut syncs_after, mut writes) = (None::<String>, 0usize, 0usize);
    for line in text.lines() {
        if line.contains("openat(") && line.contains("wal_") && line.contains(".wal") && !line.contains("ENOENT") {
            if line.contains("<unfinished") { pending_open = line.split_whitespace().next().map(|p| p.to_string()); }
            else if let Some(fd) = line.rsplit("= ").next() { if fd.trim().parse::<u32>().is_ok() { wal_fd = Some(fd.trim().to_string()); } }
            continue;
        }
        if let Some(pid) = &pending_open {
            if line.starts_with(pid.as_str()) && line.contains("openat resumed") {
                if let Some(fd) = line.rsplit("= ").next() { if fd.trim().parse::<u32>().is_ok() { wal_fd = Some(fd.trim().to_string()); } }
                pending_open = None;
                continue;
            }
        }
        let Some(fd) = &wal_fd else { continue };
        let is = |call: &str| line.contains(&format!(" {call}({fd},")) || line.contains(&format!(" {call}({fd})"));
        if is("write") || is("pwrite64") || is("writev") {
            writes += 1;
            last_write = Some(line.split_whitespace().nth(1).unwrap_or("?").to_string());
            syncs_after = 0;
        } else if is("fsync") || is("fdatasync") {
            syncs_after += 1;
        }
    }
    // the traced server outlives strace: its pid is the first column of the trace
    if let Some(pid) = text.lines().next().and_then(|l| l.split_whitespace().next()).and_then(|p| p.parse::<i32>().ok()) { unsafe { libc::kill(pid, libc::SIGKILL); } }
    if std::env::var("VERIF_REPLAY_DEBUG").is_ok() { eprintln!("trace: {} lines; wal lines: {:?}", text.lines().count(), text.lines().filter(|l| l.contains(".wal")).take(3).collect::<Vec<_>>()); }
    match (wal_fd, last_write) {
        (Some(fd), Some(t)) => {
            println!("  WAL descriptor {fd}: {writes} write call(s), the last at t={t}; fsync/fdatasync calls on it AFTER that write, during 1.5 s (15 intervals) of idleness: {syncs_after}");
            writes >= 1 && syncs_after == 0
        }
        _ => { println!("  could not find the WAL segment in the trace: nothing to decide"); false }
    }
}

fn main() {
    let which = std::env::args().nth(1).unwrap_or_else(|| "all".to_string());
    if which == "F-C01-a-child" {
        crash_child(std::path::Path::new(&std::env::args().nth(2).unwrap()));
        return;
    }
    if which == "F-C12-d-child" {
        let a: Vec<String> = std::env::args().collect();
        c12_cycle_child(&a[2], std::path::Path::new(&a[3]), std::path::Path::new(&a[4]), &a[5]);
        return;
    }
    let scenarios: Vec<(&str, Box<dyn Fn() -> bool>)> = vec![
        ("F-C03-a.nan", Box::new(|| failed_overwrite(DistanceMetric::Euclidean, vec![1.0, 0.0], vec![f32::NAN, 0.0]))),
        ("F-C03-a.overflow", Box::new(|| failed_overwrite(DistanceMetric::Cosine, vec![1.0, 0.0], vec![3e19, 3e19]))),
        ("F-C03-a.inf", Box::new(|| failed_overwrite(DistanceMetric::Cosine, vec![1.0, 0.0], vec![f32::INFINITY, 0.0]))),
        ("F-C01-a", Box::new(crash_at_first_unlink)),
        ("F-C01-b", Box::new(fresh_over_manifest)),
        ("F-C03-c", Box::new(failed_rollback_not_fenced)),
        ("F-C12-a", Box::new(prune_parent)),
        ("F-C12-b.name", Box::new(c12_name_bit_flip)),
        ("F-C12-b.slash", Box::new(c12_name_slash)),
        ("F-C12-c.type", Box::new(c12_meta_type_altered)),
        ("F-C12-c.id", Box::new(c12_meta_id_mismatch)),
        ("F-C12-d.cycle", Box::new(c12_cycle)),
        ("F-C12-e", Box::new(c12_incremental_after_compaction)),
        ("F-C11-a", Box::new(filtered_delete_stale_hot)),
        ("F-C13-a", Box::new(strict_fallback_loss)),
        ("F-C13-b", Box::new(truncated_older_segment)),
        ("F-C13-d", Box::new(manifest_removed_server_starts_empty)),
        ("F-C19-a", Box::new(admin_rpcs_not_rate_limited)),
        ("F-C13-f", Box::new(tenant_map_digit_flip)),
        ("F-C01-c", Box::new(periodic_fsync_never_catches_up)),
        ("F-C13-g", Box::new(tenant_map_removed)),
        ("F-C13-e", Box::new(length_flip_reads_as_torn_tail)),
        ("F-C13-c.snapshot", Box::new(|| manifest_key_flip("latest_snapshot"))),
        ("F-C13-c.segments", Box::new(|| manifest_key_flip("wal_segments"))),
        ("F-C04-a", Box::new(drain_resurrects)),
        ("F-C07-a", Box::new(query_cache_key_collision)),
        ("F-C07-b", Box::new(similarity_ignores_metric)),
        ("F-C10-a", Box::new(search_hits_depend_on_other_tenant)),
    ];
    let mut any = false;
    let mut ran = 0;
    for (name, f) in scenarios {
        if which == "all" || name == which || name.starts_with(&(which.clone() + ".")) {
            println!("== {name}");
            let defect = f();
            println!("VERDICT {name} {}", if defect { "DEFECT" } else { "OK" });
            any |= defect;
            ran += 1;
        }
    }
    if ran == 0 { eprintln!("unknown scenario {which}"); std::process::exit(2); }
    std::process::exit(if any { 1 } else { 0 });
}
